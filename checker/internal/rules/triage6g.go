package rules

import (
	"go/constant"
	"go/token"
	"go/types"
	"strings"

	"golang.org/x/tools/go/ssa"

	"verif/checker/internal/ir"
)

// Round six triage (developer G): evaluator extensions shared by rules that
// follow a DER string (cryptobyte.String) through small helpers.

// ---------------------------------------------------------------- A.trailing

// optFlag says what a caller can learn from one result of a helper about the
// exit the helper took.
type optFlag int

const (
	optFlagNone      optFlag = iota
	optFlagTrue              // the result is the constant true on that exit
	optFlagFalse             // the result is the constant false on that exit
	optFlagRead              // the result is the outcome of the optional read itself
	optFlagNilErr            // the result is the nil error on that exit
	optFlagNonNilErr         // the result is an error known to be non-nil on that exit
)

// optExit is a return of a helper that is reached after an OPTIONAL element was
// read from the helper's DER parameter without anything of the parameter being
// looked at afterwards.
type optExit struct {
	ret   *ssa.Return
	flags map[int]optFlag
}

// optSummary describes what a helper does to the DER string it receives by
// pointer in one of its parameters.
type optSummary struct {
	reads    bool // an OPTIONAL element is read from it (here or further down)
	touches  bool // a cryptobyte method (or len) is applied to it (here or further down)
	unlooked []optExit
}

type optKey struct {
	fn *ssa.Function
	k  int
}

var optMemo = map[optKey]*optSummary{}

func isDERStringPtr(v ssa.Value) bool {
	p, ok := v.Type().Underlying().(*types.Pointer)
	return ok && ir.NamedTypeID(p.Elem()) == cbPkg+".String"
}

// derHelperArg: call hands v (a *cryptobyte.String) to a function of the tree
// under analysis whose body is known; returns the callee and the parameter index.
func derHelperArg(i ssa.Instruction, v ssa.Value) (*ssa.Function, int) {
	call, ok := i.(ssa.CallInstruction)
	if !ok {
		return nil, -1
	}
	g := ir.Callee(call)
	if g == nil || g.Blocks == nil || g.Pkg == nil || g.Pkg.Pkg.Path() == cbPkg {
		return nil, -1
	}
	if len(g.FreeVars) > 0 {
		return nil, -1
	}
	args := call.Common().Args
	if len(args) != len(g.Params) {
		return nil, -1
	}
	for k, a := range args {
		if a == v && isDERStringPtr(g.Params[k]) {
			return g, k
		}
	}
	return nil, -1
}

// derLooksAt: instruction i looks at the DER string behind v (an address: a
// local cell or a pointer parameter): a cryptobyte method on it, its length,
// or a helper of the tree that does one of these with it.
func derLooksAt(v ssa.Value, i ssa.Instruction) bool {
	call, ok := i.(ssa.CallInstruction)
	if !ok {
		return false
	}
	isLoad := func(x ssa.Value) bool {
		ld, isLd := x.(*ssa.UnOp)
		return isLd && ld.Op == token.MUL && ld.X == v
	}
	if b, isB := call.Common().Value.(*ssa.Builtin); isB {
		return b.Name() == "len" && len(call.Common().Args) == 1 && isLoad(call.Common().Args[0])
	}
	args := ir.CallArgs(call)
	if len(args) > 0 && strings.HasPrefix(ir.CallID(call), cbPkg+".String.") {
		// value-receiver methods (Empty) take a copy of the string
		return args[0] == v || isLoad(args[0])
	}
	if g, k := derHelperArg(i, v); g != nil {
		return optSummaryOf(g, k).touches
	}
	return false
}

// resultValues: the values in the caller that carry result r of call.
func resultValues(call *ssa.Call, r int) []ssa.Value {
	sig := call.Call.Signature()
	if sig.Results().Len() == 1 {
		if r == 0 {
			return []ssa.Value{call}
		}
		return nil
	}
	var out []ssa.Value
	if refs := call.Referrers(); refs != nil {
		for _, u := range *refs {
			if ex, ok := u.(*ssa.Extract); ok && ex.Index == r {
				out = append(out, ex)
			}
		}
	}
	return out
}

// optReadSite is one place of fn where an OPTIONAL element is read from the
// DER string behind v: a ReadOptionalASN1* call, or a call of a helper that
// reads one from it. exits are the returns of fn reached from there without a
// look at what is left of the string (paths on which the read failed are not
// followed).
type optReadSite struct {
	call   *ssa.Call
	helper bool
	exits  []*ssa.Return
}

func optReadSites(fn *ssa.Function, v ssa.Value, helpersOnly bool) []optReadSite {
	var out []optReadSite
	for _, b := range fn.Blocks {
		for idx, i := range b.Instrs {
			call, ok := i.(*ssa.Call)
			if !ok {
				continue
			}
			var sum *optSummary
			direct := strings.HasPrefix(ir.CallID(call), cbPkg+".String.ReadOptionalASN1") && len(call.Call.Args) > 0 && call.Call.Args[0] == v
			if direct && helpersOnly {
				continue
			}
			if !direct {
				g, k := derHelperArg(call, v)
				if g == nil {
					continue
				}
				sum = optSummaryOf(g, k)
				if !sum.reads {
					continue
				}
			}
			site := optReadSite{call: call, helper: !direct}
			if !direct && len(sum.unlooked) == 0 {
				out = append(out, site)
				continue
			}
			later := false
			for _, j := range b.Instrs[idx+1:] {
				if derLooksAt(v, j) {
					later = true
				}
			}
			if later {
				out = append(out, site)
				continue
			}
			cut := map[ir.Edge]bool{}
			for _, bb := range fn.Blocks {
				if bb == b {
					continue
				}
				for _, j := range bb.Instrs {
					if derLooksAt(v, j) {
						for _, p := range bb.Preds {
							cut[ir.Edge{From: p.Index, To: bb.Index}] = true
						}
						break
					}
				}
			}
			// edges that cannot follow an exit of the read that left the rest
			// unlooked: the read failed, or a result tells another exit was taken
			// Each exit of the read that left the rest unlooked is followed on its own:
			// what its results say (a constant flag, the outcome of the read, a nil or
			// non-nil error) removes the edges that cannot be taken after it.
			var cases []map[int]optFlag
			if direct {
				cases = []map[int]optFlag{nil}
			} else {
				for _, e := range sum.unlooked {
					cases = append(cases, e.flags)
				}
			}
			reached := map[*ssa.Return]bool{}
			for _, flags := range cases {
				impossible := map[ssa.Value]bool{} // value -> the truth that is impossible
				errIs := map[ssa.Value]optFlag{}   // error value -> known nil / non-nil
				if direct {
					impossible[call] = false
				} else {
					n := call.Call.Signature().Results().Len()
					for r := 0; r < n; r++ {
						for _, rv := range resultValues(call, r) {
							switch flags[r] {
							case optFlagTrue, optFlagRead:
								impossible[rv] = false
							case optFlagFalse:
								impossible[rv] = true
							case optFlagNilErr, optFlagNonNilErr:
								errIs[rv] = flags[r]
							}
						}
					}
				}
				cutC := map[ir.Edge]bool{}
				for e := range cut {
					cutC[e] = true
				}
				for _, ce := range ir.CondEdges(fn) {
					if t, has := impossible[ce.Cond]; has && ce.Truth == t {
						cutC[ce.Edge] = true
					}
					if ev, nilWhenTrue, isNC := ir.NilCheck(ce.RawCond); isNC {
						if fl, has := errIs[ev]; has {
							saysNil := ce.RawTruth == nilWhenTrue
							if saysNil != (fl == optFlagNilErr) {
								cutC[ce.Edge] = true
							}
						}
					}
				}
				seen, _ := ir.Reach(fn, b, cutC)
				for _, r := range ir.Returns(fn) {
					if seen[r.Block().Index] {
						reached[r] = true
					}
				}
			}
			for _, r := range ir.Returns(fn) {
				if reached[r] {
					site.exits = append(site.exits, r)
				}
			}
			out = append(out, site)
		}
	}
	return out
}

func optSummaryOf(g *ssa.Function, k int) *optSummary {
	key := optKey{g, k}
	if s, ok := optMemo[key]; ok {
		return s
	}
	s := &optSummary{}
	optMemo[key] = s // recursion: the unfinished summary says nothing
	if k >= len(g.Params) {
		return s
	}
	p := ssa.Value(g.Params[k])
	instrsOf(g, func(i ssa.Instruction) {
		if derLooksAt(p, i) {
			s.touches = true
		}
	})
	sites := optReadSites(g, p, false)
	s.reads = len(sites) > 0
	byRet := map[*ssa.Return]*optExit{}
	for _, site := range sites {
		for _, r := range site.exits {
			e := byRet[r]
			first := e == nil
			if first {
				e = &optExit{ret: r, flags: map[int]optFlag{}}
				byRet[r] = e
			}
			for idx, rv := range r.Results {
				fl := optFlagNone
				if kc, isK := rv.(*ssa.Const); isK && kc.Value != nil && kc.Value.Kind() == constant.Bool {
					fl = optFlagFalse
					if constant.BoolVal(kc.Value) {
						fl = optFlagTrue
					}
				} else if isErrorType(rv.Type()) && ir.IsNilConst(rv) {
					fl = optFlagNilErr
				} else if isErrorType(rv.Type()) && errValClass(r, rv, 0) == "fail" {
					fl = optFlagNonNilErr
				} else if !site.helper && rv == ssa.Value(site.call) {
					fl = optFlagRead
				} else if site.helper {
					hg, hk := derHelperArg(site.call, p)
					hs := optSummaryOf(hg, hk)
					n := site.call.Call.Signature().Results().Len()
					for r2 := 0; r2 < n; r2++ {
						all := len(hs.unlooked) > 0
						for _, he := range hs.unlooked {
							if he.flags[r2] != optFlagRead {
								all = false
							}
						}
						if !all {
							continue
						}
						for _, v2 := range resultValues(site.call, r2) {
							if v2 == rv {
								fl = optFlagRead
							}
						}
					}
				}
				if first {
					e.flags[idx] = fl
				} else if e.flags[idx] != fl {
					e.flags[idx] = optFlagNone
				}
			}
		}
	}
	for _, r := range ir.Returns(g) {
		if e := byRet[r]; e != nil {
			s.unlooked = append(s.unlooked, *e)
		}
	}
	return s
}

// ---------------------------------------------------------------- result cells

// recoverExitOnly: r is the return of fn's recover block (reached only when a
// deferred call recovers a panic) and result k there is the result cell as it
// stands, a cell that only return statements of fn assign: the exit yields the
// zero value or a value some other return yields.
func recoverExitOnly(fn *ssa.Function, r *ssa.Return, k int) bool {
	if fn.Recover == nil || r.Block() != fn.Recover || k >= len(r.Results) {
		return false
	}
	ld, ok := r.Results[k].(*ssa.UnOp)
	if !ok || ld.Op != token.MUL {
		return false
	}
	a, ok := ld.X.(*ssa.Alloc)
	if !ok || a.Parent() != fn {
		return false
	}
	if refs := a.Referrers(); refs != nil {
		for _, u := range *refs {
			switch x := u.(type) {
			case *ssa.Store:
				if x.Addr != ssa.Value(a) {
					return false // the address escapes
				}
				if _, isRet := x.Block().Instrs[len(x.Block().Instrs)-1].(*ssa.Return); !isRet {
					return false
				}
			case *ssa.UnOp, *ssa.DebugRef:
			default:
				return false // captured or handed on
			}
		}
	}
	return true
}

// ---------------------------------------------------------------- pooled hash states

// pooledCtor: get is (*sync.Pool).Get on a package-level pool. When the pool's
// New function returns a freshly constructed value and every value taken from
// the pool is in its initial state when it is used (each taker calls Reset
// before anything else, or nothing goes back into the pool without a Reset
// after its last input), the value Get yields stands for the constructor call
// New makes; that call is returned. Otherwise why says what is not followed.
func (c *Ctx) pooledCtor(get ssa.CallInstruction) (*ssa.Call, string) {
	if get == nil || ir.CallID(get) != "sync.Pool.Get" || len(get.Common().Args) == 0 {
		return nil, "not a value taken from a pool"
	}
	pool, ok := get.Common().Args[0].(*ssa.Global)
	if !ok || pool.Pkg == nil {
		return nil, "the pool is not a package-level variable"
	}
	if v, done := poolCtorMemo[pool]; done {
		return v.ctor, v.why
	}
	ctor, why := c.pooledCtorOf(pool)
	poolCtorMemo[pool] = poolVerdict{ctor, why}
	return ctor, why
}

var poolCtorMemo = map[*ssa.Global]poolVerdict{}

type poolVerdict struct {
	ctor *ssa.Call
	why  string
}

func (c *Ctx) pooledCtorOf(pool *ssa.Global) (*ssa.Call, string) {
	fns := append([]*ssa.Function{}, c.P.LibFunctions()...)
	if init := pool.Pkg.Func("init"); init != nil {
		fns = append(fns, init)
	}
	var gets, puts []ssa.CallInstruction
	var newFn *ssa.Function
	newStores := 0
	other := ""
	seenFn := map[*ssa.Function]bool{}
	for _, top := range fns {
		for _, f := range withAnon(top) {
			if seenFn[f] {
				continue
			}
			seenFn[f] = true
			instrsOf(f, func(i ssa.Instruction) {
				uses := false
				for _, op := range i.Operands(nil) {
					if op != nil && *op == ssa.Value(pool) {
						uses = true
					}
				}
				if !uses {
					return
				}
				switch x := i.(type) {
				case ssa.CallInstruction:
					args := x.Common().Args
					switch id := ir.CallID(x); {
					case id == "sync.Pool.Get" && len(args) == 1 && args[0] == ssa.Value(pool):
						gets = append(gets, x)
					case id == "sync.Pool.Put" && len(args) == 2 && args[0] == ssa.Value(pool) && args[1] != ssa.Value(pool):
						puts = append(puts, x)
					default:
						other = "the pool is handed to " + id
					}
				case *ssa.FieldAddr:
					st, isStruct := pool.Type().(*types.Pointer).Elem().Underlying().(*types.Struct)
					if !isStruct || x.Field >= st.NumFields() || st.Field(x.Field).Name() != "New" || x.Referrers() == nil {
						other = "a field of the pool other than New is touched"
						return
					}
					for _, u := range *x.Referrers() {
						st, isSt := u.(*ssa.Store)
						if !isSt || st.Addr != ssa.Value(x) {
							other = "the pool's New field is used in a way that is not followed"
							continue
						}
						newStores++
						newFn = ir.FuncValue(st.Val)
					}
				case *ssa.DebugRef:
				default:
					other = "the pool is used as a value"
				}
			})
		}
	}
	if other != "" {
		return nil, other
	}
	if newStores != 1 || newFn == nil || newFn.Blocks == nil || len(newFn.FreeVars) != 0 || newFn.Signature.Results().Len() != 1 {
		return nil, "the pool's New function is not a single known function"
	}
	ctor, ok := ir.StripIface(uniqueResult(newFn, 0)).(*ssa.Call)
	if !ok || ctor.Parent() != newFn {
		return nil, "the pool's New function does not return a freshly constructed value"
	}
	// the state a value denotes: the Get call it was taken with
	stateOf := func(v ssa.Value) ssa.CallInstruction {
		v = ir.StripIface(resolveCell(ir.StripIface(v)))
		ta, isTA := v.(*ssa.TypeAssert)
		if isTA {
			v = ta.X
		}
		if ex, isEx := v.(*ssa.Extract); isEx {
			v = ex.Tuple
			if ta2, isTA2 := v.(*ssa.TypeAssert); isTA2 {
				v = ta2.X
			}
		}
		g, isCall := v.(*ssa.Call)
		if !isCall || ir.CallID(g) != "sync.Pool.Get" || len(g.Call.Args) != 1 || g.Call.Args[0] != ssa.Value(pool) {
			return nil
		}
		return g
	}
	// what an instruction does with a state: "", "reset", "put", "use"
	touch := func(i ssa.Instruction, g ssa.CallInstruction) string {
		call, isCall := i.(ssa.CallInstruction)
		if !isCall {
			return ""
		}
		cc := call.Common()
		if cc.IsInvoke() && stateOf(cc.Value) == g {
			if cc.Method.Name() == "Reset" && len(cc.Args) == 0 {
				return "reset"
			}
			return "use"
		}
		for k, a := range cc.Args {
			if stateOf(a) != g {
				continue
			}
			if ir.CallID(call) == "sync.Pool.Put" && k == 1 {
				return "put"
			}
			return "use"
		}
		return ""
	}
	// (B) nothing goes back without a Reset after its last input
	putterResets := true
	for _, p := range puts {
		g := stateOf(p.Common().Args[1])
		if g == nil {
			return nil, "a value that was not taken from the pool is put into it"
		}
		clean := false
		for _, i := range p.Block().Instrs {
			if i == ssa.Instruction(p) {
				break
			}
			switch touch(i, g) {
			case "reset":
				clean = true
			case "use":
				clean = false
			}
		}
		if _, deferred := p.(*ssa.Defer); deferred || !clean {
			putterResets = false
		}
	}
	if putterResets {
		return ctor, ""
	}
	// (A) every taker resets the state before anything else is done with it
	for _, g := range gets {
		gc, isCall := g.(*ssa.Call)
		if !isCall {
			return nil, "a pool value is taken by a deferred or go call"
		}
		home := gc.Parent()
		reset := -1
		gi := -1
		for idx, i := range gc.Block().Instrs {
			if i == ssa.Instruction(gc) {
				gi = idx
			}
			if gi >= 0 && reset < 0 {
				switch touch(i, g) {
				case "reset":
					reset = idx
				case "use":
					return nil, "a pooled state is used before it is reset"
				}
			}
		}
		if reset < 0 {
			return nil, "a pooled state is not reset where it is taken, and states go back into the pool without a reset"
		}
		for _, f := range withAnon(topFn(home)) {
			bad := false
			instrsOf(f, func(i ssa.Instruction) {
				if touch(i, g) != "use" {
					return
				}
				if f != home {
					bad = true
					return
				}
				if i.Block() == gc.Block() {
					for idx, j := range gc.Block().Instrs {
						if j == i && idx < reset {
							bad = true
						}
					}
				} else if !gc.Block().Dominates(i.Block()) {
					bad = true
				}
			})
			if bad {
				return nil, "a pooled state is used where the reset after taking it is not known to have run"
			}
		}
	}
	return ctor, ""
}

// ---------------------------------------------------------------- selections of a slice

// selectionOf: r is a list that a loop fills with elements of another slice
// while it walks that slice upwards (hashed = append(hashed, s[i]) for i = 0, 1,
// ...; possibly under conditions): its items are items of that slice in that
// slice's order. Returns the slice selected from and the selecting append.
func (d *deepView) selectionOf(r dval) (src dval, at ssa.Instruction, fr *frame, ok bool) {
	if _, isPhi := r.v.(*ssa.Phi); !isPhi {
		return
	}
	items := d.list(r.v, r.fr)
	if len(items) != 1 || !items[0].loop || items[0].opaque || items[0].idx != nil || items[0].at == nil {
		return
	}
	it := items[0]
	ld, isLd := ir.StripConv(it.v.v).(*ssa.UnOp)
	if !isLd || ld.Op != token.MUL {
		return
	}
	ia, isIA := ld.X.(*ssa.IndexAddr)
	if !isIA || !risingIndex(ia.Index) {
		return
	}
	if _, isSlice := ia.X.Type().Underlying().(*types.Slice); !isSlice {
		return
	}
	return d.resolve(ia.X, it.v.fr), it.at, it.v.fr, true
}

// risingIndex: the index of a loop that visits 0, 1, 2, ... in that order: the
// counted form i = phi(0, i+1) or the range form phi(-1, i) + 1.
func risingIndex(v ssa.Value) bool {
	plusOne := func(b *ssa.BinOp, x ssa.Value) bool {
		if b == nil || b.Op != token.ADD || b.X != x {
			return false
		}
		k, isK := ir.ConstInt(b.Y)
		return isK && k == 1
	}
	if ph, isPhi := v.(*ssa.Phi); isPhi && len(ph.Edges) >= 2 {
		if c0, ok0 := ir.ConstInt(ph.Edges[0]); !ok0 || c0 != 0 {
			return false
		}
		for _, e := range ph.Edges[1:] {
			inc, _ := e.(*ssa.BinOp)
			if !plusOne(inc, ph) {
				return false
			}
		}
		return true
	}
	if bo, isB := v.(*ssa.BinOp); isB {
		ph, isPhi := bo.X.(*ssa.Phi)
		if !isPhi || !plusOne(bo, ph) || len(ph.Edges) < 2 {
			return false
		}
		if c0, ok0 := ir.ConstInt(ph.Edges[0]); !ok0 || c0 != -1 {
			return false
		}
		for _, e := range ph.Edges[1:] {
			if e != ssa.Value(bo) {
				return false
			}
		}
		return true
	}
	return false
}

// ---------------------------------------------------------------- B.hash: (value, found) lookups

// hashFoundFlagTested: recv is result 0 of a lookup helper of the tree that
// returns (crypto.Hash, bool); the helper hands out false with every value the
// code does not fix to a linked hash function (the zero value of a miss) and
// true only with non-zero constants or entries of a read-only package-level
// table of non-zero constants; and the use in blk lies behind a test that the
// flag is true.
func (c *Ctx) hashFoundFlagTested(fn *ssa.Function, blk *ssa.BasicBlock, recv ssa.Value) bool {
	ex, ok := recv.(*ssa.Extract)
	if !ok || ex.Index != 0 {
		return false
	}
	look, ok := ex.Tuple.(*ssa.Call)
	if !ok {
		return false
	}
	callee := ir.Callee(look)
	if callee == nil || callee.Blocks == nil || !c.P.InLib(callee) {
		return false
	}
	res := callee.Signature.Results()
	if res.Len() != 2 || ir.NamedTypeID(res.At(0).Type()) != "crypto.Hash" || !isBoolType(res.At(1).Type()) {
		return false
	}
	nonZeroConst := func(v ssa.Value) bool {
		k, isK := ir.StripConv(v).(*ssa.Const)
		return isK && !isZeroConst(k)
	}
	for _, r := range ir.Returns(callee) {
		if len(r.Results) != 2 {
			return false
		}
		if recoverExitOnly(callee, r, 0) {
			continue
		}
		val, flag := effectiveResult(callee, r, 0), effectiveResult(callee, r, 1)
		fk, isK := flag.(*ssa.Const)
		if !isK || fk.Value == nil || fk.Value.Kind() != constant.Bool {
			return false
		}
		if !constant.BoolVal(fk.Value) {
			continue // a miss: whatever comes with it is not used behind the test
		}
		if nonZeroConst(val) {
			continue
		}
		col, isTable := c.globalTableColumn(val)
		if !isTable || len(col) == 0 {
			return false
		}
		for _, e := range col {
			if !nonZeroConst(e) {
				return false
			}
		}
	}
	for _, ce := range ir.DominatingConds(fn, blk) {
		if fe, isEx := ce.Cond.(*ssa.Extract); isEx && fe.Tuple == ssa.Value(look) && fe.Index == 1 && ce.Truth {
			return true
		}
	}
	return false
}
