package rules

// Static descriptions written into every evidence file: what the check decides
// (structural necessary conditions) and what it leaves to other techniques.

var commonAssumptions = []string{
	"the analysed program is the one go/packages loads from the repository's current working tree for the listed build configurations",
	"go/ssa and the VTA call graph are sound for it (no reflect/unsafe/cgo control flow in library code)",
	"integer conversions are treated as identity and machine wrap-around is ignored in the affine domain",
	"aliasing is approximated by access paths plus freshness; there is no points-to analysis in x/tools v0.29.0",
	"obligations on code that uses constructs no evaluator models (package-level tables of structs/functions, generic instantiations, unfixed function values, method values, codec objects) or shapes an evaluator does not follow are listed as 'not decided for this shape' and do not fail the check; a resolved value that contradicts the rule does",
}

func meta(expl string, decided, not []string, extra ...string) Meta {
	return Meta{Explanation: expl, Decided: decided, NotDecided: not, Assumptions: append(append([]string{}, commonAssumptions...), extra...)}
}

func init() {
	const lead = "Static analysis only (types, SSA, call graph of /repo's current source; nothing is executed). The check decides structural necessary conditions of the property on every path of the anchored functions: breaking one of them breaks the behaviour for some input; satisfying all of them does not prove the behaviour. "
	Metas["C01"] = meta(lead+"Rules J1/J2 over authenticode.Parse.",
		[]string{"the part of the concatenating reader that serves an offset is the first whose end is strictly beyond it (J5)", "the hashed header ranges equal the offsets derived from the debug/pe struct layouts for PE32 and PE32+ (checksum field, certificate-table directory entry index 4 excluded)", "sections are sorted ascending by file offset before they are hashed and zero-size sections contribute nothing", "the image digest is SHA-256 over hashContent only"},
		[]string{"the digest value for all images", "multi.ReadAt arithmetic", "trailing-data and padding arithmetic", "coverage per byte position"})
	Metas["C02"] = meta(lead+"Rule family A (cut-sets on the CFG) over PECOFFBinary.Verify -> Authenticode.Verify -> PKCS7.Verify and helpers.",
		[]string{"the hash-coverage rules of C01 (J1-J5) for the digest that is compared", "fields of the parsed signature objects are written only while the object is under construction (A.frozen)", "every path to an accepting return crosses: image digest == signed digest (SHA-256, algorithm OID checked), issuer and serial identity with the caller's certificate, CheckSignature(SHA256WithRSA) by the caller's certificate over the re-encoded signed attributes, messageDigest == SHA-256(encapsulated content)", "evidence is required per loop iteration", "the signature verified is parsed from the image's own certificate table; Digest/Algid come from the signed content"},
		[]string{"correctness of SHA-256/RSA and of DER parsing", "the digest itself (C01)", "behaviour on every concrete forgery"})
	Metas["C03"] = meta(lead+"Rule family M over AppendSignature, Sign, Open, Parse.",
		[]string{"the emitter rules of C05 (L1-L6) for the embedded signature", "entry padding judged by value: for every residue of dwLength modulo 8 the pad bytes and the directory growth equal the distance to the next multiple of 8 (abstract evaluation in the congruence domain)", "no loop retains the address of a variable declared outside it (M6)", "WIN_CERTIFICATE header constants (revision 0x0200, type 0x0002) and dwLength = 8 + len(signature) for the same value", "table bytes and directory Size grow by Length + pad with both pad values from one PaddingBytes(Length, 8) call, header written before the pad", "a new table starts at the padded end of file", "Open concatenates first part, directory entry, rest, padding, table in that order", "signing happens before mutation"},
		[]string{"that the output verifies", "digest stability across signing", "alignment for every size", "byte-exact output"})
	Metas["C04"] = meta(lead+"Rule family A over (*PKCS7).Verify and the two wrappers, rule N for absent attributes.",
		[]string{"fields of the parsed signature objects are written only while the object is under construction (A.frozen)", "issuer+serial identity, valid RSA-SHA256 signature by the caller's certificate over the attribute encoder's output, messageDigest/content binding or detached blob, all for the same signer entry", "optional signed attributes are nil-checked before use"},
		[]string{"equality of re-encoded and originally signed attribute bytes (C16)", "DER strictness, trailing garbage", "RSA/SHA-256 themselves"})
	Metas["C05"] = meta(lead+"Rule family L (value-flow bindings) over SignPKCS7, Attributes.Marshal, SignAuthenticode.",
		[]string{"encryptedDigest is exactly the signer's result when the byte-sequence evaluator resolves it (no padding, prefix or cut)", "messageDigest = SHA-256(unsliced content); contentType = oid parameter", "the digest signed is SHA-256 over the attribute encoder's output for the same Attributes value, opts = crypto.SHA256", "the bytes under [0] derive from the same encoder result, obtained by parsing the SET (not by slicing)", "issuer = cert.RawIssuer, serial via AddASN1BigInt, certificate = cert.Raw", "emitter nesting equals the RFC 2315 ContentInfo/SignedData/SignerInfo shape", "Authenticode content = SpcIndirectDataContent(SHA-256 of the image reader)"},
		[]string{"acceptance by OpenSSL / other CMS implementations", "DER SET-OF ordering", "behaviour for all certificates and key sizes"})
	Metas["C06"] = meta(lead+"Rule family I (value-flow bindings) over SignEFIVariable, NewEFIVariableAuthentication2, NewEFITime and the descriptor writers.",
		[]string{"the emitter rules of C05 (L1-L6)", "CertData is exactly the content the ContentInfo parser returned", "encoding the prepared update neither consumes it nor shares its storage with the output (E.pure on efibytes and the descriptor encoder)", "timestamp fields come from a UTC time; pad/nanosecond/timezone/daylight are never set", "signed buffer order name(UTF-16LE, unterminated) || GUID || attributes || timestamp || payload, little endian", "descriptor constants 0x0200 / 0x0EF1 / PKCS7 type GUID, initial length 24", "dwLength grows by len of the same bytes stored as CertData, which are the SignedData with the outer ContentInfo stripped; content type id-data (detached)", "one timestamp value for signed buffer and descriptor", "descriptor marshalled before the unchanged payload"},
		[]string{"acceptance by firmware or an external verifier", "the clock value"})
	Metas["C07"] = meta(lead+"Rule family G (codec tables), K2/K4.",
		[]string{"Unmarshal replaces the receiver's value (G14)", "every list / entry is handed to its encoder on every iteration, wherever in the call cone the loop lives (G8)", "list and entry reader/writer tables agree and equal the EFI_SIGNATURE_LIST / EFI_SIGNATURE_DATA layouts", "entry data is SignatureSize-16 bytes", "nothing consumed is dropped", "SignatureHeader is empty for every accepted list", "every list and entry is written", "ListSize changes by ±Size with one entry, sizes stay uniform", "decoded data does not alias the input buffer"},
		[]string{"byte-for-byte round trip for all streams", "numeric correctness of hand-built lists"})
	Metas["C08"] = meta(lead+"Rules T (taint + affine guards), A-d (gates), G4 (clean end, EOF provenance), G10.",
		[]string{"no read-ahead or read-to-end consumer on the decoder's stream (G12)", "no loop retains the address of a variable declared outside it (G13.distinct)", "ListSize-28, Size-16 and the remaining-size decrement are guarded against wrap; allocations bounded", "handled-type gate, SHA-256 only with size 48", "every accepted list has ListSize = 28 + n*SignatureSize (divisibility or exact-product equality on every accepting path)", "database decoder succeeds only at a clean end", "EOF-transparent errors leave the list decoder only before anything was consumed", "full-read primitives"},
		[]string{"that accepted streams are split exactly as a reference decoder would", "adequacy of other checks' arithmetic beyond affine entailment"})
	Metas["C09"] = meta(lead+"Rule family K over AppendBytes/RemoveBytes/Append/Remove.",
		[]string{"after a change of the collection no return hands on the error of a later call on another object (K0.atomic)", "guards dominate mutations (not-duplicate, found, known type, 32-byte hashes, uniform size)", "no failing return after a mutation", "checked value == stored value; list selected by stored length", "order-preserving removal, search continues after a miss, emptied list dropped", "ListSize ± Size pairing"},
		[]string{"operation histories against an abstract model", "removal from the right list when two lists share type and size"})
	Metas["C10"] = meta(lead+"Rule family G over the three descriptor/certificate codec pairs, T/B/G10 in the readers.",
		[]string{"no read-ahead or read-to-end consumer on the decoders' stream (G12)", "no declared length up to 64 KiB + 24 is rejected for being large (G13.range)", "reader/writer agreement position by position and with the UEFI layouts", "body = dwLength-8; the GUID variant consumes nothing beyond the declared length", "body emitted once", "length arithmetic guarded; no terminator on input; full reads"},
		[]string{"byte-exact round trip for all values", "behaviour of arbitrary io.Reader implementations beyond the short-read contract"})
	Metas["C11"] = meta(lead+"Rule family F over the two write twins, the read path, WriteVar and GetVarWithAttributes; H1 for the GUID text.",
		[]string{"open flags carry no bit beyond O_WRONLY|O_CREATE[|O_APPEND]", "the variable file is not read with a single Read outside a loop", "name, attributes and GUID reach the filesystem layer each in its own parameter, on the write and the read side, without being selected by another field (control dependence)", "exactly one Write on successful paths, never two, no other mutator", "flags O_WRONLY|O_CREATE, no O_EXCL, O_APPEND iff APPEND_WRITE", "buffer = LE32(attrs) ++ value with attrs unmodified", "path from efivars dir, name and canonical GUID text", "short-write check against the written buffer", "required.Equal(stored) dominates the decode; Equal is the subset test", "4 LE bytes then remainder, success only if both reads succeed", "argument mapping of WriteVar", "canonical lower-case GUID text"},
		[]string{"kernel/efivarfs behaviour", "immutable-flag handling through ioctl", "trace observed at run time"})
	Metas["C12"] = meta(lead+"Rules F9-F11.",
		[]string{"one file per variable definition and append mode only for append writes (F1-F4, F8 shared with C11)", "writing a prepared value does not use it up (E.pure on the value encoders)", "non-append rewrites discard old content (O_TRUNC/Create/Remove)", "the strip table equals the authenticated variables of package efivar and works on a fresh per-call buffer, payload decoded from the bytes after the descriptor", "the read path hands out fresh buffers"},
		[]string{"register semantics over operation histories"})
	Metas["C13"] = meta(lead+"Rules B, T1-T5, N, R over everything reachable from the exported API of authenticode and pkcs7.",
		[]string{"loops over a shrinking slice advance (suffix cut at a positive constant; pem.Decode rest only behind block != nil)", "no process terminator with a feasible trigger", "allocations, unsigned subtractions, Truncate/Next/Grow arguments, slice bounds and indexes fed by input-derived values are implied safe by dominating comparisons (affine entailment)", "optional results nil-checked before dereference", "every loop is a range/counted loop or consumes input on every cycle with failure leaving the loop"},
		[]string{"general panic-freedom (bounds checks the compiler cannot prove are listed by the thorough tier as inventory)", "time/memory proportionality", "panics inside dependencies"})
	Metas["C14"] = meta(lead+"Rules B (every library terminator site: the property's own static quantifier), T1-T5, N, R over the variable decoders.",
		[]string{"loops over a shrinking slice advance (suffix cut at a positive constant; pem.Decode rest only behind block != nil)", "every log.Fatal*/os.Exit/panic/must-style call site in library code enumerated and classified by its dominating condition", "the same missing-check, nil and loop rules as C13 over the decoders of efi/signature, efi/device, efi/util, efivar, efivarfs"},
		[]string{"general panic-, hang- and memory-freedom for all inputs", "the time bound"})
	Metas["C15"] = meta(lead+"Rule family C over everything reachable from the listed operations.",
		[]string{"no dependency error is dropped", "every return reachable from a failure edge carries a non-nil error (deferred-close idiom accepted; io.EOF of readers is not a failure)", "no terminator triggered by a dependency error", "short writes checked", "a 'no value' result is tested by library callers", "mutation / write only behind the success edge of signing"},
		[]string{"executed behaviour at each fault position", "wrong values returned on success paths"})
	Metas["C17"] = meta(lead+"Rules H1, G6, G7, A-u over util/guid.go, util/util.go and all GUID codec sites.",
		[]string{"unicode.UTF16 is used with IgnoreBOM", "every result of StringToGUID comes from the hex decoder (or is turned away on that decoder's own outcome)", "canonical 8-4-4-4-12 lower-case GUID text over Data1..Data4", "text/bytes pair is big endian on both sides, fields in order", "every encoded structure containing a GUID uses little endian; the big-endian serialisers are not used for wire data", "field-wise equality", "terminator check dominates success; encoder writes the string then one NUL through the UTF-16LE encoder; the terminator scan returns only bytes it read"},
		[]string{"x/text transcoding (surrogates)", "hex.DecodeString behaviour", "value-level losslessness"})
	Metas["C18"] = meta(lead+"Rules H2, G5 over boot-order decoding and the device-path node readers.",
		[]string{"sizes derived from a multi-byte length field use all of its bytes (T6)", "no position depends on the UTF-8 length of a UTF-16-decoded string (T7)", "boot names are Boot + exactly four upper-case hex digits of the little-endian uint16, nothing after", "the accessor uses the name unchanged", "node reader tables equal the UEFI layouts", "load-option description via the 2-byte aligned terminator scan", "hard-drive text renders the fields in UEFI order from the right fields"},
		[]string{"text rendering in general", "description decoding for all strings"})
	Metas["C19"] = meta(lead+"Rule family E (effects) over the read-only API and its callees.",
		[]string{"the declared output of a read-only operation is not given storage reachable from the receiver", "no store to receiver-reachable or global memory", "no cursor-advancing or storage-writing call on a receiver-reachable object (fresh copies allowed)", "no package-level mutable scratch state"},
		[]string{"value-level equality of repeated results", "data races as observed by the race detector"},
		"the caller's io.ReaderAt honours its documented parallel-use contract")
	Metas["C16"] = meta(lead+"Rule family X over ParsePKCS7 and the attribute parser / encoder pair, A.lossless, and the signature fact of C04.",
		[]string{"elements PKCS#7 makes OPTIONAL ([0] content, [0] certificates, [0] signed attributes, NULL algorithm parameters) are not insisted on by any parser function ParsePKCS7 reaches (X1.optional)", "an AlgorithmIdentifier is accepted with NULL parameters as well as without (X1.params)", "a bare SignedData is accepted as well as one wrapped in a ContentInfo (X4.outer)", "elements behind the encrypted digest of a SignerInfo are tolerated (X5.unsigned-tail)", "equality of algorithm parameters with one value is never necessary for acceptance (X1.params-compare)", "the digest covers the [0] content with exactly one header taken off (A.content-value)", "a function literal kept for later does not capture the loop variable (X6.distinct)", "a signed attribute of unknown type is neither refused nor dropped (X2.unknown)", "every field the attribute parser fills is emitted again by the attribute encoder, under the same attribute type and with the same ASN.1 primitive, and no field is filled from two different wire forms (X3.pair)", "nothing the parser consumes from the signed attributes is dropped: every structure cut out inside them is accounted for to its end and a single-valued field is not filled twice (A.lossless; found and led to the repair of parseAttributes)", "what is verified is the attribute encoder's output for the parsed attributes, by the caller's certificate (A.signature of C04)"},
		[]string{"the bytes OpenSSL, sbsign or sbvarsign actually emit for any input and option", "that the re-encoding equals the signed bytes for a given blob", "DER canonicalisation of values inside attributes the parser keeps as raw bytes"})
	// rules added with the third batch of seeded changes
	recycle := "nothing handed back to a sync.Pool stays reachable from a result (P.recycle: aliases followed, copies end the trail)"
	state := "the anchored functions keep nothing in package-level memory between calls (E.state)"
	more := map[string][]string{
		"C01": {"parts of the concatenating reader are read at part-relative offsets (J7.partoff)", "only SizeOfRawData == 0 leaves a section out of the digest (J2 only-empty-skipped)", "padding handed out from shared memory is never written (J6.padzero)", state, recycle},
		"C02": {"the signature fact needs every source of the tested error to be the signature check: a variable that may still be nil does not count", "the C01 additions (J6, J7, only-empty-skipped, E.state, P.recycle)"},
		"C03": {"the image verifier accepts only behind signer identity and signature by the caller's certificate (family A, as in C02)", "padding handed out from shared memory is never written (M7.padzero)", recycle},
		"C04": {"the signer's serial number is decoded as an ASN.1 INTEGER, not taken as an unsigned magnitude (A.serial-value)"},
		"C05": {state, recycle},
		"C06": {recycle},
		"C07": {"the size recorded for a list is computed from the bytes that are stored (K7.sized)", "an accepting path on which HeaderSize is never read is reported whatever the shape of the code", state, recycle},
		"C08": {"inside one list an io.EOF of a read from the caller's stream never ends in a successful return (G4.eofok)", "lists are accepted only with HeaderSize == 0 (A-d)"},
		"C09": {"the size recorded for a list is computed from the bytes that are stored (K7.sized)", "input is stored unchanged only if pem.Decode found no block or the type is not a certificate type (K8.normalise)"},
		"C10": {"encoders only append: no write into the buffer's existing content at an offset from its start (G15.append)", "fixed-width fields copied from input-sized bytes are length-checked (G16.short)", "no legal EFI_TIME value is refused by the descriptor decoder (G17.time, boundary values of the UEFI ranges)", state, recycle},
		"C11": {"typed accessors hand the store a definition carrying the attributes of the definitions table (F12.def)"},
		"C12": {"once the descriptor decoded, every path stores the payload and not the signed update (F10 always-payload)", "the descriptor decoder used as strip predicate refuses no legal EFI_TIME value (G17.time)"},
		"C13": {"fixed-width decodes only from slices known to be long enough (T8)", "no unchecked type assertion on a value whose dynamic type the input selects (B.assert)", "every Lock is released on all paths to a return (R.lock)", "a hash function looked up from input is tested before New/Size (B.hash)", "the hashed stream is never read whole into memory (T1.stream)"},
		"C14": {"fixed-width decodes only from slices known to be long enough (T8)", "no unchecked type assertion on a value whose dynamic type the input selects (B.assert)", "every Lock is released on all paths to a return (R.lock)", "a hash function looked up from input is tested before New/Size (B.hash)"},
		"C15": {"the count of a direct Read on a dependency is looked at (C6.shortread)", "an error stored by a deferred function counts only if the cell is read back after the defers ran (a result cell)", "state kept on the image object by Hash is stored only behind a complete read (C.order state-after-read)"},
		"C17": {"the UTF-16 decoder is drained, not read once (A-u.utf16.whole)", state, recycle},
		"C18": {"every 16-bit entry of BootOrder is decoded: reads run until the value is exhausted, no counter against a shrinking length, no single bounded read (H2.all)", "a load option decoded into a used value replaces it, also field by field (G14.replace)", "text rendering indexes no table with an unchecked field value (T4/T5 over the Format cone)"},
		"C19": {"no byte buffer kept on the object is written by anything a read-only operation reaches, callbacks from io.Copy included (E.scratch)", "a scratch copy that still shares elements with the receiver is receiver-reachable (append of reference elements, caller cells behind pointer parameters)", recycle},
	}
	// rules added with the fourth batch
	more4 := map[string][]string{
		"C01": {"a search over the parts' start offsets uses > and steps back (J5)"},
		"C02": {"an OPTIONAL element read last from a nested DER structure is followed by a look at the remainder (A.trailing)"},
		"C03": {"the hash-coverage rules of C01", "once Sign changed the image object it returns no error (C.order)"},
		"C04": {"an OPTIONAL element read last from a nested DER structure is followed by a look at the remainder (A.trailing)"},
		"C06": {"the definition written is the definition signed (I8.samevar)"},
		"C07": {"SHA-256 entries are 32 bytes of stored data (K0.guard)"},
		"C08": {"the list decoder reads the caller's stream, not a bounded view (G4.limit)"},
		"C09": {"duplicates are refused only by the selected list (K9.scope)", "every error of the list-level removal is tested before 'removed' (K9.errors)", "a stored list does not share its entries with the caller's list (K10.share)"},
		"C10": {"no text-order GUID converter on wire bytes (G7.wire)", "an io.EOF inside a declared body is never success (G4.eofok)", "a buffer holding exactly the descriptor is accepted (G18.boundary)"},
		"C11": {"the vendor GUID of a well-known name is an exact table lookup (F13.guidname)", "a 4-byte variable file is the empty value (F14.empty)"},
		"C12": {"Unmarshal replaces the holder (G14.replace)", "a 4-byte variable file is the empty value (F14.empty)"},
		"C13": {"slice-to-array conversions need a length (T9)", "input divisors are tested non-zero (T10)", "no dereference of a result that is nil on the error path (N2.onerror)"},
		"C14": {"slice-to-array conversions need a length (T9)", "input divisors are tested non-zero (T10)", "no dereference of a result that is nil on the error path (N2.onerror)"},
		"C15": {"a variable file that ends early is an error (F7.read)", "once Sign changed the image object it returns no error (C.order)"},
		"C17": {"BytesToGUID is not applied to bytes of encoded structures (G7.wire)"},
		"C18": {"no signed 16-bit parse of boot numbers (H2.range)", "device-path type/sub-type constants equal the UEFI numbers (G5.numbers)", "no text-order GUID converter on node bytes (G7.wire)"},
		"C19": {"cryptobyte reads on receiver-reachable strings count as mutation", "no result composed from a cursor object of the receiver (live-cursor)"},
	}
	for k, v := range more4 {
		more[k] = append(more[k], v...)
	}
	// fifth batch of seeded changes (DESIGN 10.8)
	more5 := map[string][]string{
		"C01": {"the zero padding is computed from the size of the file, not of one part (J8.padlen)"},
		"C03": {"the reader's failure while the image is hashed makes signing fail (C1/C2 on SignAuthenticode)"},
		"C05": {"the signed attributes are a DER SET OF for every content type (L6.setorder; found and led to the repair of Attributes.Marshal)", "id-data is signed detached whatever the content (L7.detached)", "the embedded attribute bytes are not rearranged after signing (L3.embedded)", "the reader's failure while the image is hashed makes signing fail (C1/C2)"},
		"C06": {"id-data is signed detached whatever the content (L7.detached)"},
		"C07": {"every decoded list is kept on every iteration (G2.kept)", "the entry loop is not capped by a constant (G10.count)", "a refused edit changes nothing (K0.atomic)", "Unmarshal gives its receiver what was decoded, not constants (G14.replace)"},
		"C08": {"a failure is not reported with an error that is nil at that point (N3.stalenil)", "an io.EOF handed back by a header helper comes from its first read only (G4.eof)", "the entry loop is not capped by a constant (G10.count)"},
		"C09": {"a refusal by a matching list is reported, not worked around with a new list (K9.refused)"},
		"C10": {"a decoded descriptor shares no memory with its input (G9.copy)", "Unmarshal gives its receiver what was decoded, not constants (G14.replace)"},
		"C11": {"the variable name reaches the path without a case conversion (F4.path)", "no constant cap on the value read (F7.cap)"},
		"C12": {"what is read back is as long as what was stored (F7.read, F7.cap)"},
		"C13": {"a failure is not reported with an error that is nil at that point (N3.stalenil)", "decoding adds nothing to package-level containers (T11.retain)", "Builder.BytesOrPanic in a function reachable from the entry points is reported whatever the shape (B.term)"},
		"C14": {"a failure is not reported with an error that is nil at that point (N3.stalenil)", "decoding adds nothing to package-level containers (T11.retain)"},
		"C15": {"a failure is not reported with an error that is nil at that point (N3.stalenil)", "the error of a read is looked at before a short count is taken for the end (C2.bypass)", "nothing changes the filesystem before signing succeeded, also through an asserted backend interface (C.order)"},
		"C18": {"the UTF-16 byte-order policy of C17", "a GUID kept as bytes is taken apart as LE32, LE16, LE16 and eight raw bytes (G7.fields)", "node fields are decoded in the order their structure declares (H3.nodeorder)"},
		"C19": {"no output in map iteration order (E.maporder)", "padding handed out is not shared memory that listing signatures writes (E.padshared)", "pooled state is reset on every path that used it (P.reset)"},
	}
	for k, v := range more5 {
		more[k] = append(more[k], v...)
	}
	// sixth batch (DESIGN 10.9)
	more6 := map[string][]string{
		"C01": {"no bounded view (LimitReader, CopyN, constant section) between the image reader and the hash (J9.unbounded)", "a part that returns its last bytes together with io.EOF has them counted (J10.eofdata; found and led to the repair of multi.ReadAt)"},
		"C02": {"nothing the parser consumes from the signed attributes is dropped, and what it keeps is what the encoder emits (A.lossless, X3.pair; shared with C16)", "the signature operand is exactly the signer entry's encrypted digest (A.sig-exact)", "the digest covers the [0] content with exactly one header taken off (A.content-value)", "J9.unbounded, J10.eofdata"},
		"C03": {"J10.eofdata"},
		"C04": {"nothing the parser consumes from the signed attributes is dropped: structures inside them are accounted for to the end, single-valued fields are not filled twice (A.lossless; found and led to the repair of parseAttributes)", "every field the attribute parser fills is emitted by the encoder under the same type and primitive, from one wire form (X3.pair)", "the signature operand is exactly the parsed encrypted digest, stored exactly as read (A.sig-exact)", "the digest covers the [0] content with exactly one header taken off (A.content-value)", "a pointer field the parser fills only on some paths is nil-tested before every use (N4.partial)"},
		"C05": {"the signer identifier is an unconditional issuerAndSerialNumber (L5.sid)", "a function literal kept for later does not capture the loop variable (X6.distinct)", "J9.unbounded"},
		"C06": {"signed payload and emitted payload come from the same encoder (I9.samepayload)", "every list is written (G8.all)"},
		"C07": {"no error of the decoding layer is dropped (G4.surface)", "no read-ahead consumer on the decoder's stream, also through a re-bound variable (G12.exact)", "a removal drops only the list it emptied (K2.paired)"},
		"C08": {"no error of the decoding layer is dropped (G4.surface)", "every accepted list has SignatureSize >= 16 (A-d.size-min)", "a second %w operand keeps io.EOF transparency (G4.eof)", "G12.exact through a re-bound stream variable"},
		"C09": {"a 'found' answer needs owner and data equality (K11.exact)", "a mutator that can run twice in one operation does not fail half-way (K0.atomic:loop)", "every entry the list decoder reads is kept (K2.decoded)"},
		"C10": {"where the reader keeps a header field the writer emits the field, not a constant (G1.fromvalue)"},
		"C11": {"the write path touches the file system only with open-for-write, Write, Close (F1.touch)", "the value handed to WriteVar is encoded without being consumed (E.pure)", "no per-variable state outside the file system (F16.stateless)", "the decoder's verdict is final on the read path (F15.final)"},
		"C12": {"F1.touch, F16.stateless", "what is stored after a signed update is the rest of the input behind the descriptor (F10.exact)"},
		"C13": {"no input-driven recursion (R.recurse)", "no String/Error method formats its own receiver (B.selfformat)", "a pass over the hashed stream inside a loop leaves the loop (T12.rehash; known finding on (*PECOFFBinary).Verify)", "N4.partial"},
		"C14": {"R.recurse, B.selfformat"},
		"C15": {"a forwarder fed from a reader kept in a struct field does not drop its error (C1.dropped)"},
		"C17": {"ParseUtf16Var refuses nothing but decoder errors and a missing terminator (A-u.refuse)", "its result comes from the x/text decoder only (A-u.source)"},
		"C18": {"A-u.refuse, A-u.source", "the decoder's verdict on a load option is final (F15.final)"},
		"C19": {"a decoded value shares no memory with its input (G9.copy)"},
	}
	for k, v := range more6 {
		more[k] = append(more[k], v...)
	}
	// seventh, partial round (DESIGN 10.10)
	more7 := map[string][]string{
		"C02": {"an element kept under an input-chosen key does not replace an earlier one (A.keyed-once)", "unknown attributes are kept (X2.unknown)"},
		"C04": {"A.keyed-once", "X2.unknown"},
		"C09": {"a database never takes over the other database's slice (K10.share-db)", "where no PEM block is found the normaliser hands back exactly its input (K8.exact)"},
		"C11": {"F16.stateless over every exported method of the stores", "every successful return of the exported writers lies behind the file write (F17.always-write)"},
		"C12": {"F16.stateless over every exported method of the stores", "F17.always-write"},
		"C13": {"a slice bound or index computed from bytes of an input slice is compared with the length it bounds (T13.bytes)", "a decoding loop does not walk the collection it is growing (T14.quadratic)"},
		"C14": {"T13.bytes, T14.quadratic"},
		"C16": {"with an optional element absent the parser still succeeds (X1.absent)", "A.keyed-once"},
	}
	for k, v := range more7 {
		more[k] = append(more[k], v...)
	}
	for k, v := range more {
		m := Metas[k]
		m.Decided = append(m.Decided, v...)
		Metas[k] = m
	}
}
