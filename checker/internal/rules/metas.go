package rules

// Static descriptions written into every evidence file: what the check decides
// (structural necessary conditions) and what it leaves to other techniques.

var commonAssumptions = []string{
	"the analysed program is the one go/packages loads from the repository's current working tree for the listed build configurations",
	"go/ssa and the VTA call graph are sound for it (no reflect/unsafe/cgo control flow in library code)",
	"integer conversions are treated as identity and machine wrap-around is ignored in the affine domain",
	"aliasing is approximated by access paths plus freshness; there is no points-to analysis in x/tools v0.29.0",
}

func meta(expl string, decided, not []string, extra ...string) Meta {
	return Meta{Explanation: expl, Decided: decided, NotDecided: not, Assumptions: append(append([]string{}, commonAssumptions...), extra...)}
}

func init() {
	const lead = "Static analysis only (types, SSA, call graph of /repo's current source; nothing is executed). The check decides structural necessary conditions of the property on every path of the anchored functions: breaking one of them breaks the behaviour for some input; satisfying all of them does not prove the behaviour. "
	Metas["C01"] = meta(lead+"Rules J1/J2 over authenticode.Parse.",
		[]string{"the hashed header ranges equal the offsets derived from the debug/pe struct layouts for PE32 and PE32+ (checksum field, certificate-table directory entry index 4 excluded)", "sections are sorted ascending by file offset before they are hashed and zero-size sections contribute nothing", "the image digest is SHA-256 over hashContent only"},
		[]string{"the digest value for all images", "multi.ReadAt arithmetic", "trailing-data and padding arithmetic", "coverage per byte position"})
	Metas["C02"] = meta(lead+"Rule family A (cut-sets on the CFG) over PECOFFBinary.Verify -> Authenticode.Verify -> PKCS7.Verify and helpers.",
		[]string{"every path to an accepting return crosses: image digest == signed digest (SHA-256, algorithm OID checked), issuer and serial identity with the caller's certificate, CheckSignature(SHA256WithRSA) by the caller's certificate over the re-encoded signed attributes, messageDigest == SHA-256(encapsulated content)", "evidence is required per loop iteration", "the signature verified is parsed from the image's own certificate table; Digest/Algid come from the signed content"},
		[]string{"correctness of SHA-256/RSA and of DER parsing", "the digest itself (C01)", "behaviour on every concrete forgery"})
	Metas["C03"] = meta(lead+"Rule family M over AppendSignature, Sign, Open, Parse.",
		[]string{"WIN_CERTIFICATE header constants (revision 0x0200, type 0x0002) and dwLength = 8 + len(signature) for the same value", "table bytes and directory Size grow by Length + pad with both pad values from one PaddingBytes(Length, 8) call, header written before the pad", "a new table starts at the padded end of file", "Open concatenates first part, directory entry, rest, padding, table in that order", "signing happens before mutation"},
		[]string{"that the output verifies", "digest stability across signing", "alignment for every size", "byte-exact output"})
	Metas["C04"] = meta(lead+"Rule family A over (*PKCS7).Verify and the two wrappers, rule N for absent attributes.",
		[]string{"issuer+serial identity, valid RSA-SHA256 signature by the caller's certificate over the attribute encoder's output, messageDigest/content binding or detached blob, all for the same signer entry", "optional signed attributes are nil-checked before use"},
		[]string{"equality of re-encoded and originally signed attribute bytes (C16)", "DER strictness, trailing garbage", "RSA/SHA-256 themselves"})
	Metas["C05"] = meta(lead+"Rule family L (value-flow bindings) over SignPKCS7, Attributes.Marshal, SignAuthenticode.",
		[]string{"messageDigest = SHA-256(unsliced content); contentType = oid parameter", "the digest signed is SHA-256 over the attribute encoder's output for the same Attributes value, opts = crypto.SHA256", "the bytes under [0] derive from the same encoder result, obtained by parsing the SET (not by slicing)", "issuer = cert.RawIssuer, serial via AddASN1BigInt, certificate = cert.Raw", "emitter nesting equals the RFC 2315 ContentInfo/SignedData/SignerInfo shape", "Authenticode content = SpcIndirectDataContent(SHA-256 of the image reader)"},
		[]string{"acceptance by OpenSSL / other CMS implementations", "DER SET-OF ordering", "behaviour for all certificates and key sizes"})
	Metas["C06"] = meta(lead+"Rule family I (value-flow bindings) over SignEFIVariable, NewEFIVariableAuthentication2, NewEFITime and the descriptor writers.",
		[]string{"timestamp fields come from a UTC time; pad/nanosecond/timezone/daylight are never set", "signed buffer order name(UTF-16LE, unterminated) || GUID || attributes || timestamp || payload, little endian", "descriptor constants 0x0200 / 0x0EF1 / PKCS7 type GUID, initial length 24", "dwLength grows by len of the same bytes stored as CertData, which are the SignedData with the outer ContentInfo stripped; content type id-data (detached)", "one timestamp value for signed buffer and descriptor", "descriptor marshalled before the unchanged payload"},
		[]string{"acceptance by firmware or an external verifier", "the clock value"})
	Metas["C07"] = meta(lead+"Rule family G (codec tables), K2/K4.",
		[]string{"list and entry reader/writer tables agree and equal the EFI_SIGNATURE_LIST / EFI_SIGNATURE_DATA layouts", "entry data is SignatureSize-16 bytes", "nothing consumed is dropped", "SignatureHeader is empty for every accepted list", "every list and entry is written", "ListSize changes by ±Size with one entry, sizes stay uniform", "decoded data does not alias the input buffer"},
		[]string{"byte-for-byte round trip for all streams", "numeric correctness of hand-built lists"})
	Metas["C08"] = meta(lead+"Rules T (taint + affine guards), A-d (gates), G4 (clean end, EOF provenance), G10.",
		[]string{"ListSize-28, Size-16 and the remaining-size decrement are guarded against wrap; allocations bounded", "handled-type gate, SHA-256 only with size 48", "every accepted list has ListSize = 28 + n*SignatureSize (divisibility or exact-product equality on every accepting path)", "database decoder succeeds only at a clean end", "EOF-transparent errors leave the list decoder only before anything was consumed", "full-read primitives"},
		[]string{"that accepted streams are split exactly as a reference decoder would", "adequacy of other checks' arithmetic beyond affine entailment"})
	Metas["C09"] = meta(lead+"Rule family K over AppendBytes/RemoveBytes/Append/Remove.",
		[]string{"guards dominate mutations (not-duplicate, found, known type, 32-byte hashes, uniform size)", "no failing return after a mutation", "checked value == stored value; list selected by stored length", "order-preserving removal, search continues after a miss, emptied list dropped", "ListSize ± Size pairing"},
		[]string{"operation histories against an abstract model", "removal from the right list when two lists share type and size"})
	Metas["C10"] = meta(lead+"Rule family G over the three descriptor/certificate codec pairs, T/B/G10 in the readers.",
		[]string{"reader/writer agreement position by position and with the UEFI layouts", "body = dwLength-8; the GUID variant consumes nothing beyond the declared length", "body emitted once", "length arithmetic guarded; no terminator on input; full reads"},
		[]string{"byte-exact round trip for all values", "behaviour of arbitrary io.Reader implementations beyond the short-read contract"})
	Metas["C11"] = meta(lead+"Rule family F over the two write twins, the read path, WriteVar and GetVarWithAttributes; H1 for the GUID text.",
		[]string{"exactly one Write on successful paths, never two, no other mutator", "flags O_WRONLY|O_CREATE, no O_EXCL, O_APPEND iff APPEND_WRITE", "buffer = LE32(attrs) ++ value with attrs unmodified", "path from efivars dir, name and canonical GUID text", "short-write check against the written buffer", "required.Equal(stored) dominates the decode; Equal is the subset test", "4 LE bytes then remainder, success only if both reads succeed", "argument mapping of WriteVar", "canonical lower-case GUID text"},
		[]string{"kernel/efivarfs behaviour", "immutable-flag handling through ioctl", "trace observed at run time"})
	Metas["C12"] = meta(lead+"Rules F9-F11.",
		[]string{"non-append rewrites discard old content (O_TRUNC/Create/Remove)", "the strip table equals the authenticated variables of package efivar and works on a fresh per-call buffer, payload decoded from the bytes after the descriptor", "the read path hands out fresh buffers"},
		[]string{"register semantics over operation histories"})
	Metas["C13"] = meta(lead+"Rules B, T1-T5, N, R over everything reachable from the exported API of authenticode and pkcs7.",
		[]string{"no process terminator with a feasible trigger", "allocations, unsigned subtractions, Truncate/Next/Grow arguments, slice bounds and indexes fed by input-derived values are implied safe by dominating comparisons (affine entailment)", "optional results nil-checked before dereference", "every loop is a range/counted loop or consumes input on every cycle with failure leaving the loop"},
		[]string{"general panic-freedom (bounds checks the compiler cannot prove are listed by the thorough tier as inventory)", "time/memory proportionality", "panics inside dependencies"})
	Metas["C14"] = meta(lead+"Rules B (every library terminator site: the property's own static quantifier), T1-T5, N, R over the variable decoders.",
		[]string{"every log.Fatal*/os.Exit/panic/must-style call site in library code enumerated and classified by its dominating condition", "the same missing-check, nil and loop rules as C13 over the decoders of efi/signature, efi/device, efi/util, efivar, efivarfs"},
		[]string{"general panic-, hang- and memory-freedom for all inputs", "the time bound"})
	Metas["C15"] = meta(lead+"Rule family C over everything reachable from the listed operations.",
		[]string{"no dependency error is dropped", "every return reachable from a failure edge carries a non-nil error (deferred-close idiom accepted; io.EOF of readers is not a failure)", "no terminator triggered by a dependency error", "short writes checked", "a 'no value' result is tested by library callers", "mutation / write only behind the success edge of signing"},
		[]string{"executed behaviour at each fault position", "wrong values returned on success paths"})
	Metas["C17"] = meta(lead+"Rules H1, G6, G7, A-u over util/guid.go, util/util.go and all GUID codec sites.",
		[]string{"canonical 8-4-4-4-12 lower-case GUID text over Data1..Data4", "text/bytes pair is big endian on both sides, fields in order", "every encoded structure containing a GUID uses little endian; the big-endian serialisers are not used for wire data", "field-wise equality", "terminator check dominates success; encoder writes the string then one NUL through the UTF-16LE encoder; the terminator scan returns only bytes it read"},
		[]string{"x/text transcoding (surrogates)", "hex.DecodeString behaviour", "value-level losslessness"})
	Metas["C18"] = meta(lead+"Rules H2, G5 over boot-order decoding and the device-path node readers.",
		[]string{"boot names are Boot + exactly four upper-case hex digits of the little-endian uint16, nothing after", "the accessor uses the name unchanged", "node reader tables equal the UEFI layouts", "load-option description via the 2-byte aligned terminator scan", "hard-drive text renders the fields in UEFI order from the right fields"},
		[]string{"text rendering in general", "description decoding for all strings"})
	Metas["C19"] = meta(lead+"Rule family E (effects) over the read-only API and its callees.",
		[]string{"no store to receiver-reachable or global memory", "no cursor-advancing or storage-writing call on a receiver-reachable object (fresh copies allowed)", "no package-level mutable scratch state"},
		[]string{"value-level equality of repeated results", "data races as observed by the race detector"},
		"the caller's io.ReaderAt honours its documented parallel-use contract")
}
