package rules

import (
	"fmt"
	"go/token"
	"go/types"
	"sort"
	"strings"

	"golang.org/x/tools/go/ssa"

	"verif/checker/internal/ir"
)

func init() {
	Registry["C02"] = checkC02
	Registry["C04"] = checkC04
}

var pkcs7Facts = []*fact{factIssuer, factSerial, factSignature, factContentDigest}

func checkC04(c *Ctx) {
	c.ruleOptionalLast("A.trailing")
	c.R.Floor("A.trailing", 1)
	// "over the signed attributes exactly as they appear in the blob": the verifier
	// re-encodes what the parser kept, so the parser may drop nothing (shared with C16)
	c.ruleAttrLossless("A.lossless")
	c.ruleAttrPair("X3.pair")
	c.R.Floor("A.lossless", 1)
	c.ruleSerialValue("A.serial-value")
	c.ruleFrozen("A.frozen")
	c.R.Floor("A.frozen", 5)
	e := c.accept()
	if fn := c.Fn("A", "pkcs7.(*PKCS7).Verify"); fn != nil {
		e.Require("A", fn, pkcs7Facts)
		c.sameSigner(fn)
	}
	for _, s := range []string{"efi/signature.(*EFIVariableAuthentication2).Verify", "authenticode.(*Authenticode).Verify"} {
		if fn := c.Fn("A", s); fn != nil {
			e.Require("A", fn, pkcs7Facts)
		}
	}
	// the descriptor's verifier parses its own certificate data
	if fn := c.Fn("A.bind", "efi/signature.(*EFIVariableAuthentication2).Verify"); fn != nil {
		dv := c.deepViewOf(fn, 3)
		calls := dv.callsTo(M + "/pkcs7.ParsePKCS7")
		ok := false
		for _, di := range calls {
			call := di.i.(*ssa.Call)
			sl := dv.sliceDeep(call.Call.Args[0], di.fr)
			if sl[fn.Params[0]] && ir.HasField(sl, M+"/efi/signature.WinCertificateUEFIGUID.CertData") {
				ok = true
			}
		}
		if len(calls) == 0 {
			c.R.Infof("A.bind", name(fn), "blob<-CertData", c.Pos(fn.Pos()), "not decided for this shape: no call of pkcs7.ParsePKCS7 in the view of the descriptor's verifier")
		} else {
			c.R.Check(ok, "A.bind", name(fn), "blob<-CertData", c.Pos(fn.Pos()), "the blob that is verified is the descriptor's own certificate data", "ParsePKCS7 is not applied to e.AuthInfo.CertData")
		}
	}
	in := func(fn *ssa.Function) bool {
		return fn.Pkg != nil && fn.Pkg.Pkg.Path() == M+"/pkcs7" || fn.Parent() != nil && fn.Parent().Pkg != nil && fn.Parent().Pkg.Pkg.Path() == M+"/pkcs7"
	}
	if c.RuleN("A-p4.nil", in) == 0 {
		// no function of the package hands back "nothing, and no error" any more (the optional
		// part is handled where it is read and the field simply stays nil): the nil-before-use
		// condition on such a field is N4.partial's
		if fn := c.FnOpt("pkcs7.(*PKCS7).Verify"); fn != nil {
			c.R.Infof("A-p4.nil", name(fn), "optional-result", c.Pos(fn.Pos()), "not decided for this shape: no function of pkcs7 returns a nil value together with a nil error; a field left nil when the optional part is absent is judged by N4.partial")
		}
	}
	c.R.Floor("A.issuer", 3)
	c.R.Floor("A.serial", 3)
	c.R.Floor("A.signature", 3)
	c.R.Floor("A.content-digest", 3)
	c.R.Floor("A-p4.nil", 1)
}

// sameSigner: in the top-level verifier (and the helpers it calls), identity
// check, content binding and signature check use one and the same signer
// entry: every signerinfo method receiver and every base of a load of a
// signerinfo field resolves to the same value.
func (c *Ctx) sameSigner(fn *ssa.Function) {
	dv := c.deepViewOf(fn, 3)
	type use struct {
		obj dval
		at  ssa.Instruction
	}
	var uses []use
	siType := M + "/pkcs7.signerinfo"
	for _, di := range dv.order {
		switch x := di.i.(type) {
		case *ssa.Call:
			callee := ir.Callee(x)
			if callee == nil || !c.P.InLib(callee) || callee.Signature.Recv() == nil || ir.NamedTypeID(callee.Signature.Recv().Type()) != siType {
				continue
			}
			uses = append(uses, use{dv.objectOf(x.Call.Args[0], di.fr), x})
		case *ssa.FieldAddr:
			if ir.NamedTypeID(x.X.Type()) != siType {
				continue
			}
			switch ir.FieldOf(x).Name() {
			case "AuthenticatedAttributes", "EncryptedDigest", "IssuerAndSerialnumber":
				uses = append(uses, use{dv.objectOf(x.X, di.fr), x})
			}
		}
	}
	if len(uses) == 0 {
		c.R.Infof("A.same-signer", name(fn), "signer-identity", c.Pos(fn.Pos()), "not decided for this shape: no use of a signer entry found in the view of the verifier")
		return
	}
	// the same element of one slice value read twice (signers[i] ... signers[i]) is one
	// signer entry, provided nothing in that function writes an element of the slice
	elemOf := func(d dval) (base, idx ssa.Value, ok bool) {
		ld, isLd := d.v.(*ssa.UnOp)
		if !isLd || ld.Op != token.MUL {
			return nil, nil, false
		}
		ia, isIA := ld.X.(*ssa.IndexAddr)
		if !isIA {
			return nil, nil, false
		}
		if _, isSl := ia.X.Type().Underlying().(*types.Slice); !isSl || ia.Parent() == nil {
			return nil, nil, false
		}
		written := false
		instrsOf(ia.Parent(), func(i ssa.Instruction) {
			if st, isSt := i.(*ssa.Store); isSt {
				if w, isW := st.Addr.(*ssa.IndexAddr); isW && w.X == ia.X {
					written = true
				}
			}
		})
		return ia.X, ia.Index, !written
	}
	sameEntry := func(a, b dval) bool {
		if a.same(b) {
			return true
		}
		ab, ai, okA := elemOf(a)
		bb, bi, okB := elemOf(b)
		return okA && okB && a.fr == b.fr && ab == bb && ai == bi
	}
	ok, det := true, ""
	for _, u := range uses[1:] {
		if !sameEntry(u.obj, uses[0].obj) {
			ok = false
			det = "the use at " + c.IPos(u.at) + " is applied to a different signer value than the one at " + c.IPos(uses[0].at)
		}
	}
	if !ok {
		// a function value that is given signer entries
		takesSigner := func(g *ssa.Function) bool {
			for _, pr := range g.Params {
				t := pr.Type()
				if pp, isP := t.Underlying().(*types.Pointer); isP {
					t = pp.Elem()
				}
				if ir.NamedTypeID(t) == pkcsPkg+".signerinfo" {
					return true
				}
			}
			for _, fv := range g.FreeVars {
				if strings.Contains(fv.Type().String(), "signerinfo") {
					return true
				}
			}
			return false
		}
		if at := c.accept().unfollowedCall(fn, nil, takesSigner); at != "" {
			c.R.Infof("A.same-signer", name(fn), "signer-identity", c.Pos(fn.Pos()), "not decided for this shape: the signer entries are selected through a function value the evaluator does not follow ("+at+")")
			return
		}
	}
	c.R.Check(ok, "A.same-signer", name(fn), "signer-identity", c.Pos(fn.Pos()), "identity check, content binding and signature check are applied to the same signer entry", det)
}

func checkC02(c *Ctx) {
	// the digest that is compared covers exactly the bytes being verified (shared with C01)
	checkC01(c)
	c.ruleOptionalLast("A.trailing")
	c.ruleAttrLossless("A.lossless")
	c.ruleAttrPair("X3.pair")
	c.ruleFrozen("A.frozen")
	c.R.Floor("A.frozen", 5)
	e := c.accept()
	all := append([]*fact{factImageDigest, factDigestAlg}, pkcs7Facts...)
	if fn := c.Fn("A", "authenticode.(*PECOFFBinary).Verify"); fn != nil {
		e.Require("A", fn, all)
		// A-pe1 roles at the call of (*Authenticode).Verify
		var call *ssa.Call
		instrsOf(fn, func(i ssa.Instruction) {
			if cl, ok := i.(*ssa.Call); ok && ir.CallID(cl) == M+"/authenticode.Authenticode.Verify" {
				call = cl
			}
		})
		if call == nil {
			// the verifier may be restructured; the facts above still decide
			c.R.Infof("A.bind", name(fn), "Authenticode.Verify", c.Pos(fn.Pos()), "no direct call of (*Authenticode).Verify: role bindings are covered by the inherited facts only")
		} else {
			recv, img := call.Call.Args[0], call.Call.Args[len(call.Call.Args)-1]
			rs, is := c.sliceOf(recv), c.sliceOf(img)
			okR := len(ir.CallsIn(rs, M+"/authenticode.ParseAuthenticode")) > 0 && (ir.HasField(rs, M+"/authenticode.PECOFFBinary.certTable") || len(ir.CallsIn(rs, M+"/authenticode.PECOFFBinary.Signatures")) > 0)
			c.R.Check(okR, "A.bind", name(fn), "authcode<-own-signatures", c.IPos(call), "the signature that is verified is parsed from this image's own certificate table", "receiver of Authenticode.Verify does not derive from ParseAuthenticode over p.Signatures()")
			okI := ir.HasField(is, M+"/authenticode.PECOFFBinary.hashContent") && is[fn.Params[0]]
			c.R.Check(okI, "A.bind", name(fn), "img<-hashContent", c.IPos(call), "the bytes that are hashed are this image's hash content", "image argument does not derive from p.hashContent")
		}
	}
	if fn := c.Fn("A", "authenticode.(*Authenticode).Verify"); fn != nil {
		e.Require("A", fn, all)
	}
	// ParseAuthenticode: Digest and Algid come from the signed content of the same blob
	if fn := c.Fn("A.bind", "authenticode.ParseAuthenticode"); fn != nil {
		var pk *ssa.Call
		instrsOf(fn, func(i ssa.Instruction) {
			if cl, ok := i.(*ssa.Call); ok && ir.CallID(cl) == M+"/pkcs7.ParsePKCS7" {
				pk = cl
			}
		})
		for _, fld := range []string{"Digest", "Algid", "Pkcs"} {
			ok, det := false, "no store to Authenticode."+fld
			instrsOf(fn, func(i ssa.Instruction) {
				st, isSt := i.(*ssa.Store)
				if !isSt || ir.FieldID(st.Addr) != M+"/authenticode.Authenticode."+fld {
					return
				}
				sl := c.sliceOf(st.Val)
				switch {
				case pk == nil || !sl[pk]:
					det = "value does not derive from the ParsePKCS7 result"
				case fld != "Pkcs" && !ir.HasField(sl, M+"/pkcs7.PKCS7.ContentInfo"):
					det = "value does not derive from the signed content (PKCS7.ContentInfo)"
				default:
					ok = true
				}
			})
			c.R.Check(ok, "A.bind", name(fn), fld+"<-signed-content", c.Pos(fn.Pos()), "Authenticode."+fld+" is taken from the parsed blob's signed content", det)
		}
	}
	c.R.Floor("A.image-digest", 2)
	c.R.Floor("A.digest-algorithm", 2)
	c.R.Floor("A.signature", 2)
	c.R.Floor("A.content-digest", 2)
	c.R.Floor("A.bind", 3)
}

// ruleFrozen (A.frozen): a parsed signature object is not modified after it was
// built. Its fields are written — by a store, or by a consuming read on a
// cryptobyte.String / buffer field — only while the object is still local to
// the function that constructs it (or to a helper that is only handed such
// fresh objects). A later write (for instance a parser step that reads from a
// field in place) changes what the digest and signature checks see.
func (c *Ctx) ruleFrozen(rule string) {
	frozen := map[string]bool{pkcsPkg + ".PKCS7": true, pkcsPkg + ".signerinfo": true, pkcsPkg + ".Attributes": true,
		pkcsPkg + ".issuerAndSerialNumber": true, M + "/authenticode.Authenticode": true}
	typeOfField := func(addr ssa.Value) string {
		fa, ok := addr.(*ssa.FieldAddr)
		if !ok {
			return ""
		}
		t := fa.X.Type()
		if p, isP := t.Underlying().(*types.Pointer); isP {
			t = p.Elem()
		}
		return ir.NamedTypeID(t)
	}
	// the address (or an address inside) a field of a frozen type
	var frozenField func(addr ssa.Value, depth int) (*ssa.FieldAddr, bool)
	frozenField = func(addr ssa.Value, depth int) (*ssa.FieldAddr, bool) {
		if depth > 6 {
			return nil, false
		}
		switch x := addr.(type) {
		case *ssa.FieldAddr:
			if frozen[typeOfField(x)] {
				return x, true
			}
			return frozenField(x.X, depth+1)
		case *ssa.IndexAddr:
			return frozenField(x.X, depth+1)
		case *ssa.UnOp:
			// element of a slice held in a frozen field
			if x.Op == token.MUL {
				return frozenField(x.X, depth+1)
			}
		}
		return nil, false
	}
	var fresh func(fn *ssa.Function, v ssa.Value, depth int) bool
	fresh = func(fn *ssa.Function, v ssa.Value, depth int) bool {
		switch x := ir.RootOf(v).(type) {
		case *ssa.Alloc:
			return true
		case *ssa.FreeVar:
			// a function literal filling the object its enclosing function is building
			if b := ir.FreeVarBinding(x); b != nil && fn.Parent() != nil {
				return fresh(fn.Parent(), b, depth+1)
			}
			return false
		case *ssa.Parameter:
			if depth > 2 || fn.Object() != nil && fn.Object().Exported() {
				return false
			}
			node := c.P.CallGraph().Nodes[fn]
			if node == nil || len(node.In) == 0 {
				return false
			}
			idx := -1
			for k, p := range fn.Params {
				if p == x {
					idx = k
				}
			}
			for _, in := range node.In {
				if in.Site == nil || !c.P.InLib(in.Caller.Func) {
					return false
				}
				args := ir.CallArgs(in.Site)
				if idx < 0 || idx >= len(args) || !fresh(in.Caller.Func, args[idx], depth+1) {
					return false
				}
			}
			return true
		case *ssa.UnOp:
			// a pointer kept in a local cell: what was stored there
			if a, ok := x.X.(*ssa.Alloc); ok && x.Op == token.MUL {
				all, n := true, 0
				for _, r := range *a.Referrers() {
					if st, isSt := r.(*ssa.Store); isSt && st.Addr == ssa.Value(a) {
						n++
						all = all && fresh(fn, st.Val, depth+1)
					}
				}
				return n > 0 && all
			}
		}
		return false
	}
	n := 0
	counts := map[string]int{}
	for _, fn := range c.P.LibFunctions() {
		if !(strings.HasPrefix(name(fn), "pkcs7.") || strings.HasPrefix(name(fn), "(*pkcs7.") || strings.HasPrefix(name(fn), "authenticode.") || strings.HasPrefix(name(fn), "(*authenticode.") || strings.Contains(name(fn), "efi/signature.")) {
			continue
		}
		fn := fn
		instrsOf(fn, func(i ssa.Instruction) {
			var addr ssa.Value
			how := ""
			switch x := i.(type) {
			case *ssa.Store:
				addr, how = x.Addr, "store"
			case *ssa.Call:
				id := ir.CallID(x)
				if len(x.Call.Args) == 0 {
					return
				}
				if strings.HasPrefix(id, cbPkg+".String.") && !strings.HasSuffix(id, ".Empty") && !strings.Contains(id, ".Peek") {
					addr, how = x.Call.Args[0], "consuming read ("+strings.TrimPrefix(id, cbPkg+".")+")"
				} else if idxs, isMut := mutatingCalls[id]; isMut {
					for _, k := range idxs {
						if k < len(x.Call.Args) {
							if _, isF := frozenField(x.Call.Args[k], 0); isF {
								addr, how = x.Call.Args[k], id
							}
						}
					}
				}
			}
			if addr == nil {
				return
			}
			fa, isF := frozenField(addr, 0)
			if !isF {
				return
			}
			n++
			key := ordinalKey(counts, name(fn)+":"+ir.FieldID(fa))
			c.R.Check(fresh(fn, fa.X, 0), rule, name(fn), strings.TrimPrefix(key, name(fn)+":"), c.IPos(i),
				"fields of a parsed signature object are written only while it is being constructed",
				how+" on "+shortID(ir.FieldID(fa))+" of an object that was not built in this function: the parsed object changes after parsing, so a later check sees different content than the one that was parsed")
		})
	}
	c.R.Infof(rule, "-", "scan", "-", fmt.Sprintf("writes to fields of parsed signature objects examined: %d", n))
}

// ruleSerialValue: the serial number that is compared with the verifying
// certificate's is the value of the ASN.1 INTEGER in the signer entry (two's
// complement, as ReadASN1Integer decodes it). Taking the content octets as an
// unsigned magnitude (big.Int.SetBytes) maps different encoded numbers — a
// negative one, one with superfluous leading octets — to the certificate's
// serial, so a signer entry that names another serial matches.
func (c *Ctx) ruleSerialValue(rule string) {
	field := M + "/pkcs7.issuerAndSerialNumber.SerialNumber"
	n := 0
	for _, fn := range c.P.LibFunctions() {
		fn := fn
		instrsOf(fn, func(i ssa.Instruction) {
			st, ok := i.(*ssa.Store)
			if !ok || ir.FieldID(st.Addr) != field {
				return
			}
			if !c.readCone()[fn] && !strings.Contains(name(fn), "parse") {
				return
			}
			n++
			verdict := ""
			for v := range c.sliceOf(st.Val) {
				call, isC := v.(*ssa.Call)
				if !isC {
					continue
				}
				switch id := ir.CallID(call); {
				case id == "math/big.Int.SetBytes" || id == "math/big.Int.SetBits" || id == "math/big.Int.SetString":
					verdict = id
				}
			}
			asn := false
			for _, f := range withAnon(fn) {
				instrsOf(f, func(j ssa.Instruction) {
					if call, isC := j.(*ssa.Call); isC && strings.HasSuffix(ir.CallID(call), "cryptobyte.String.ReadASN1Integer") {
						for _, a := range call.Call.Args {
							if al, isA := ir.RootOf(a).(*ssa.Alloc); isA && c.sliceOf(st.Val)[al] {
								asn = true
							}
						}
					}
				})
			}
			switch {
			case verdict != "":
				c.R.Violf(rule, name(fn), "integer-value", c.IPos(st), "the signer's serial number is the value of its ASN.1 INTEGER", "the serial is built with "+verdict+" from the raw content octets: the sign and superfluous leading octets are ignored, so an entry that encodes a different number compares equal to the certificate's serial")
			case asn:
				c.R.Okf(rule, name(fn), "integer-value", c.IPos(st), "the signer's serial number is decoded with ReadASN1Integer")
			default:
				c.R.Infof(rule, name(fn), "integer-value", c.IPos(st), "not decided for this shape: how the serial number is decoded is not identified")
			}
		})
	}
	if n == 0 {
		c.R.Infof(rule, "-", "integer-value", "-", "not decided for this shape: no store of the signer entry's serial number found")
	}
}

// ruleOptionalLast (A.trailing): a nested DER structure that a parser has cut
// out (ReadASN1(&s, SEQUENCE)) and from which it reads an OPTIONAL element as
// the last thing must be looked at again afterwards (Empty, or another read).
// Otherwise an element with a different tag in the optional one's place is
// neither read nor rejected: the [0] content of a ContentInfo re-tagged [1]
// makes the blob look detached and the digest binding is skipped.
func (c *Ctx) ruleOptionalLast(rule string) int {
	n := 0
	counts := map[string]int{}
	for _, fn := range c.P.LibFunctions() {
		if fn.Pkg == nil || !strings.HasSuffix(fn.Pkg.Pkg.Path(), "/pkcs7") && !strings.HasSuffix(fn.Pkg.Pkg.Path(), "/authenticode") {
			continue
		}
		fn := fn
		// nested structures: locals filled through the out-parameter of a ReadASN1*
		nested := map[*ssa.Alloc]bool{}
		instrsOf(fn, func(i ssa.Instruction) {
			call, ok := i.(*ssa.Call)
			if !ok || !strings.HasPrefix(ir.CallID(call), cbPkg+".String.Read") {
				return
			}
			for _, a := range call.Call.Args[1:] {
				if al, isA := a.(*ssa.Alloc); isA && ir.NamedTypeID(al.Type()) == cbPkg+".String" {
					nested[al] = true
				}
			}
		})
		usesOf := func(al *ssa.Alloc, i ssa.Instruction) bool {
			call, ok := i.(ssa.CallInstruction)
			if !ok {
				return false
			}
			args := ir.CallArgs(call)
			if len(args) == 0 || !strings.HasPrefix(ir.CallID(call), cbPkg+".String.") {
				// the length of the string, or a helper of the tree that looks at it
				return derLooksAt(al, i)
			}
			if args[0] == ssa.Value(al) {
				return true
			}
			// value-receiver methods (Empty) take a copy of the string
			ld, isLd := args[0].(*ssa.UnOp)
			return isLd && ld.Op == token.MUL && ld.X == ssa.Value(al)
		}
		for _, b := range fn.Blocks {
			for idx, i := range b.Instrs {
				call, ok := i.(*ssa.Call)
				if !ok || !strings.HasPrefix(ir.CallID(call), cbPkg+".String.ReadOptionalASN1") {
					continue
				}
				al, isA := call.Call.Args[0].(*ssa.Alloc)
				if !isA || !nested[al] {
					continue
				}
				n++
				key := ordinalKey(counts, name(fn)+":optional")
				construct := strings.TrimPrefix(key, name(fn)+":")
				later := false
				for _, j := range b.Instrs[idx+1:] {
					if usesOf(al, j) {
						later = true
					}
				}
				bad := ""
				if !later {
					blocked := map[int]bool{}
					for _, bb := range fn.Blocks {
						for _, j := range bb.Instrs {
							if bb != b && usesOf(al, j) {
								blocked[bb.Index] = true
							}
						}
					}
					cut := map[ir.Edge]bool{}
					for bi := range blocked {
						for _, p := range fn.Blocks[bi].Preds {
							cut[ir.Edge{From: p.Index, To: bi}] = true
						}
					}
					// the edge on which the read itself failed is not a path to success
					for _, ce := range ir.CondEdges(fn) {
						if ce.Cond == ssa.Value(call) && !ce.Truth {
							cut[ce.Edge] = true
						}
					}
					seen, _ := ir.Reach(fn, b, cut)
					for _, r := range acceptingReturns(fn) {
						if seen[r.Block().Index] {
							bad = c.IPos(r)
						}
					}
				}
				c.R.Check(bad == "", rule, name(fn), construct, c.IPos(call), "after an optional element is read from a nested structure, what is left of the structure is looked at (Empty or a further read)",
					"the optional element is the last thing read from the structure and the function returns successfully at "+bad+" without looking at what is left: an element with another tag in its place is skipped silently (the blob then counts as not having the optional part)")
			}
		}
		// the same optional read spelled as a look at the next tag (PeekASN1Tag) that
		// guards a read: the element is read when it is there and skipped when not
		for _, b := range fn.Blocks {
			for _, i := range b.Instrs {
				peek, ok := i.(*ssa.Call)
				if !ok || ir.CallID(peek) != cbPkg+".String.PeekASN1Tag" {
					continue
				}
				args := ir.CallArgs(peek)
				if len(args) == 0 {
					continue
				}
				src := args[0]
				if ld, isLd := src.(*ssa.UnOp); isLd && ld.Op == token.MUL {
					src = ld.X
				}
				al, isA := src.(*ssa.Alloc)
				if !isA || !nested[al] {
					continue
				}
				// the reads that happen only when the tag is there
				var present *ir.CondEdge
				for _, ce := range ir.CondEdges(fn) {
					if ce.Cond == ssa.Value(peek) && ce.Truth {
						ce := ce
						present = &ce
					}
				}
				if present == nil {
					continue
				}
				guarded := map[ssa.Instruction]bool{}
				for _, bb := range fn.Blocks {
					if !ir.EdgeDominates(fn, present.Edge, bb) {
						continue
					}
					for _, j := range bb.Instrs {
						if jc, isC := j.(*ssa.Call); isC && usesOf(al, j) && strings.HasPrefix(ir.CallID(jc), cbPkg+".String.Read") {
							guarded[j] = true
						}
					}
				}
				if len(guarded) == 0 {
					continue
				}
				n++
				key := ordinalKey(counts, name(fn)+":optional")
				construct := strings.TrimPrefix(key, name(fn)+":")
				blocked := map[int]bool{}
				for _, bb := range fn.Blocks {
					for _, j := range bb.Instrs {
						if j != ssa.Instruction(peek) && !guarded[j] && usesOf(al, j) {
							blocked[bb.Index] = true
						}
					}
				}
				cut := map[ir.Edge]bool{}
				for bi := range blocked {
					for _, p := range fn.Blocks[bi].Preds {
						cut[ir.Edge{From: p.Index, To: bi}] = true
					}
				}
				// the edge on which a guarded read failed is not a path to success
				for _, ce := range ir.CondEdges(fn) {
					if rc, isI := ce.Cond.(ssa.Instruction); isI && guarded[rc] && !ce.Truth {
						cut[ce.Edge] = true
					}
				}
				bad := ""
				later, after := false, false
				for _, j := range b.Instrs {
					if j == ssa.Instruction(peek) {
						after = true
					} else if after && !guarded[j] && usesOf(al, j) {
						later = true
					}
				}
				if !later {
					seen, _ := ir.Reach(fn, b, cut)
					for _, r := range acceptingReturns(fn) {
						if seen[r.Block().Index] {
							bad = c.IPos(r)
						}
					}
				}
				c.R.Check(bad == "", rule, name(fn), construct, c.IPos(peek), "after an optional element is read from a nested structure, what is left of the structure is looked at (Empty or a further read)",
					"the optional element is the last thing read from the structure and the function returns successfully at "+bad+" without looking at what is left: an element with another tag in its place is skipped silently (the blob then counts as not having the optional part)")
			}
		}
		// the optional read made by a helper of the tree that is handed the nested
		// structure: the helper's exits that leave the rest unlooked are followed here
		var cells []*ssa.Alloc
		for al := range nested {
			cells = append(cells, al)
		}
		sort.Slice(cells, func(i, j int) bool { return cells[i].Pos() < cells[j].Pos() })
		for _, al := range cells {
			for _, site := range optReadSites(fn, al, true) {
				n++
				key := ordinalKey(counts, name(fn)+":optional")
				construct := strings.TrimPrefix(key, name(fn)+":")
				bad := ""
				for _, r := range acceptingReturns(fn) {
					for _, e := range site.exits {
						if e == r {
							bad = c.IPos(r)
						}
					}
				}
				c.R.Check(bad == "", rule, name(fn), construct, c.IPos(site.call), "after an optional element is read from a nested structure, what is left of the structure is looked at (Empty or a further read)",
					"the optional element is the last thing read from the structure (by "+name(ir.Callee(site.call))+") and the function returns successfully at "+bad+" without looking at what is left: an element with another tag in its place is skipped silently (the blob then counts as not having the optional part)")
			}
		}
	}
	return n
}
