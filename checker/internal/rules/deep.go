package rules

import (
	"fmt"
	"go/token"
	"go/types"
	"sort"
	"strings"

	"golang.org/x/tools/go/ssa"

	"verif/checker/internal/ir"
)

// The deep view: shape rules look at an anchored API function *as if* its
// unexported library helpers were inlined. A frame is one activation of a
// function along a static call chain from the anchor; values are resolved
// across frames (parameters to the caller's arguments, helper results to the
// helper's returned values, single-assignment cells to what was stored), so a
// rule keeps seeing the same objects after helper extraction, inlining,
// renaming or spilling to locals.

type frame struct {
	fn     *ssa.Function
	site   ssa.CallInstruction // call in parent that created this frame (nil for the root)
	parent *frame
	depth  int
	id     string
	seq    int // traversal order of the frame's creation
	// mk: the MakeClosure instruction whose bindings the frame's free variables
	// take (the instruction a closure frame was created at, or the closure value a
	// function-typed parameter resolved to); mkFr: the frame mk is evaluated in
	mk   *ssa.MakeClosure
	mkFr *frame
}

func (f *frame) String() string { return f.id }

// dval is a value in a frame.
type dval struct {
	v  ssa.Value
	fr *frame
}

func (d dval) same(o dval) bool { return d.v == o.v && d.fr == o.fr }

type deepView struct {
	c        *Ctx
	root     *frame
	maxDepth int
	frames   map[string]*frame
	order    []dinstr
	nextSeq  int
	// stopAt: callees whose results resolve() keeps symbolic (the rule wants to
	// see the call itself); their frames are still part of the view
	stopAt map[string]bool
	// idxEnv: while an unrolled item of a range-over-literal loop is evaluated,
	// the loop's index value stands for this constant
	idxEnv map[ssa.Value]int64
	// throughFields: resolve() also follows loads of fields of locally built
	// struct values to the value stored (off by default: most rules want to see
	// the field that is read)
	throughFields bool
	// exactBusy: cells under evaluation by exactBytes (self-referential reassignments)
	exactBusy map[*ssa.Alloc]bool
	// helperFilled: a packing buffer was handed to a library helper (gaps may be filled there)
	helperFilled bool
	// outerField: fieldOrigin names the outermost field of a nested field path
	outerField bool
	// dyn: frames of calls of function values (no static callee), by call and calling frame
	dyn map[ssa.CallInstruction]map[*frame]*frame
}

type dinstr struct {
	i   ssa.Instruction
	fr  *frame
	seq int // global sequence number in depth-first program order
}

// deepViewOf builds the view of fn: frames for every static call to a library
// function (and direct closure calls) up to maxDepth, in depth-first order.
func (c *Ctx) deepViewOf(fn *ssa.Function, maxDepth int) *deepView {
	d := &deepView{c: c, maxDepth: maxDepth, frames: map[string]*frame{}}
	d.root = &frame{fn: fn, id: name(fn)}
	d.frames[d.root.id] = d.root
	d.walk(d.root, map[*ssa.Function]bool{fn: true})
	return d
}

func (d *deepView) childFrame(fr *frame, call ssa.CallInstruction, callee *ssa.Function) *frame {
	id := fmt.Sprintf("%s>%s@%d", fr.id, name(callee), ir.InstrPos(call))
	if f, ok := d.frames[id]; ok {
		return f
	}
	f := &frame{fn: callee, site: call, parent: fr, depth: fr.depth + 1, id: id}
	d.frames[id] = f
	return f
}

// closureFrame: the frame of a function literal created at instruction at in fr.
func (d *deepView) closureFrame(fr *frame, at ssa.Instruction, cf *ssa.Function) *frame {
	id := fmt.Sprintf("%s>%s@%d", fr.id, name(cf), ir.InstrPos(at))
	if f, ok := d.frames[id]; ok {
		return f
	}
	f := &frame{fn: cf, site: nil, parent: fr, depth: fr.depth, id: id}
	f.mk, _ = at.(*ssa.MakeClosure)
	f.mkFr = fr
	d.frames[id] = f
	return f
}

// closureFrameOf returns the frame of a function-literal value (MakeClosure or
// plain function) as seen from fr, resolving parameters that carry closures.
func (d *deepView) closureFrameOf(v ssa.Value, fr *frame) *frame {
	r := d.resolve(ir.StripConv(v), fr)
	switch x := ir.StripConv(r.v).(type) {
	case *ssa.MakeClosure:
		if cf, ok := x.Fn.(*ssa.Function); ok {
			return d.frames[fmt.Sprintf("%s>%s@%d", r.fr.id, name(cf), ir.InstrPos(x))]
		}
	case *ssa.Function:
		for id, f := range d.frames {
			if f.fn == x && strings.HasPrefix(id, r.fr.id+">") {
				return f
			}
		}
	}
	return nil
}

// inlinable: a library function the view looks through.
func (d *deepView) inlinable(callee *ssa.Function) bool {
	return callee != nil && callee.Blocks != nil && d.c.P.InLib(callee)
}

func (d *deepView) walk(fr *frame, onStack map[*ssa.Function]bool) {
	// instructions in source order within the function (blocks are emitted in
	// source order for structured code; sort by position to be safe)
	var ins []ssa.Instruction
	instrsOf(fr.fn, func(i ssa.Instruction) { ins = append(ins, i) })
	sort.SliceStable(ins, func(a, b int) bool {
		pa, pb := ir.InstrPos(ins[a]), ir.InstrPos(ins[b])
		if pa == pb {
			return false
		}
		return pa < pb
	})
	for _, i := range ins {
		d.order = append(d.order, dinstr{i, fr, d.nextSeq})
		d.nextSeq++
		// closures created here (typically handed to a library function that calls
		// them back) are part of the view: their free variables resolve to this frame
		if mc, isMC := i.(*ssa.MakeClosure); isMC && fr.depth < d.maxDepth+6 && !onlyCalledDirectly(mc) {
			if cf, ok := mc.Fn.(*ssa.Function); ok && !onStack[cf] {
				child := d.closureFrame(fr, mc, cf)
				onStack[cf] = true
				d.walk(child, onStack)
				delete(onStack, cf)
			}
		}
		call, ok := i.(ssa.CallInstruction)
		if !ok || fr.depth >= d.maxDepth {
			continue
		}
		// plain function literals without captures passed as arguments
		for _, a := range call.Common().Args {
			if cf, isFn := ir.StripConv(a).(*ssa.Function); isFn && cf.Parent() != nil && !onStack[cf] && d.c.P.InLib(cf) {
				child := d.closureFrame(fr, i, cf)
				onStack[cf] = true
				d.walk(child, onStack)
				delete(onStack, cf)
			}
		}
		if _, isGo := i.(*ssa.Go); isGo {
			continue
		}
		callee := calleeOrClosure2(call)
		var dynMk *ssa.MakeClosure
		var dynFr *frame
		if callee == nil && !call.Common().IsInvoke() {
			// a call of a function value: a parameter (or local) that resolves to a
			// function literal, a method value or a plain function in the view
			if r := d.resolve(call.Common().Value, fr); r.v != nil {
				switch x := ir.StripConv(r.v).(type) {
				case *ssa.MakeClosure:
					if cf, ok := x.Fn.(*ssa.Function); ok {
						callee, dynMk, dynFr = cf, x, r.fr
					}
				case *ssa.Function:
					callee = x
				}
			}
			if callee != nil && (callee.Blocks == nil || callee.Synthetic == "" && !d.c.P.InLib(callee)) {
				callee = nil
			}
		}
		if callee == nil || onStack[callee] || dynMk == nil && !d.inlinable(callee) {
			continue
		}
		child := d.childFrame(fr, call, callee)
		if dynMk != nil {
			child.mk, child.mkFr = dynMk, dynFr
		}
		if d.dyn == nil {
			d.dyn = map[ssa.CallInstruction]map[*frame]*frame{}
		}
		if d.dyn[call] == nil {
			d.dyn[call] = map[*frame]*frame{}
		}
		d.dyn[call][fr] = child
		onStack[callee] = true
		d.walk(child, onStack)
		delete(onStack, callee)
	}
}

// onlyCalledDirectly: every use of the closure value is a direct call of it;
// its body is then part of the view once per call site, with arguments bound.
func onlyCalledDirectly(mc *ssa.MakeClosure) bool {
	if mc.Referrers() == nil {
		return false
	}
	n := 0
	for _, r := range *mc.Referrers() {
		switch x := r.(type) {
		case *ssa.DebugRef:
		case ssa.CallInstruction:
			if x.Common().Value != ssa.Value(mc) {
				return false
			}
			for _, a := range x.Common().Args {
				if a == ssa.Value(mc) {
					return false
				}
			}
			if _, isCall := x.(*ssa.Call); !isCall {
				return false
			}
			n++
		default:
			return false
		}
	}
	return n > 0
}

// each visits every instruction of the view in depth-first program order.
func (d *deepView) each(f func(i ssa.Instruction, fr *frame, seq int)) {
	for _, di := range d.order {
		f(di.i, di.fr, di.seq)
	}
}

// frameOfCall returns the frame created by call in fr (nil if not inlined).
func (d *deepView) frameOfCall(fr *frame, call ssa.CallInstruction) *frame {
	callee := calleeOrClosure2(call)
	if callee == nil {
		// calls of function values that the view resolved
		return d.dyn[call][fr]
	}
	return d.frames[fmt.Sprintf("%s>%s@%d", fr.id, name(callee), ir.InstrPos(call))]
}

// resolve follows a value to its origin across frames.
func (d *deepView) resolve(v ssa.Value, fr *frame) dval {
	for depth := 0; depth < 40 && v != nil; depth++ {
		switch x := v.(type) {
		case *ssa.Parameter:
			if fr.parent == nil || fr.site == nil || x.Parent() != fr.fn {
				return dval{v, fr}
			}
			idx := -1
			for k, p := range fr.fn.Params {
				if p == x {
					idx = k
				}
			}
			args := ir.CallArgs(fr.site)
			if _, isClosure := fr.site.Common().Value.(*ssa.MakeClosure); isClosure {
				args = fr.site.Common().Args
			}
			if idx < 0 || idx >= len(args) {
				return dval{v, fr}
			}
			v, fr = args[idx], fr.parent
		case *ssa.FreeVar:
			// the closure frame knows the instruction that bound its free variables
			// (also for the synthetic wrappers of method values, which have no parent)
			var own *frame
			for f := fr; f != nil && own == nil; f = f.parent {
				if f.fn == x.Parent() && f.mk != nil {
					own = f
				}
			}
			if own != nil {
				idx := -1
				for k, fv := range own.fn.FreeVars {
					if fv == x {
						idx = k
					}
				}
				if idx >= 0 && idx < len(own.mk.Bindings) && own.mkFr != nil {
					v, fr = own.mk.Bindings[idx], own.mkFr
					continue
				}
			}
			b := ir.FreeVarBinding(x)
			if b == nil {
				return dval{v, fr}
			}
			// the binding lives in the frame of the function that created the closure
			pf := fr
			for pf != nil && pf.fn != b.Parent() {
				pf = pf.parent
			}
			if pf == nil {
				pf = fr
			}
			v, fr = b, pf
		case *ssa.UnOp:
			if x.Op != token.MUL {
				return dval{v, fr}
			}
			// element of a local array / slice literal at a known index
			if ia, isIA := x.X.(*ssa.IndexAddr); isIA {
				if el, ok := d.literalElem(ia, fr); ok {
					v, fr = el.v, el.fr
					continue
				}
				return dval{v, fr}
			}
			// load of a field of a locally built struct value
			if fa, isFA := x.X.(*ssa.FieldAddr); isFA && depth < 30 && d.throughFields {
				if fv, ok := d.structField(fa.X, fr, fa.Field, nil, 0); ok && !(fv.v == v && fv.fr == fr) {
					v, fr = fv.v, fv.fr
					continue
				}
				return dval{v, fr}
			}
			// load of a single-assignment local cell
			cellD := d.resolve(x.X, fr)
			a, ok := cellD.v.(*ssa.Alloc)
			if !ok {
				if cellD.v != x.X || cellD.fr != fr {
					// the address resolved elsewhere (e.g. &local passed down): keep the load symbolic
					return dval{v, fr}
				}
				return dval{v, fr}
			}
			var stored []ssa.Value
			var sfr *frame
			nils := 0
			d.eachStoreTo(a, cellD.fr, func(st *ssa.Store, f *frame) {
				// a pointer variable reset to nil on failure paths keeps one identity
				if ir.IsNilConst(st.Val) {
					nils++
					return
				}
				// written back to itself at a return (named results)
				if lu, isLd := st.Val.(*ssa.UnOp); isLd && lu.Op == token.MUL && lu.X == ssa.Value(a) {
					return
				}
				stored = append(stored, st.Val)
				sfr = f
			})
			_ = nils
			if len(stored) != 1 {
				return dval{v, fr}
			}
			v, fr = stored[0], sfr
		case *ssa.ChangeType:
			// keep named-type conversions transparent only for identity of slices/strings
			return dval{v, fr}
		case *ssa.Index:
			// element, at a known index, of a local array literal that is read by value
			if ld, isLd := x.X.(*ssa.UnOp); isLd && ld.Op == token.MUL {
				if el, ok := d.literalElemOfLoad(ld, x.Index, fr); ok {
					v, fr = el.v, el.fr
					continue
				}
			}
			return dval{v, fr}
		case *ssa.Field:
			// field of a struct value (a by-value receiver/parameter copy of a locally built struct)
			if d.throughFields && depth < 30 {
				if fv, ok := d.structField(x.X, fr, x.Field, nil, 0); ok && !(fv.v == v && fv.fr == fr) {
					v, fr = fv.v, fv.fr
					continue
				}
			}
			return dval{v, fr}
		case *ssa.Extract:
			call, ok := x.Tuple.(*ssa.Call)
			if !ok {
				return dval{v, fr}
			}
			child := d.frameOfCall(fr, call)
			if child == nil || d.stopAt[ir.CallID(call)] {
				return dval{v, fr}
			}
			rv := uniqueResult(child.fn, x.Index)
			if rv == nil {
				return dval{v, fr}
			}
			v, fr = rv, child
		case *ssa.Call:
			child := d.frameOfCall(fr, x)
			if child == nil || d.stopAt[ir.CallID(x)] {
				return dval{v, fr}
			}
			rv := uniqueResult(child.fn, 0)
			if rv == nil || child.fn.Signature.Results().Len() != 1 {
				return dval{v, fr}
			}
			v, fr = rv, child
		default:
			return dval{v, fr}
		}
	}
	return dval{v, fr}
}

// indexOf: the constant an index expression denotes (directly or under idxEnv).
func (d *deepView) indexOf(v ssa.Value) (int64, bool) {
	if k, ok := ir.ConstInt(v); ok {
		return k, true
	}
	k, ok := d.idxEnv[v]
	return k, ok
}

// literalArray: the local array behind a slice-literal value.
func (d *deepView) literalArray(v ssa.Value, fr *frame) (*ssa.Alloc, *frame, bool) {
	r := d.resolve(v, fr)
	x := r.v
	if sl, ok := x.(*ssa.Slice); ok {
		x = sl.X
	}
	a, ok := x.(*ssa.Alloc)
	if !ok {
		return nil, nil, false
	}
	if _, isArr := a.Type().Underlying().(*types.Pointer).Elem().Underlying().(*types.Array); !isArr {
		return nil, nil, false
	}
	return a, r.fr, true
}

// literalElem: the value stored at a known index of a local array literal.
func (d *deepView) literalElem(ia *ssa.IndexAddr, fr *frame) (dval, bool) {
	k, ok := d.indexOf(ia.Index)
	if !ok {
		return dval{}, false
	}
	a, afr, ok := d.literalArray(ia.X, fr)
	if !ok {
		return dval{}, false
	}
	var out ssa.Value
	n := 0
	for _, r := range *a.Referrers() {
		if ia2, ok := r.(*ssa.IndexAddr); ok {
			if k2, isK := ir.ConstInt(ia2.Index); isK && k2 == k {
				for _, rr := range *ia2.Referrers() {
					if st, ok := rr.(*ssa.Store); ok && st.Addr == ssa.Value(ia2) {
						out, n = st.Val, n+1
					}
				}
			}
		}
	}
	if n != 1 {
		return dval{}, false
	}
	return dval{out, afr}, true
}

// literalElemOfLoad: the value stored at a known index of a local array literal,
// seen through a load of the whole array (the copy a range-by-value loop indexes):
// the one store to that element, made before the array is loaded.
func (d *deepView) literalElemOfLoad(ld *ssa.UnOp, index ssa.Value, fr *frame) (dval, bool) {
	k, ok := d.indexOf(index)
	if !ok {
		return dval{}, false
	}
	a, afr, ok := d.literalArray(ld.X, fr)
	if !ok || afr != fr {
		return dval{}, false
	}
	var out ssa.Value
	n := 0
	for _, r := range *a.Referrers() {
		switch y := r.(type) {
		case *ssa.IndexAddr:
			k2, isK := ir.ConstInt(y.Index)
			if !isK {
				return dval{}, false // written (or handed out) at an index that is not known
			}
			for _, rr := range *y.Referrers() {
				st, isSt := rr.(*ssa.Store)
				if !isSt || st.Addr != ssa.Value(y) {
					return dval{}, false
				}
				if !(st.Block() == ld.Block() && precedes(st, ld) || st.Block() != ld.Block() && st.Block().Dominates(ld.Block())) {
					return dval{}, false
				}
				if k2 == k {
					out, n = st.Val, n+1
				}
			}
		case *ssa.UnOp, *ssa.DebugRef:
		default:
			return dval{}, false
		}
	}
	if n != 1 {
		return dval{}, false
	}
	return dval{out, afr}, true
}

// literalElemField: the value stored into field idx of the struct element at a
// known index of a local array literal.
func (d *deepView) literalElemField(ia *ssa.IndexAddr, fr *frame, idx int) (dval, bool) {
	k, ok := d.indexOf(ia.Index)
	if !ok {
		return dval{}, false
	}
	a, afr, ok := d.literalArray(ia.X, fr)
	if !ok {
		return dval{}, false
	}
	var out ssa.Value
	n := 0
	for _, r := range *a.Referrers() {
		if ia2, ok := r.(*ssa.IndexAddr); ok {
			if k2, isK := ir.ConstInt(ia2.Index); isK && k2 == k {
				for _, rr := range *ia2.Referrers() {
					if fa, ok := rr.(*ssa.FieldAddr); ok && fa.Field == idx {
						for _, r3 := range *fa.Referrers() {
							if st, ok := r3.(*ssa.Store); ok && st.Addr == ssa.Value(fa) {
								out, n = st.Val, n+1
							}
						}
					}
				}
			}
		}
	}
	if n != 1 {
		return dval{}, false
	}
	return dval{out, afr}, true
}

// resolveConv resolves through frames and value-preserving conversions
// alternately until nothing changes.
func (d *deepView) resolveConv(v ssa.Value, fr *frame) dval {
	r := dval{v, fr}
	for i := 0; i < 8; i++ {
		n := d.resolve(ir.StripConv(r.v), r.fr)
		if n.same(r) {
			break
		}
		r = n
	}
	return r
}

// resolveAll resolves through frames, conversions and interface boxing.
func (d *deepView) resolveAll(v ssa.Value, fr *frame) dval {
	r := dval{v, fr}
	for i := 0; i < 10; i++ {
		n := d.resolve(ir.StripConv(ir.StripIface(r.v)), r.fr)
		if n.same(r) {
			break
		}
		r = n
	}
	return r
}

// alternatives: the values v may stand for when it is computed from the element
// of a local literal table at the running index of a range loop: one resolved
// value per element (a single resolved value otherwise).
func (d *deepView) alternatives(v ssa.Value, fr *frame) []dval {
	old := d.throughFields
	d.throughFields = true
	defer func() { d.throughFields = old }()
	iv, n, ok := d.rangeLiteralDeep(v, fr)
	if !ok || n > 64 {
		return []dval{d.resolveAll(v, fr)}
	}
	var out []dval
	for k := int64(0); k < n; k++ {
		d.under(listItem{idx: map[ssa.Value]int64{iv: k}}, func() { out = append(out, d.resolveAll(v, fr)) })
	}
	return out
}

// rangeLiteralDeep is rangeLiteral through local struct copies (d := table[i]; d.f).
func (d *deepView) rangeLiteralDeep(v ssa.Value, fr *frame) (ssa.Value, int64, bool) {
	if iv, n, ok := d.rangeLiteral(v, fr); ok {
		return iv, n, true
	}
	// follow loads of fields of a local that was assigned from the element
	seen := map[ssa.Value]bool{}
	cur := v
	for i := 0; i < 6 && cur != nil && !seen[cur]; i++ {
		seen[cur] = true
		switch x := cur.(type) {
		case *ssa.UnOp:
			cur = x.X
		case *ssa.FieldAddr:
			cur = x.X
		case *ssa.Field:
			cur = x.X
		case *ssa.Alloc:
			var stored ssa.Value
			n := 0
			d.eachStoreTo(x, fr, func(st *ssa.Store, f *frame) { stored, n = st.Val, n+1 })
			if n != 1 {
				return nil, 0, false
			}
			if iv, cnt, ok := d.rangeLiteral(stored, fr); ok {
				return iv, cnt, true
			}
			cur = stored
		default:
			return nil, 0, false
		}
	}
	return nil, 0, false
}

// uniqueResult: the one value fn returns at result index idx, ignoring returns
// that yield a nil/zero constant there (the failure exits of (T, error) helpers).
func uniqueResult(fn *ssa.Function, idx int) ssa.Value {
	rets := ir.Returns(fn)
	// for (..., error) functions only the success exits count, when they can be told apart
	if res := fn.Signature.Results(); res.Len() > 1 && idx < res.Len()-1 && types.Identical(res.At(res.Len()-1).Type(), types.Universe.Lookup("error").Type()) {
		var succ []*ssa.Return
		for _, r := range rets {
			if len(r.Results) == res.Len() && ir.IsNilConst(r.Results[res.Len()-1]) {
				succ = append(succ, r)
			}
		}
		if len(succ) > 0 {
			rets = succ
		}
	}
	var out ssa.Value
	for _, r := range rets {
		if idx >= len(r.Results) {
			return nil
		}
		v := r.Results[idx]
		// a function with deferred calls returns through result cells: the value is
		// what the return statement stored; the exit taken after a recovered panic
		// yields the cell as it stands (unset, or one of those values)
		if len(r.Results) == fn.Signature.Results().Len() {
			if recoverExitOnly(fn, r, idx) && len(rets) > 1 {
				continue
			}
			v = effectiveResult(fn, r, idx)
		}
		if k, ok := v.(*ssa.Const); ok && (k.Value == nil || k.IsNil()) && len(rets) > 1 {
			continue
		}
		if out != nil && out != v {
			return nil
		}
		out = v
	}
	return out
}

// eachStoreTo visits the stores whose address is exactly cell a (a local of
// frame afr), in afr and in frames below it that received the address.
func (d *deepView) eachStoreTo(a *ssa.Alloc, afr *frame, f func(*ssa.Store, *frame)) {
	for _, di := range d.order {
		st, ok := di.i.(*ssa.Store)
		if !ok {
			continue
		}
		if di.fr == afr && st.Addr == ssa.Value(a) {
			f(st, di.fr)
			continue
		}
		// closures / helpers writing through a captured or passed address
		if di.fr != afr {
			if _, isAddr := st.Addr.(*ssa.FreeVar); isAddr {
				if r := d.resolveAddr(st.Addr, di.fr); r.v == ssa.Value(a) && r.fr == afr {
					f(st, di.fr)
				}
			} else if p, isParam := st.Addr.(*ssa.Parameter); isParam {
				if r := d.resolve(p, di.fr); r.v == ssa.Value(a) && r.fr == afr {
					f(st, di.fr)
				}
			}
		}
	}
}

// resolveAddr resolves an address value (free variable / parameter) to the cell it denotes.
func (d *deepView) resolveAddr(v ssa.Value, fr *frame) dval {
	for depth := 0; depth < 10; depth++ {
		switch x := v.(type) {
		case *ssa.FreeVar:
			b := ir.FreeVarBinding(x)
			if b == nil {
				return dval{v, fr}
			}
			pf := fr
			for pf != nil && pf.fn != b.Parent() {
				pf = pf.parent
			}
			if pf == nil {
				pf = fr
			}
			v, fr = b, pf
		case *ssa.Parameter:
			r := d.resolve(x, fr)
			if r.v == v && r.fr == fr {
				return r
			}
			v, fr = r.v, r.fr
		default:
			return dval{v, fr}
		}
	}
	return dval{v, fr}
}

// objectOf resolves a pointer-ish value to the object it denotes: strips
// interface boxing and conversions and resolves through frames.
func (d *deepView) objectOf(v ssa.Value, fr *frame) dval {
	for depth := 0; depth < 20; depth++ {
		r := d.resolve(ir.StripIface(v), fr)
		s := ir.StripIface(r.v)
		if s == r.v && (r.v == v && r.fr == fr) {
			return r
		}
		if s == r.v {
			return r
		}
		v, fr = s, r.fr
	}
	return dval{v, fr}
}

// isRootParam: the value resolves to the given parameter of the anchor function.
func (d *deepView) isRootParam(v ssa.Value, fr *frame, p *ssa.Parameter) bool {
	r := d.resolve(ir.StripConv(ir.StripIface(v)), fr)
	return r.fr == d.root && r.v == ssa.Value(p)
}

// callsTo lists the calls of the view whose resolved callee is one of ids.
func (d *deepView) callsTo(ids ...string) []dinstr {
	var out []dinstr
	want := map[string]bool{}
	for _, id := range ids {
		want[id] = true
	}
	for _, di := range d.order {
		if call, ok := di.i.(ssa.CallInstruction); ok && want[ir.CallID(call)] {
			out = append(out, di)
		}
	}
	return out
}

// storesToField lists the stores of the view into the field with the given id.
func (d *deepView) storesToField(fieldID string) []dinstr {
	var out []dinstr
	for _, di := range d.order {
		if st, ok := di.i.(*ssa.Store); ok && ir.FieldID(st.Addr) == fieldID {
			out = append(out, di)
		}
	}
	return out
}

// sliceDeep computes the backward slice of v (in frame fr) with parameters
// bound along the frame chain, so that derivation crosses helper boundaries
// exactly along this activation.
func (d *deepView) sliceDeep(v ssa.Value, fr *frame) map[ssa.Value]bool {
	// parameters are bound along the frame chain only (no call-graph binding)
	s := ir.NewSlicer(d.c.P.InModule, nil, d.c.Depth)
	s.BindRoot = false
	out := map[ssa.Value]bool{}
	seen := map[string]bool{}
	var rec func(v ssa.Value, fr *frame, depth int)
	rec = func(v ssa.Value, fr *frame, depth int) {
		if v == nil || fr == nil || depth > 12 {
			return
		}
		k := fmt.Sprintf("%p|%s", v, fr.id)
		if seen[k] {
			return
		}
		seen[k] = true
		sl := s.Slice(v)
		for x := range sl {
			out[x] = true
			if p, ok := x.(*ssa.Parameter); ok {
				// the parameter belongs to this frame or (reached through captured
				// variables) to an enclosing one
				pf := fr
				for pf != nil && pf.fn != p.Parent() {
					pf = pf.parent
				}
				if pf == nil || pf.parent == nil {
					continue
				}
				r := d.resolve(p, pf)
				if r.v != x || r.fr != pf {
					rec(r.v, r.fr, depth+1)
				}
				// the argument as written at the call site too: resolve() looks through
				// a call into what the callee returns and so steps over the call itself
				if pf.site != nil {
					if _, isClosure := pf.site.Common().Value.(*ssa.MakeClosure); !isClosure {
						args := ir.CallArgs(pf.site)
						for k, q := range pf.fn.Params {
							if q == p && k < len(args) {
								rec(args[k], pf.parent, depth+1)
							}
						}
					}
				}
			}
		}
	}
	rec(v, fr, 0)
	return out
}

// deepWrite is one datum handed to binary.Write somewhere in the view, with the
// stream object and the datum resolved across frames.
type deepWrite struct {
	call   *ssa.Call
	fr     *frame
	seq    int
	stream dval
	datum  dval
	order  string
}

// binaryWrites lists every datum written with encoding/binary.Write in the view
// (in program order), expanding the slice-literal loop idiom and variadic
// wrapper parameters.
func (d *deepView) binaryWrites() []deepWrite {
	var out []deepWrite
	for _, di := range d.order {
		call, ok := di.i.(*ssa.Call)
		if !ok || ir.CallID(call) != "encoding/binary.Write" {
			continue
		}
		stream := d.objectOf(call.Call.Args[0], di.fr)
		order := byteOrderOf(call.Call.Args[1])
		data := call.Call.Args[2]
		add := func(v ssa.Value, fr *frame) {
			r := dval{v, fr}
			for k := 0; k < 12; k++ {
				n := d.resolve(ir.StripIface(r.v), r.fr)
				n.v = ir.StripIface(n.v)
				if n.same(r) {
					break
				}
				r = n
			}
			out = append(out, deepWrite{call, di.fr, di.seq, stream, r, order})
		}
		if elems, ok := literalElems(data); ok {
			for _, el := range elems {
				add(el, di.fr)
			}
			continue
		}
		// the write sits in a helper that a loop over a literal calls with the
		// element as its argument: one write per element, as above
		{
			val, vfr := data, di.fr
			handled := false
			for hops := 0; hops < 3 && !handled; hops++ {
				p, isP := val.(*ssa.Parameter)
				if !isP || vfr.parent == nil || vfr.site == nil || p.Parent() != vfr.fn {
					break
				}
				if _, isClosure := vfr.site.Common().Value.(*ssa.MakeClosure); isClosure {
					break
				}
				idx := -1
				for k, q := range vfr.fn.Params {
					if q == p {
						idx = k
					}
				}
				pargs := ir.CallArgs(vfr.site)
				if idx < 0 || idx >= len(pargs) {
					break
				}
				val, vfr = pargs[idx], vfr.parent
				if elems, ok := literalElems(val); ok {
					for _, el := range elems {
						add(el, vfr)
					}
					handled = true
				}
			}
			if handled {
				continue
			}
		}
		// element of a variadic parameter: the literal at this frame's call site
		if ld, ok := data.(*ssa.UnOp); ok {
			if ia, ok := ld.X.(*ssa.IndexAddr); ok {
				if p, ok := ia.X.(*ssa.Parameter); ok && di.fr.site != nil {
					idx := -1
					for k, q := range di.fr.fn.Params {
						if q == p {
							idx = k
						}
					}
					args := ir.CallArgs(di.fr.site)
					if idx >= 0 && idx < len(args) {
						if elems := orderedVariadic(args[idx]); elems != nil {
							for _, el := range elems {
								add(el, di.fr.parent)
							}
							continue
						}
					}
				}
			}
		}
		add(data, di.fr)
	}
	return out
}

// fieldIDOfDeep is fieldIDOf for a value of the view: *p where the pointer p
// was handed in by a caller (a parameter, a closure variable, a helper result)
// that loaded it from a struct field is that field.
func (d *deepView) fieldIDOfDeep(r dval) string {
	if id := fieldIDOf(r.v); id != "" {
		return id
	}
	if ld, ok := ir.StripConv(r.v).(*ssa.UnOp); ok && ld.Op == token.MUL {
		if in := d.resolve(ld.X, r.fr); in.v != ld.X || in.fr != r.fr {
			if inner, ok := ir.StripConv(in.v).(*ssa.UnOp); ok && inner.Op == token.MUL {
				return ir.FieldID(inner.X)
			}
		}
	}
	return ""
}

// fieldIDOf: the struct field a (resolved) value is loaded from ("" if none).
func fieldIDOf(v ssa.Value) string {
	v = ir.StripConv(v)
	if id := ir.FieldID(v); id != "" {
		return id
	}
	if ld, ok := v.(*ssa.UnOp); ok && ld.Op == token.MUL {
		// *p.F where p.F is a pointer field: load(load(FieldAddr))
		if inner, ok := ld.X.(*ssa.UnOp); ok && inner.Op == token.MUL {
			return ir.FieldID(inner.X)
		}
	}
	return ""
}
