package rules

import (
	"fmt"
	"go/token"
	"strings"

	"golang.org/x/tools/go/ssa"

	"verif/checker/internal/ir"
)

// ruleBareRead (G10): a Read on an io.Reader may return fewer bytes than asked
// for; outside a loop it is not a full read. (ReadFull/ReadAll/binary.Read are.)
func (c *Ctx) ruleBareRead(rule string, in func(*ssa.Function) bool) {
	counts := map[string]int{}
	n := 0
	for _, fn := range c.P.LibFunctions() {
		if in != nil && !in(fn) {
			continue
		}
		fn := fn
		instrsOf(fn, func(i ssa.Instruction) {
			call, ok := i.(ssa.CallInstruction)
			if !ok || !call.Common().IsInvoke() || call.Common().Method.Name() != "Read" {
				return
			}
			if ir.NamedTypeID(call.Common().Value.Type()) != "io.Reader" {
				return
			}
			n++
			key := ordinalKey(counts, name(fn)+":io.Reader.Read")
			c.R.Check(inLoop(fn, i.Block()), rule, name(fn), strings.TrimPrefix(key, name(fn)+":"), c.IPos(i),
				"a declared length is read with a full-read primitive (or a loop), not a single Read",
				"single Read on an io.Reader outside a loop: readers may return short counts, the rest of the declared length stays unread")
		})
	}
	c.R.Infof(rule, "-", "scan", "-", fmt.Sprintf("decoder functions scanned for single Read calls on io.Reader: %d call(s)", n))
}

func checkC10(c *Ctx) {
	// G1 pairs (flattened through sub-codecs)
	rw, _ := c.pairRule("G1.pair", "efi/signature.ReadWinCertificate", "efi/signature.WriteWinCertificate", nil)
	ru, wu := c.pairRule("G1.pair", "efi/signature.ReadWinCertificateUEFIGUID", "efi/signature.WriteWinCertificateUEFIGUID", map[string]bool{
		// the UEFI_GUID writer emits the body as CertType+CertData, the reader consumes it as the header's body
		sigPkg + ".WinCertificateUEFIGUID.CertType.Data1": true, sigPkg + ".WinCertificateUEFIGUID.CertType.Data2": true,
		sigPkg + ".WinCertificateUEFIGUID.CertType.Data3": true, sigPkg + ".WinCertificateUEFIGUID.CertType.Data4": true,
		sigPkg + ".WinCertificateUEFIGUID.CertData": true,
	})
	c.pairRule("G1.pair", "efi/signature.ReadEFIVariableAuthencation2", "efi/signature.WriteEFIVariableAuthencation2", map[string]bool{
		sigPkg + ".WinCertificateUEFIGUID.CertType.Data1": true, sigPkg + ".WinCertificateUEFIGUID.CertType.Data2": true,
		sigPkg + ".WinCertificateUEFIGUID.CertType.Data3": true, sigPkg + ".WinCertificateUEFIGUID.CertType.Data4": true,
		sigPkg + ".WinCertificateUEFIGUID.CertData": true,
	})
	// G5 layouts
	c.layoutRule("G5.layout", rw, true, nil, []layoutField{{"Length", 4}, {"Revision", 2}, {"CertType", 2}, {"Certificate", -1}}, "WIN_CERTIFICATE")
	if rd := c.Fn("G5.layout", "efi/signature.ReadEFIVariableAuthencation2"); rd != nil {
		c.layoutRule("G5.layout", rd, true, nil, []layoutField{
			{"Year", 2}, {"Month", 1}, {"Day", 1}, {"Hour", 1}, {"Minute", 1}, {"Second", 1}, {"Pad1", 1}, {"Nanosecond", 4}, {"TimeZone", 2}, {"Daylight", 1}, {"Pad2", 1},
			{"Length", 4}, {"Revision", 2}, {"CertType", 2}, {"Certificate", -1}}, "EFI_VARIABLE_AUTHENTICATION_2 (EFI_TIME + WIN_CERTIFICATE)")
	}
	// body length = dwLength - 8 (the header width from the table)
	if rw != nil {
		tbl := c.codecTable(rw, true)
		hdr, ok, det := 0, false, "no variable-length body entry"
		for _, e := range tbl {
			if e.width >= 0 {
				hdr += e.width
			}
			if e.lenAff != nil {
				want := newAffine()
				want.K = int64(-hdr)
				for k, v := range e.lenAff.T {
					if strings.HasSuffix(k, ".Length") && v == 1 && len(e.lenAff.T) == 1 && e.lenAff.K == want.K {
						ok = true
					}
				}
				if !ok {
					det = fmt.Sprintf("body length is %s, want dwLength-%d", e.lenOf, hdr)
				}
			}
		}
		c.R.Check(ok, "G1.tail", name(rw), "body.len", c.Pos(rw.Pos()), "the certificate body is dwLength minus the 8 header bytes", det)
	}
	// the GUID variant parses type GUID and data out of the already consumed body (alias), consuming nothing more
	if ru != nil {
		tbl := c.codecTable(ru, true)
		okAlias, detAlias := true, ""
		nAlias := 0
		for _, e := range tbl {
			if strings.HasPrefix(e.what, "call:") {
				continue
			}
			if !e.alias {
				okAlias, detAlias = false, "entry "+e.String()+" consumes from the input stream beyond the declared WIN_CERTIFICATE length"
			} else {
				nAlias++
				// the aliasing reader is constructed over Header.Certificate
				src := ir.StripIface(e.onSrc)
				if cl, ok := src.(*ssa.Call); ok {
					if !ir.HasField(c.sliceOf(cl.Call.Args[0]), sigPkg+".WINCertificate.Certificate") {
						okAlias, detAlias = false, "the sub-parser does not read from the header's certificate body"
					}
				}
			}
		}
		if nAlias < 2 {
			okAlias, detAlias = false, "type GUID and data are not both parsed from the consumed body"
		}
		c.R.Check(okAlias, "G1.consume", name(ru), "alias-only", c.Pos(ru.Pos()), "decoding consumes exactly the declared length: type GUID and data are parsed out of the consumed body", detAlias)
	}
	// G3: nothing emitted twice
	if wu != nil {
		c.noDoubleEmission(wu)
	}
	// T (length arithmetic), B (terminators), G10 in the descriptor readers
	scope := map[*ssa.Function]bool{}
	var roots []*ssa.Function
	for _, s := range []string{"efi/signature.ReadWinCertificate", "efi/signature.ReadWinCertificateUEFIGUID", "efi/signature.ReadEFIVariableAuthencation2", "efi/signature.(*EFIVariableAuthentication2).Unmarshal"} {
		if fn := c.FnOpt(s); fn != nil {
			roots = append(roots, fn)
		}
	}
	reach, prev := c.Reachable(roots)
	for f := range reach {
		if c.P.InLib(f) {
			scope[f] = true
		}
	}
	in := func(fn *ssa.Function) bool { return scope[fn] }
	c.RuleT("", in, map[string]bool{"T1": true, "T2": true})
	c.RuleB("B.term", reach, func(fn *ssa.Function) string { return c.Chain(prev, fn) }, nil)
	c.ruleBareRead("G10.fullread", in)
	c.R.Floor("G1.pair", 3)
	c.R.Floor("G5.layout", 2)
	c.R.Floor("G3.once", 1)
	c.scopeGuard("scope", len(scope), 3, "library functions reachable from the descriptor readers")
}

// noDoubleEmission (G3): the UEFI_GUID writer emits the body as type GUID +
// data; the header's Certificate field (which a decoded value still holds) must
// be empty in what is passed to the header writer: either cleared on a local
// copy on every path before the call, or never filled by the reader.
func (c *Ctx) noDoubleEmission(wu *ssa.Function) {
	var sub *ssa.Call
	instrsOf(wu, func(i ssa.Instruction) {
		if call, ok := i.(*ssa.Call); ok && ir.CallID(call) == sigPkg+".WriteWinCertificate" {
			sub = call
		}
	})
	// does the paired reader keep the body in Header.Certificate?
	readerKeeps := false
	if ru := c.FnOpt("efi/signature.ReadWinCertificateUEFIGUID"); ru != nil {
		instrsOf(ru, func(i ssa.Instruction) {
			if st, ok := i.(*ssa.Store); ok && ir.FieldID(st.Addr) == sigPkg+".WinCertificateUEFIGUID.Header" {
				if !c.certificateCleared(ru, st.Val, st) {
					readerKeeps = true
				}
			}
		})
	}
	if sub == nil {
		c.R.Undecf("G3.once", name(wu), "header-body", c.Pos(wu.Pos()), "the header writer call must be identifiable", "no call to WriteWinCertificate")
		return
	}
	if !readerKeeps {
		c.R.Okf("G3.once", name(wu), "header-body", c.IPos(sub), "the reader does not keep the body in Header.Certificate, so the writer cannot emit it twice")
		return
	}
	hdrArg := sub.Call.Args[1]
	a, isLocal := ir.RootOf(hdrArg).(*ssa.Alloc)
	ok, det := false, "the decoded header (which still holds the raw body in Certificate) is passed to the header writer, and the body is written again as CertType+CertData"
	if isLocal {
		// a store of nil/empty to .Certificate of the local copy dominating the call
		for _, r := range *a.Referrers() {
			fa, isFA := r.(*ssa.FieldAddr)
			if !isFA || ir.FieldID(fa) != sigPkg+".WINCertificate.Certificate" {
				continue
			}
			for _, rr := range *fa.Referrers() {
				st, isSt := rr.(*ssa.Store)
				if !isSt || !isEmptySlice(st.Val) {
					continue
				}
				if st.Block() == sub.Block() && precedes(st, sub) || st.Block() != sub.Block() && st.Block().Dominates(sub.Block()) {
					ok, det = true, ""
				} else {
					det = "Certificate is cleared on the local header copy only on some paths (at " + c.IPos(st) + "); on the others the body is emitted twice"
				}
			}
		}
	}
	c.R.Check(ok, "G3.once", name(wu), "header-body", c.IPos(sub), "the certificate body is emitted once (header Certificate cleared on a local copy before the header is written)", det)
}

func isEmptySlice(v ssa.Value) bool {
	if ir.IsNilConst(v) {
		return true
	}
	if mk, ok := v.(*ssa.MakeSlice); ok {
		n, isK := ir.ConstInt(mk.Len)
		return isK && n == 0
	}
	if sl, ok := v.(*ssa.Slice); ok {
		if a, ok := sl.X.(*ssa.Alloc); ok {
			if n, ok := byteLenAny(a); ok && n == 0 {
				return true
			}
		}
	}
	return false
}

// certificateCleared: value hdr (a WINCertificate struct value) has its
// Certificate cleared before being stored.
func (c *Ctx) certificateCleared(fn *ssa.Function, hdr ssa.Value, at *ssa.Store) bool {
	ld, ok := hdr.(*ssa.UnOp)
	if !ok || ld.Op != token.MUL {
		return false
	}
	a, ok := ld.X.(*ssa.Alloc)
	if !ok {
		return false
	}
	for _, r := range *a.Referrers() {
		if fa, isFA := r.(*ssa.FieldAddr); isFA && ir.FieldID(fa) == sigPkg+".WINCertificate.Certificate" {
			for _, rr := range *fa.Referrers() {
				if st, isSt := rr.(*ssa.Store); isSt && isEmptySlice(st.Val) && (st.Block().Dominates(at.Block())) {
					return true
				}
			}
		}
	}
	return false
}
