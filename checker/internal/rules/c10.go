package rules

import (
	"fmt"
	"go/constant"
	"go/token"
	"go/types"
	"os"
	"strings"

	"golang.org/x/tools/go/ssa"

	"verif/checker/internal/ir"
)

// ruleBareRead (G10): a Read on an io.Reader may return fewer bytes than asked
// for; outside a loop it is not a full read. (ReadFull/ReadAll/binary.Read are.)
func (c *Ctx) ruleBareRead(rule string, in func(*ssa.Function) bool) {
	counts := map[string]int{}
	n := 0
	for _, fn := range c.P.LibFunctions() {
		if in != nil && !in(fn) {
			continue
		}
		fn := fn
		instrsOf(fn, func(i ssa.Instruction) {
			call, ok := i.(ssa.CallInstruction)
			if !ok || !call.Common().IsInvoke() || call.Common().Method.Name() != "Read" {
				return
			}
			if ir.NamedTypeID(call.Common().Value.Type()) != "io.Reader" {
				return
			}
			n++
			key := ordinalKey(counts, name(fn)+":io.Reader.Read")
			c.R.Check(inLoop(fn, i.Block()), rule, name(fn), strings.TrimPrefix(key, name(fn)+":"), c.IPos(i),
				"a declared length is read with a full-read primitive (or a loop), not a single Read",
				"single Read on an io.Reader outside a loop: readers may return short counts, the rest of the declared length stays unread")
		})
	}
	c.R.Infof(rule, "-", "scan", "-", fmt.Sprintf("decoder functions scanned for single Read calls on io.Reader: %d call(s)", n))
}

// ruleExactConsumption (G12): a decoder of a length-delimited structure takes
// from its stream only what the structure declares. Anywhere in its call cone
// the stream must not be handed to a consumer that reads ahead or to the end
// (buffering wrappers, ReadAll, Copy): what follows the structure belongs to
// the caller.
func (c *Ctx) ruleExactConsumption(rule string, specs ...string) {
	over := map[string]int{ // callee -> index of the argument that is drained
		"bufio.NewReader": 0, "bufio.NewReaderSize": 0, "bufio.NewScanner": 0, "io.ReadAll": 0, "io/ioutil.ReadAll": 0,
		"io.Copy": 1, "io.CopyBuffer": 1, "bytes.Buffer.ReadFrom": 1, "bufio.Reader.Reset": 1,
	}
	for _, spec := range specs {
		fn := c.Fn(rule, spec)
		if fn == nil {
			continue
		}
		var stream *ssa.Parameter
		for _, p := range fn.Params {
			if isStreamType(p.Type()) {
				stream = p
				break
			}
		}
		if stream == nil {
			c.R.Undecf(rule, name(fn), "stream", c.Pos(fn.Pos()), "the decoder's input stream must be identifiable", "no stream parameter")
			continue
		}
		dv := c.deepViewOf(fn, 4)
		dv.throughFields = true
		ok, det := true, ""
		n := 0
		for _, di := range dv.order {
			call, isC := di.i.(*ssa.Call)
			if !isC {
				continue
			}
			args := ir.CallArgs(call)
			for k, a := range args {
				if !isStreamType(a.Type()) && !isIfaceType(a.Type()) {
					continue
				}
				if r := dv.objectOf(a, di.fr); r.fr != dv.root || r.v != ssa.Value(stream) {
					continue
				}
				n++
				if idx, isOver := over[ir.CallID(call)]; isOver && idx == k {
					ok, det = false, "the input stream is handed to "+ir.CallID(call)+" at "+c.IPos(call)+", which reads ahead of (or past) the declared length: the bytes that follow the structure are consumed"
				}
			}
		}
		dv.throughFields = false
		c.R.Check(ok, rule, name(fn), "stream-consumers", c.Pos(fn.Pos()), fmt.Sprintf("the decoder consumes exactly the declared bytes: no read-ahead or read-to-end consumer on its stream (%d uses of the stream in the call cone)", n), det)
	}
}

func checkC10(c *Ctx) {
	c.ruleExactConsumption("G12.exact", "efi/signature.ReadWinCertificate", "efi/signature.ReadWinCertificateUEFIGUID", "efi/signature.ReadEFIVariableAuthencation2")
	c.R.Floor("G12.exact", 3)
	c.ruleNoUpperBound("G13.range", "efi/signature.ReadWinCertificate", "efi/signature.ReadWinCertificateUEFIGUID", "efi/signature.ReadEFIVariableAuthencation2")
	c.R.Floor("G13.range", 3)
	// G1 pairs (flattened through sub-codecs)
	rw, _ := c.pairRule("G1.pair", "efi/signature.ReadWinCertificate", "efi/signature.WriteWinCertificate", nil)
	ru, wu := c.pairRule("G1.pair", "efi/signature.ReadWinCertificateUEFIGUID", "efi/signature.WriteWinCertificateUEFIGUID", map[string]bool{"@uefi-body": true})
	c.pairRule("G1.pair", "efi/signature.ReadEFIVariableAuthencation2", "efi/signature.WriteEFIVariableAuthencation2", map[string]bool{"@uefi-body": true})
	// G5 layouts
	c.layoutRule("G5.layout", rw, true, nil, []layoutField{{"Length", 4}, {"Revision", 2}, {"CertType", 2}, {"Certificate", -1}}, "WIN_CERTIFICATE")
	if rd := c.Fn("G5.layout", "efi/signature.ReadEFIVariableAuthencation2"); rd != nil {
		c.layoutRule("G5.layout", rd, true, nil, []layoutField{
			{"Year", 2}, {"Month", 1}, {"Day", 1}, {"Hour", 1}, {"Minute", 1}, {"Second", 1}, {"Pad1", 1}, {"Nanosecond", 4}, {"TimeZone", 2}, {"Daylight", 1}, {"Pad2", 1},
			{"Length", 4}, {"Revision", 2}, {"CertType", 2}, {"Certificate", -1}}, "EFI_VARIABLE_AUTHENTICATION_2 (EFI_TIME + WIN_CERTIFICATE)")
	}
	// body length = dwLength - 8 (the header width from the table)
	if rw != nil {
		ls, why := c.wireLeaves(rw, true)
		hdr, ok, det := 0, false, "no variable-length body entry"
		decided := why == ""
		for _, l := range ls {
			if l.width >= 0 {
				hdr += l.width
				continue
			}
			if l.src == nil || l.src.lenAff == nil {
				decided = false
				continue
			}
			la := l.src.lenAff
			for k, v := range la.T {
				isLen := strings.HasSuffix(k, ".Length")
				if sv := la.Sym[k]; !isLen && sv != nil {
					// dwLength as it sits in a scratch header that is copied into the result
					isLen = copiedIntoField(rw, sv, sigPkg+".WINCertificate.Length")
				}
				if !isLen {
					// ... named by the storage path: the same cell is what the result's Length is set from
					for _, f := range withAnon(rw) {
						instrsOf(f, func(i ssa.Instruction) {
							if st, isSt := i.(*ssa.Store); isSt && ir.FieldID(st.Addr) == sigPkg+".WINCertificate.Length" && strings.TrimPrefix(resolvedPath(ir.StripConv(st.Val)), "*") == strings.TrimPrefix(k, "*") {
								isLen = true
							}
						})
					}
				}
				if !isLen {
					// ... decoded inside a helper and handed back: the value the result's Length is
					// set from evaluates, along the activations of the view, to this very cell
					dv := c.deepViewOf(rw, 4)
					dv.throughFields = true
					for _, di := range dv.storesToField(sigPkg + ".WINCertificate.Length") {
						if a := dv.affine(di.i.(*ssa.Store).Val, di.fr, nil, 0); a.K == 0 && len(a.T) == 1 && a.T[k] == 1 {
							isLen = true
						}
					}
					dv.throughFields = false
				}
				if isLen && v == 1 && len(la.T) == 1 && la.K == int64(-hdr) {
					ok = true
				}
			}
			if !ok {
				det = fmt.Sprintf("body length is %s, want dwLength-%d", la.String(), hdr)
			}
		}
		if !decided && !ok {
			c.R.Infof("G1.tail", name(rw), "body.len", c.Pos(rw.Pos()), "not decided for this shape: the length of the certificate body cannot be evaluated")
			ok = true
		} else {
			c.R.Check(ok, "G1.tail", name(rw), "body.len", c.Pos(rw.Pos()), "the certificate body is dwLength minus the 8 header bytes", det)
		}
	}
	// the GUID variant consumes nothing beyond the WIN_CERTIFICATE: the input stream is only ever
	// handed to the WIN_CERTIFICATE reader, and type GUID / data derive from the consumed body
	if ru != nil {
		okUse, detUse := true, ""
		consumeUndecided := ""
		var fP *ssa.Parameter
		for _, p := range ru.Params {
			if ir.NamedTypeID(p.Type()) == "io.Reader" {
				fP = p
			}
		}
		if fP == nil {
			okUse, detUse = false, "no io.Reader parameter"
		} else {
			for _, r := range *fP.Referrers() {
				call, isCall := r.(*ssa.Call)
				if !isCall {
					if _, isDbg := r.(*ssa.DebugRef); isDbg {
						continue
					}
					// kept in a reader object (a field store, possibly boxed first): who reads
					// from that object is not followed by this rule
					carried := false
					var follow func(v ssa.Value, depth int)
					follow = func(v ssa.Value, depth int) {
						if v == nil || v.Referrers() == nil || depth > 3 {
							return
						}
						for _, rr := range *v.Referrers() {
							switch y := rr.(type) {
							case *ssa.Store:
								if _, isFA := y.Addr.(*ssa.FieldAddr); isFA && y.Val == v {
									carried = true
								}
							case *ssa.MakeInterface:
								follow(y, depth+1)
							case *ssa.ChangeInterface:
								follow(y, depth+1)
							}
						}
					}
					if st, isSt := r.(*ssa.Store); isSt {
						if _, isFA := st.Addr.(*ssa.FieldAddr); isFA {
							carried = true
						}
					}
					if v, isV := r.(ssa.Value); isV {
						follow(v, 0)
					}
					if carried {
						consumeUndecided = "the input stream is kept in a reader object at " + c.IPos(r)
						continue
					}
					okUse, detUse = false, "the input stream is used at "+c.IPos(r)+" other than by handing it to the WIN_CERTIFICATE reader"
					continue
				}
				callee := ir.Callee(call)
				if callee == nil || callee != rw {
					okUse, detUse = false, "the input stream is also consumed by "+ir.CallID(call)+" at "+c.IPos(call)+": more than the declared dwLength bytes are read"
				}
			}
		}
		for _, fld := range []string{"CertType", "CertData"} {
			found := false
			instrsOf(ru, func(i ssa.Instruction) {
				if st, ok := i.(*ssa.Store); ok && ir.FieldID(st.Addr) == sigPkg+".WinCertificateUEFIGUID."+fld {
					found = true
					if !ir.HasField(c.Slicer().Slice(st.Val), sigPkg+".WINCertificate.Certificate") {
						okUse, detUse = false, fld+" does not derive from the consumed certificate body"
					}
				}
				// filled in place by a read from a reader over the body
				if call, ok := i.(*ssa.Call); ok && (ir.CallID(call) == "encoding/binary.Read" || ir.CallID(call) == "io.ReadFull") {
					for _, pv := range boxedValues(call.Call.Args[len(call.Call.Args)-1]) {
						if ir.FieldID(pv) == sigPkg+".WinCertificateUEFIGUID."+fld {
							found = true
							if !ir.HasField(c.Slicer().Slice(call.Call.Args[0]), sigPkg+".WINCertificate.Certificate") {
								okUse, detUse = false, fld+" is read from something other than the consumed certificate body"
							}
						}
					}
				}
			})
			if !found {
				// built by a helper: the returned struct's field must still derive from the body
				for _, r := range ir.Returns(ru) {
					if retClass(ru, r) == "fail" {
						continue
					}
					if !ir.HasField(c.Slicer().Slice(r.Results[0]), sigPkg+".WINCertificate.Certificate") {
						okUse, detUse = false, "the decoded value does not derive from the consumed certificate body"
					}
				}
			}
		}
		if !okUse && consumeUndecided == "" && strings.Contains(detUse, "derive") {
			// the body read through a reader object (a struct that keeps a stream in a field
			// and is used through its methods): the value flow through it is not followed
			for _, g := range c.cone(ru) {
				instrsOf(g, func(i ssa.Instruction) {
					if st, ok := i.(*ssa.Store); ok {
						if _, isFA := st.Addr.(*ssa.FieldAddr); isFA && (isStreamType(ir.StripIface(st.Val).Type()) || isStreamType(st.Val.Type())) {
							consumeUndecided = "the certificate body is read through a reader object (" + c.IPos(st) + ")"
						}
					}
				})
			}
		}
		if consumeUndecided != "" {
			c.R.Infof("G1.consume", name(ru), "declared-length-only", c.Pos(ru.Pos()), "not decided for this shape: "+consumeUndecided+" (G12.exact still excludes read-ahead consumers on the stream)")
		} else {
			c.R.Check(okUse, "G1.consume", name(ru), "declared-length-only", c.Pos(ru.Pos()), "decoding consumes exactly the declared length: the stream is read only through the WIN_CERTIFICATE reader, type GUID and data come from the consumed body", detUse)
		}
	}
	// G3: nothing emitted twice
	if wu != nil {
		c.noDoubleEmission(wu)
	}
	// T (length arithmetic), B (terminators), G10 in the descriptor readers
	scope := map[*ssa.Function]bool{}
	var roots []*ssa.Function
	for _, s := range []string{"efi/signature.ReadWinCertificate", "efi/signature.ReadWinCertificateUEFIGUID", "efi/signature.ReadEFIVariableAuthencation2", "efi/signature.(*EFIVariableAuthentication2).Unmarshal"} {
		if fn := c.FnOpt(s); fn != nil {
			roots = append(roots, fn)
		}
	}
	reach, prev := c.Reachable(roots)
	for f := range reach {
		if c.P.InLib(f) {
			scope[f] = true
		}
	}
	in := func(fn *ssa.Function) bool { return scope[fn] }
	c.RuleT("", in, map[string]bool{"T1": true, "T2": true})
	c.RuleB("B.term", reach, func(fn *ssa.Function) string { return c.Chain(prev, fn) }, nil)
	c.ruleBareRead("G10.fullread", in)
	c.R.Floor("G1.pair", 3)
	c.R.Floor("G5.layout", 2)
	c.R.Floor("G3.once", 1)
	c.scopeGuard("scope", len(scope), 3, "library functions reachable from the descriptor readers")
	c.ruleTimeRange("G17.time", "efi/signature.ReadEFIVariableAuthencation2")
	// the GUIDs of the encoded structures are little endian: the text-order converters are not used on them
	{
		counts := map[string]int{}
		n := 0
		for _, fn := range c.P.LibFunctions() {
			if fn.Pkg == nil || fn.Pkg.Pkg.Path() != sigPkg {
				continue
			}
			fn := fn
			instrsOf(fn, func(i ssa.Instruction) {
				call, ok := i.(*ssa.Call)
				if !ok {
					return
				}
				switch ir.CallID(call) {
				case utilPkg + ".GUIDToBytes", utilPkg + ".EFIGUID.Bytes", utilPkg + ".WriteGUID", utilPkg + ".BytesToGUID":
					n++
					key := ordinalKey(counts, name(fn)+":text-order-bytes")
					c.R.Violf("G7.wire", name(fn), strings.TrimPrefix(key, name(fn)+":"), c.IPos(call),
						"the codecs do not use the big-endian (text order) GUID converters for encoded structures",
						"call of "+shortID(ir.CallID(call))+": it reads/writes the 16 bytes in text order, not in the EFI in-structure layout")
				}
			})
		}
		if n == 0 {
			c.R.Okf("G7.wire", "-", "scan", "-", "no text-order GUID converter is called in the signature package")
		}
	}
	c.ruleBoundary("G18.boundary", []string{"efi/signature.ReadWinCertificate", "efi/signature.ReadWinCertificateUEFIGUID", "efi/signature.ReadEFIVariableAuthencation2", "efi/signature.(*EFIVariableAuthentication2).Unmarshal"},
		func(need Affine) bool {
			// the whole descriptor: bytes before dwLength's structure plus dwLength
			if len(need.T) != 1 || (need.K != 16 && need.K != 0) {
				return false
			}
			for sym, cf := range need.T {
				if cf != 1 {
					return false
				}
				if strings.HasSuffix(sym, ".Length") {
					return true
				}
				if call, ok := ir.StripConv(need.Sym[sym]).(*ssa.Call); ok && strings.HasSuffix(ir.CallID(call), "Uint32") {
					return true
				}
			}
			return false
		}, "a buffer that holds exactly the descriptor (no payload behind it) is a complete descriptor")
	for _, s := range []string{"efi/signature.ReadWinCertificate", "efi/signature.ReadWinCertificateUEFIGUID", "efi/signature.ReadEFIVariableAuthencation2"} {
		if fn := c.FnOpt(s); fn != nil {
			c.ruleEOFNotSuccess("G4.eofok", fn)
		}
	}
	// a decoded descriptor shares no memory with the buffer it was read from
	c.ruleNoAlias("G9.copy")
	// Unmarshal gives its receiver what was decoded
	c.ruleDecodeReplaces("G14.replace", func(f *ssa.Function) bool { return strings.Contains(name(f), "EFIVariableAuthentication2") })
	c.ruleAppendOnly("G15.append", "efi/signature.WriteWinCertificate", "efi/signature.WriteWinCertificateUEFIGUID", "efi/signature.WriteEFIVariableAuthencation2")
	c.R.Floor("G15.append", 3)
	c.ruleShortCopy("G16.short", "efi/signature.ReadWinCertificate", "efi/signature.ReadWinCertificateUEFIGUID", "efi/signature.ReadEFIVariableAuthencation2")
	c.R.Floor("G16.short", 3)
	// the codecs keep nothing in package-level memory between calls
	c.rulePureAs("E.state", []string{"efi/signature.ReadWinCertificate", "efi/signature.ReadWinCertificateUEFIGUID", "efi/signature.ReadEFIVariableAuthencation2",
		"efi/signature.WriteWinCertificate", "efi/signature.WriteWinCertificateUEFIGUID", "efi/signature.WriteEFIVariableAuthencation2"})
	c.R.Floor("E.state", 6)
	c.ruleRecycle("P.recycle", func(f *ssa.Function) bool { return strings.Contains(name(f), "efi/signature.") })
}

// noDoubleEmission (G3): the UEFI_GUID writer emits the body as type GUID +
// data; the header's Certificate field (which a decoded value still holds) must
// be empty in what is passed to the header writer: either cleared on a local
// copy on every path before the call, or never filled by the reader.
func (c *Ctx) noDoubleEmission(wu *ssa.Function) {
	// does the paired reader keep the body in Header.Certificate?
	readerKeeps := false
	if ru := c.FnOpt("efi/signature.ReadWinCertificateUEFIGUID"); ru != nil {
		instrsOf(ru, func(i ssa.Instruction) {
			if st, ok := i.(*ssa.Store); ok && ir.FieldID(st.Addr) == sigPkg+".WinCertificateUEFIGUID.Header" {
				if !c.certificateCleared(ru, st.Val, st) {
					readerKeeps = true
				}
			}
		})
	}
	if !readerKeeps {
		c.R.Okf("G3.once", name(wu), "header-body", c.Pos(wu.Pos()), "the reader does not keep the body in Header.Certificate, so the writer cannot emit it twice")
		return
	}
	if why := c.codecOpaque(wu, 0); why != "" {
		c.R.Infof("G3.once", name(wu), "header-body", c.Pos(wu.Pos()), "not decided for this shape: the writer uses "+why)
		return
	}
	leaves := c.flatten(c.codecTable(wu, false), false, 0)
	hdrBody, parts := false, false
	for _, l := range leaves {
		last := lastComponent(l.id)
		if l.width < 0 && (strings.HasSuffix(l.id, ".WINCertificate.Certificate") || last == "Certificate") {
			hdrBody = true
		}
		if strings.Contains(l.id, ".CertType.Data") || last == "CertData" {
			parts = true
		}
	}
	// raw writes of the body parts (b.Write(w.CertData)) count as parts too
	instrsOf(wu, func(i ssa.Instruction) {
		if call, ok := i.(*ssa.Call); ok && (ir.CallID(call) == "bytes.Buffer.Write" || call.Call.IsInvoke() && call.Call.Method.Name() == "Write") {
			args := ir.CallArgs(call)
			if ir.HasField(c.Slicer().Slice(args[len(args)-1]), sigPkg+".WinCertificateUEFIGUID.CertData") {
				parts = true
			}
			if ir.HasField(c.Slicer().Slice(args[len(args)-1]), sigPkg+".WINCertificate.Certificate") {
				hdrBody = true
			}
		}
	})
	c.R.Check(!(hdrBody && parts), "G3.once", name(wu), "header-body", c.Pos(wu.Pos()),
		"the certificate body is emitted once: the header's own Certificate field is empty (or not written) when type GUID and data are written",
		"the writer emits the header's Certificate field (which a decoded value still holds) and then the body again as CertType+CertData")
}

func isEmptySlice(v ssa.Value) bool {
	if ir.IsNilConst(v) {
		return true
	}
	if mk, ok := v.(*ssa.MakeSlice); ok {
		n, isK := ir.ConstInt(mk.Len)
		return isK && n == 0
	}
	if sl, ok := v.(*ssa.Slice); ok {
		if a, ok := sl.X.(*ssa.Alloc); ok {
			if n, ok := byteLenAny(a); ok && n == 0 {
				return true
			}
		}
	}
	return false
}

// certificateCleared: value hdr (a WINCertificate struct value) has its
// Certificate cleared before being stored.
func (c *Ctx) certificateCleared(fn *ssa.Function, hdr ssa.Value, at *ssa.Store) bool {
	ld, ok := hdr.(*ssa.UnOp)
	if !ok || ld.Op != token.MUL {
		return false
	}
	a, ok := ld.X.(*ssa.Alloc)
	if !ok {
		return false
	}
	for _, r := range *a.Referrers() {
		if fa, isFA := r.(*ssa.FieldAddr); isFA && ir.FieldID(fa) == sigPkg+".WINCertificate.Certificate" {
			for _, rr := range *fa.Referrers() {
				if st, isSt := rr.(*ssa.Store); isSt && isEmptySlice(st.Val) && (st.Block().Dominates(at.Block())) {
					return true
				}
			}
		}
	}
	return false
}

// ruleNoUpperBound (G13): the decoders accept every declared length the format
// allows. A branch that turns an input away because a decoded length field is
// larger than a constant rejects well-formed descriptors (the writer still
// emits them), so decode(encode(v)) fails for those v.
func (c *Ctx) ruleNoUpperBound(rule string, specs ...string) {
	for _, spec := range specs {
		fn := c.Fn(rule, spec)
		if fn == nil {
			continue
		}
		dv := c.deepViewOf(fn, 3)
		done := map[*ssa.Function]bool{}
		bad := ""
		n := 0
		for _, fr := range dv.framesInOrder() {
			f := fr.fn
			if done[f] || !hasErrorResult(f) {
				continue
			}
			done[f] = true
			for _, ce := range ir.CondEdges(f) {
				cmp, ok := ce.Cond.(*ssa.BinOp)
				if !ok {
					continue
				}
				op := cmp.Op
				if !ce.Truth {
					op = negate(op)
				}
				// normalise to "value OP const"
				val, k := cmp.X, cmp.Y
				if _, isK := ir.ConstInt(k); !isK {
					if _, isK2 := ir.ConstInt(val); !isK2 {
						continue
					}
					val, k = k, val
					op = flip(op)
				}
				if op != token.GTR && op != token.GEQ {
					continue
				}
				// the compared value derives from a decoded length/size field
				// (an arithmetic expression over the field itself, not a counter that was
				// initialised from it)
				isLen := false
				for sym, cf := range affineOf(val, 0).T {
					if cf > 0 && (strings.HasSuffix(sym, ".Length") || strings.HasSuffix(sym, ".ListSize")) {
						isLen = true
					}
				}
				if !isLen {
					continue
				}
				n++
				// the edge leads to failing returns only
				allFail, some := true, false
				for _, cls := range retClassesFrom(f, f.Blocks[ce.Edge.To], ce.Edge.From) {
					some = true
					if cls != "fail" {
						allFail = false
					}
				}
				// certificate data of up to 64 KiB is in range: dwLength up to 64 KiB + 24
				if kv, _ := ir.ConstInt(k); some && allFail && kv < 65536+24 {
					bad = fmt.Sprintf("%s rejects inputs whose declared length is above %d at %s", name(f), kv, c.Pos(ir.BlockPos(f.Blocks[ce.Edge.To])))
				}
			}
		}
		c.R.Check(bad == "", rule, name(fn), "length-upper-bound", c.Pos(fn.Pos()),
			fmt.Sprintf("no declared length the format allows is rejected for being large (%d comparisons of length fields with constants examined)", n), bad+": descriptors the encoder produces are refused by the decoder")
	}
}

// ruleAppendOnly (G15.append): an encoder adds its bytes at the end of the
// buffer it is given. Bytes that are already in the buffer belong to whoever
// wrote them; patching the buffer's content at an offset counted from its
// start (instead of from where this structure begins: an offset remembered
// from Len() before writing) corrupts earlier content whenever the buffer is
// not empty.
func (c *Ctx) ruleAppendOnly(rule string, specs ...string) {
	for _, spec := range specs {
		fn := c.Fn(rule, spec)
		if fn == nil {
			continue
		}
		dv := c.deepViewOf(fn, 3)
		var stream *ssa.Parameter
		for _, p := range fn.Params {
			if ir.NamedTypeID(p.Type()) == "bytes.Buffer" {
				stream = p
			}
		}
		if stream == nil {
			c.R.Okf(rule, name(fn), "append-only", c.Pos(fn.Pos()), "the encoder writes to an io.Writer: it cannot reach bytes already written")
			continue
		}
		// base: v is (a reslice of) stream.Bytes(); returns the accumulated low bound
		var base func(v ssa.Value, fr *frame, depth int) (Affine, bool)
		base = func(v ssa.Value, fr *frame, depth int) (Affine, bool) {
			if depth > 8 {
				return Affine{}, false
			}
			r := dv.resolve(ir.StripConv(v), fr)
			switch x := r.v.(type) {
			case *ssa.Call:
				if ir.CallID(x) == "bytes.Buffer.Bytes" && dv.isRootParam(x.Call.Args[0], r.fr, stream) {
					return constAffine(0), true
				}
			case *ssa.Slice:
				inner, ok := base(x.X, r.fr, depth+1)
				if !ok {
					return Affine{}, false
				}
				if x.Low != nil {
					inner = inner.add(dv.affine(x.Low, r.fr, nil, 0), 1)
				}
				return inner, true
			}
			return Affine{}, false
		}
		bad, undecided := "", ""
		judge := func(off Affine, at ssa.Instruction) {
			rel := false
			for _, v := range off.Sym {
				if lc, ok := v.(*ssa.Call); ok && (ir.CallID(lc) == "bytes.Buffer.Len" || ir.CallID(lc) == "builtin.len") {
					rel = true
				}
			}
			switch {
			case rel:
			case off.isConst():
				bad = fmt.Sprintf("the buffer's content is overwritten at %s at offset %d from the start of the buffer, not from the start of this structure", c.IPos(at), off.K)
			default:
				undecided = "the content of the buffer is patched at " + c.IPos(at) + " at offset " + off.String()
			}
		}
		for _, di := range dv.order {
			switch x := di.i.(type) {
			case *ssa.Call:
				id := ir.CallID(x)
				args := ir.CallArgs(x)
				pos := -1
				switch {
				case id == "builtin.copy":
					pos = 0
				case strings.HasPrefix(id, "encoding/binary.") && strings.Contains(id[strings.LastIndex(id, ".")+1:], "PutUint"):
					pos = len(args) - 2
				}
				if pos < 0 || pos >= len(args) {
					continue
				}
				if off, ok := base(args[pos], di.fr, 0); ok {
					judge(off, x)
				}
			case *ssa.Store:
				if ia, ok := x.Addr.(*ssa.IndexAddr); ok {
					if off, ok := base(ia.X, di.fr, 0); ok {
						judge(off.add(dv.affine(ia.Index, di.fr, nil, 0), 1), x)
					}
				}
			}
		}
		if bad == "" && undecided != "" {
			c.R.Infof(rule, name(fn), "append-only", c.Pos(fn.Pos()), "not decided for this shape: "+undecided)
			continue
		}
		c.R.Check(bad == "", rule, name(fn), "append-only", c.Pos(fn.Pos()), "the encoder only appends: bytes already in the caller's buffer are not modified", bad)
	}
}

// ruleShortCopy (G16.short): a fixed-width field filled with copy() from a
// slice whose length the input decides is only complete if the length was
// checked: copy() stops silently at the shorter operand and leaves the rest of
// the field zero, so a body shorter than the field decodes to a made-up value.
func (c *Ctx) ruleShortCopy(rule string, specs ...string) {
	for _, spec := range specs {
		fn := c.Fn(rule, spec)
		if fn == nil {
			continue
		}
		dv := c.deepViewOf(fn, 3)
		n := 0
		for _, di := range dv.order {
			call, ok := di.i.(*ssa.Call)
			if !ok || ir.CallID(call) != "builtin.copy" || !c.P.InLib(di.fr.fn) {
				continue
			}
			dst, src := call.Call.Args[0], call.Call.Args[1]
			dl := dv.sliceLen(dst, di.fr)
			if !dl.isConst() || dl.K == 0 {
				continue
			}
			// the destination is (part of) a fixed array
			if sl, isSl := dv.resolve(dst, di.fr).v.(*ssa.Slice); !isSl {
				continue
			} else if pt, isP := sl.X.Type().Underlying().(*types.Pointer); !isP {
				continue
			} else if _, isArr := pt.Elem().Underlying().(*types.Array); !isArr {
				continue
			}
			sLen := dv.sliceLen(src, di.fr)
			if sLen.isConst() {
				continue
			}
			n++
			// a comparison of the source's length or of the copy count dominates / follows
			guarded := false
			srcRoot := dv.resolve(ir.StripConv(src), di.fr)
			for sl, ok := srcRoot.v.(*ssa.Slice); ok; sl, ok = srcRoot.v.(*ssa.Slice) {
				srcRoot = dv.resolve(sl.X, srcRoot.fr)
			}
			for _, ce := range ir.CondEdges(di.fr.fn) {
				for v := range c.sliceOf(ce.Cond) {
					if v == ssa.Value(call) {
						guarded = true
					}
					if lc, isC := v.(*ssa.Call); isC && ir.CallID(lc) == "builtin.len" {
						lr := dv.resolve(ir.StripConv(lc.Call.Args[0]), di.fr)
						for sl, ok := lr.v.(*ssa.Slice); ok; sl, ok = lr.v.(*ssa.Slice) {
							lr = dv.resolve(sl.X, lr.fr)
						}
						if lr.same(srcRoot) {
							guarded = true
						}
					}
				}
			}
			key := fmt.Sprintf("copy#%d", n)
			c.R.Check(guarded, rule, name(fn), key, c.IPos(call), "a fixed-width field copied from input-sized bytes is preceded by a length check (or the copy count is tested)",
				fmt.Sprintf("%d bytes are copied into a fixed field from a slice of length %s and neither that length nor the number of bytes copied is tested anywhere in %s: a shorter source leaves the rest of the field zero", dl.K, sLen.String(), name(di.fr.fn)))
		}
		if n == 0 {
			c.R.Okf(rule, name(fn), "scan", c.Pos(fn.Pos()), "no fixed-width field is filled by copy() from bytes of input-dependent length")
		}
	}
}

// efiTimeRanges: the values UEFI (section 8.3, EFI_TIME) allows per field.
var efiTimeRanges = map[string][][2]int64{
	"Year": {{1900, 9999}}, "Month": {{1, 12}}, "Day": {{1, 31}}, "Hour": {{0, 23}}, "Minute": {{0, 59}}, "Second": {{0, 59}},
	"Nanosecond": {{0, 999999999}}, "TimeZone": {{-1440, 1440}, {2047, 2047}},
}

// ruleTimeRange (G17.time): the descriptor decoder may validate the timestamp,
// but it must not refuse a value the specification allows: every comparison
// of an EFI_TIME field with a constant whose outcome leads to rejection on all
// paths is evaluated on the boundary values of the field's legal range.
func (c *Ctx) ruleTimeRange(rule, spec string) {
	fn := c.Fn(rule, spec)
	if fn == nil {
		return
	}
	dv := c.deepViewOf(fn, 4)
	timeField := func(v ssa.Value) string {
		id := ir.FieldID(ir.StripConv(v))
		if ld, ok := ir.StripConv(v).(*ssa.UnOp); ok && ld.Op == token.MUL {
			id = ir.FieldID(ld.X)
		}
		if strings.HasPrefix(id, utilPkg+".EFITime.") {
			return strings.TrimPrefix(id, utilPkg+".EFITime.")
		}
		return ""
	}
	// all paths from the edge end in a rejecting return
	var rejects func(g *ssa.Function, from, to int) bool
	rejects = func(g *ssa.Function, from, to int) bool {
		seen := map[[2]int]bool{}
		var walk func(b, pred *ssa.BasicBlock) bool
		walk = func(b, pred *ssa.BasicBlock) bool {
			k := [2]int{b.Index, pred.Index}
			if seen[k] {
				return true
			}
			seen[k] = true
			if ret, ok := b.Instrs[len(b.Instrs)-1].(*ssa.Return); ok {
				if len(ret.Results) == 0 {
					return false
				}
				onEdge := func(v ssa.Value) ssa.Value {
					if ph, ok := v.(*ssa.Phi); ok && ph.Block() == b {
						for i, p := range b.Preds {
							if p == pred {
								return ph.Edges[i]
							}
						}
					}
					return v
				}
				last := onEdge(ret.Results[len(ret.Results)-1])
				if isErrorType(last.Type()) {
					return definitelyNonNilErr(last, 0)
				}
				first := onEdge(ret.Results[0])
				if isBoolType(first.Type()) {
					kc, ok := first.(*ssa.Const)
					return ok && kc.Value != nil && !constant.BoolVal(kc.Value)
				}
				return false
			}
			if len(b.Succs) == 0 {
				return true // panic / exit
			}
			for _, s := range b.Succs {
				if !walk(s, b) {
					return false
				}
			}
			return true
		}
		return walk(g.Blocks[to], g.Blocks[from])
	}
	holds := func(op token.Token, v, k int64) bool {
		switch op {
		case token.LSS:
			return v < k
		case token.LEQ:
			return v <= k
		case token.GTR:
			return v > k
		case token.GEQ:
			return v >= k
		case token.EQL:
			return v == k
		case token.NEQ:
			return v != k
		}
		return false
	}
	type atom struct {
		field string
		op    token.Token
		k     int64
		truth bool
	}
	atomOf := func(ce ir.CondEdge) (atom, bool) {
		bo, ok := ce.Cond.(*ssa.BinOp)
		if !ok {
			return atom{}, false
		}
		op := bo.Op
		f, kv := timeField(bo.X), bo.Y
		if f == "" {
			f, kv = timeField(bo.Y), bo.X
			switch op { // k OP field  ==  field OP' k
			case token.LSS:
				op = token.GTR
			case token.LEQ:
				op = token.GEQ
			case token.GTR:
				op = token.LSS
			case token.GEQ:
				op = token.LEQ
			}
		}
		k, isK := ir.ConstInt(ir.StripConv(kv))
		if !isK {
			// a package-level variable that only its initialiser assigns
			if ld, isLd := ir.StripConv(kv).(*ssa.UnOp); isLd && ld.Op == token.MUL {
				if gl, isG := ld.X.(*ssa.Global); isG && gl.Pkg != nil {
					if init, g2 := c.globalInit(gl.Pkg.Pkg.Path(), gl.Name()); g2 != nil && c.globalWrittenOutsideInit(g2) == "" {
						k, isK = init[""]
					}
				}
			}
		}
		if f == "" || !isK {
			return atom{}, false
		}
		return atom{f, op, k, ce.Truth}, true
	}
	n := 0
	doneFn := map[*ssa.Function]bool{}
	for _, fr := range dv.framesInOrder() {
		g := fr.fn
		if doneFn[g] || !c.P.InLib(g) {
			continue
		}
		doneFn[g] = true
		for _, ce := range ir.CondEdges(g) {
			at, ok := atomOf(ce)
			if !ok || efiTimeRanges[at.field] == nil {
				continue
			}
			if !rejects(g, ce.Edge.From, ce.Edge.To) {
				continue
			}
			// a bool helper: its callers in the view must reject on false
			if g != fn && g.Signature.Results().Len() == 1 && isBoolType(g.Signature.Results().At(0).Type()) {
				callersReject := true
				for _, di := range dv.order {
					call, isC := di.i.(*ssa.Call)
					if !isC || ir.Callee(call) != g {
						continue
					}
					rejecting := false
					for _, ce2 := range ir.CondEdges(di.fr.fn) {
						if ce2.Cond == ssa.Value(call) && !ce2.Truth && rejects(di.fr.fn, ce2.Edge.From, ce2.Edge.To) {
							rejecting = true
						}
					}
					if !rejecting {
						callersReject = false
					}
				}
				if !callersReject {
					continue
				}
			}
			n++
			// same-field constraints that hold on the way to this comparison
			var pre []atom
			otherField := false
			others := map[string][]atom{}
			for _, dc := range ir.DominatingConds(g, g.Blocks[ce.Edge.From]) {
				if a2, ok := atomOf(dc); ok {
					if a2.field == at.field {
						pre = append(pre, a2)
					} else if a2.op == token.EQL || a2.op == token.NEQ {
						// a rule that couples two fields (a day that depends on the month): not judged
						otherField = true
					} else {
						others[a2.field] = append(others[a2.field], a2)
					}
				}
			}
			// range checks of other fields that dominate this one: the path is taken by a
			// legal timestamp only if each of them admits a legal value
			infeasible := false
			for f2, as := range others {
				sat := false
				for _, rg := range efiTimeRanges[f2] {
					cands := []int64{rg[0], rg[0] + 1, (rg[0] + rg[1]) / 2, rg[1] - 1, rg[1]}
					for _, a2 := range as {
						cands = append(cands, a2.k-1, a2.k, a2.k+1)
					}
					for _, v := range cands {
						if v < rg[0] || v > rg[1] {
							continue
						}
						all := true
						for _, a2 := range as {
							if holds(a2.op, v, a2.k) != a2.truth {
								all = false
							}
						}
						if all {
							sat = true
						}
					}
				}
				if efiTimeRanges[f2] == nil {
					sat = true
				}
				if !sat {
					infeasible = true
				}
			}
			if infeasible {
				c.R.Okf(rule, name(fn), fmt.Sprintf("%s:%s%s%d=%v", strings.TrimPrefix(name(g), M+"/"), at.field, at.op, at.k, at.truth), c.IPos(ce.If), "the comparison is reached only by timestamps that another field's check has already put outside the legal range")
				continue
			}
			witness := int64(-1 << 62)
			for _, rg := range efiTimeRanges[at.field] {
				for _, v := range []int64{rg[0], rg[0] + 1, (rg[0] + rg[1]) / 2, rg[1] - 1, rg[1], at.k - 1, at.k, at.k + 1} {
					if v < rg[0] || v > rg[1] {
						continue
					}
					okPre := true
					for _, p := range pre {
						if holds(p.op, v, p.k) != p.truth {
							okPre = false
						}
					}
					if okPre && holds(at.op, v, at.k) == at.truth {
						witness = v
					}
				}
			}
			construct := fmt.Sprintf("%s:%s%s%d=%v", strings.TrimPrefix(name(g), M+"/"), at.field, at.op, at.k, at.truth)
			switch {
			case witness == -1<<62:
				c.R.Okf(rule, name(fn), construct, c.IPos(ce.If), "the comparison rejects only values outside the range UEFI allows for the field")
			case otherField:
				c.R.Infof(rule, name(fn), construct, c.IPos(ce.If), fmt.Sprintf("not decided for this shape: %s == %d is rejected here, under a condition on another field of the timestamp", at.field, witness))
			default:
				c.R.Violf(rule, name(fn), construct, c.IPos(ce.If), "the decoder refuses no timestamp that UEFI allows", fmt.Sprintf("a descriptor whose %s is %d (legal: %v) is rejected by the comparison %s %s %d in %s: a well-formed signed update does not decode", at.field, witness, efiTimeRanges[at.field], at.field, at.op, at.k, name(g)))
			}
		}
	}
	if n == 0 {
		c.R.Okf(rule, name(fn), "scan", c.Pos(fn.Pos()), "the decoder rejects no descriptor because of the value of a timestamp field")
	}
}

// inevitablyRejects: every path from the edge from->to of g ends in a return
// that reports failure (a non-nil error or the constant false).
func inevitablyRejects(g *ssa.Function, from, to int) bool {
	seen := map[[2]int]bool{}
	var walk func(b, pred *ssa.BasicBlock) bool
	walk = func(b, pred *ssa.BasicBlock) bool {
		k := [2]int{b.Index, pred.Index}
		if seen[k] {
			return true
		}
		seen[k] = true
		if ret, ok := b.Instrs[len(b.Instrs)-1].(*ssa.Return); ok {
			if len(ret.Results) == 0 {
				return false
			}
			onEdge := func(v ssa.Value) ssa.Value {
				if ph, ok := v.(*ssa.Phi); ok && ph.Block() == b {
					for i, p := range b.Preds {
						if p == pred {
							return ph.Edges[i]
						}
					}
				}
				return v
			}
			last := onEdge(ret.Results[len(ret.Results)-1])
			if isErrorType(last.Type()) {
				return definitelyNonNilErr(last, 0)
			}
			first := onEdge(ret.Results[0])
			if isBoolType(first.Type()) {
				kc, ok := first.(*ssa.Const)
				return ok && kc.Value != nil && !constant.BoolVal(kc.Value)
			}
			return false
		}
		if len(b.Succs) == 0 {
			return true
		}
		for _, s := range b.Succs {
			if !walk(s, b) {
				return false
			}
		}
		return true
	}
	return walk(g.Blocks[to], g.Blocks[from])
}

// ruleBoundary: a comparison "available <= needed" (or an equivalent form)
// whose outcome leads to rejection on all paths refuses the case available ==
// needed. Where needed is exactly the size of the structure that is decoded
// (isWhole), that case is a complete structure and must be accepted.
func (c *Ctx) ruleBoundary(rule string, specs []string, isWhole func(need Affine) bool, why string) {
	n := 0
	counts := map[string]int{}
	done := map[*ssa.Function]bool{}
	for _, spec := range specs {
		fn := c.FnOpt(spec)
		if fn == nil {
			continue
		}
		for _, g := range c.cone(fn) {
			if done[g] {
				continue
			}
			done[g] = true
			for _, ce := range ir.CondEdges(g) {
				bo, ok := ce.Cond.(*ssa.BinOp)
				if !ok || ce.If == nil {
					continue
				}
				isAvail := func(v ssa.Value) bool {
					v = ir.StripConv(v)
					if lc, ok := v.(*ssa.Call); ok {
						id := ir.CallID(lc)
						return id == "builtin.len" || id == "bytes.Buffer.Len" || id == "bytes.Reader.Len"
					}
					if p, ok := v.(*ssa.Parameter); ok {
						return strings.Contains(strings.ToLower(p.Name()), "size") || strings.Contains(strings.ToLower(p.Name()), "len")
					}
					return false
				}
				op := bo.Op
				avail, need := bo.X, bo.Y
				if !isAvail(avail) {
					if !isAvail(bo.Y) {
						continue
					}
					avail, need = bo.Y, bo.X
					op = flip(op)
				}
				if !ce.Truth {
					op = negate(op)
				}
				// the edge is taken when avail == need?
				if op != token.LEQ && op != token.EQL {
					continue
				}
				if os.Getenv("VCHECK_DEBUG") == "bound" {
					fmt.Fprintf(os.Stderr, "bound %s %s rejects=%v need=%s\n", name(g), c.IPos(ce.If), inevitablyRejects(g, ce.Edge.From, ce.Edge.To), affineOf(need, 0).String())
				}
				if !inevitablyRejects(g, ce.Edge.From, ce.Edge.To) {
					continue
				}
				na := affineOf(need, 0)
				if !isWhole(na) {
					continue
				}
				n++
				key := ordinalKey(counts, name(g)+":boundary")
				c.R.Violf(rule, name(g), strings.TrimPrefix(key, name(g)+":"), c.IPos(ce.If), why,
					"the input is refused when the available length equals "+na.String()+" (comparison "+bo.Op.String()+" at "+c.IPos(ce.If)+"): exactly as many bytes as the structure needs are taken for too few")
			}
		}
	}
	if n == 0 {
		c.R.Okf(rule, "-", "scan", "-", why+": no rejecting comparison refuses the exact size")
	}
}
