package rules

import (
	"fmt"
	"go/constant"
	"go/token"
	"go/types"
	"os"
	"strings"

	"golang.org/x/tools/go/ssa"

	"verif/checker/internal/ir"
)

func init() { Registry["C06"] = checkC06 }

// globalInit reads the constant initialiser of a package-level variable from
// the package init function: scalar value under "", struct fields under their
// name, array elements under "Field[i]".
func (c *Ctx) globalInit(pkgPath, nm string) (map[string]int64, *ssa.Global) {
	sp := c.P.SSAPkgs[pkgPath]
	if sp == nil {
		return nil, nil
	}
	g, ok := sp.Members[nm].(*ssa.Global)
	if !ok {
		return nil, nil
	}
	out := map[string]int64{}
	init := sp.Func("init")
	if init == nil {
		return out, g
	}
	var pathOf func(addr ssa.Value) (string, bool)
	pathOf = func(addr ssa.Value) (string, bool) {
		switch x := addr.(type) {
		case *ssa.Global:
			return "", x == g
		case *ssa.FieldAddr:
			p, ok := pathOf(x.X)
			if !ok {
				return "", false
			}
			f := ir.FieldOf(x)
			if p != "" {
				p += "."
			}
			return p + f.Name(), true
		case *ssa.IndexAddr:
			p, ok := pathOf(x.X)
			if !ok {
				return "", false
			}
			k, isK := ir.ConstInt(x.Index)
			if !isK {
				return "", false
			}
			return fmt.Sprintf("%s[%d]", p, k), true
		}
		return "", false
	}
	instrsOf(init, func(i ssa.Instruction) {
		st, ok := i.(*ssa.Store)
		if !ok {
			return
		}
		if p, ok := pathOf(st.Addr); ok {
			if n, isK := evalConst(st.Val); isK {
				out[p] = n
			}
		}
	})
	return out, g
}

// globalWrittenOutsideInit: some library function other than the package
// initialiser stores to the global (or to a part of it).
func (c *Ctx) globalWrittenOutsideInit(g *ssa.Global) string {
	where := ""
	for _, fn := range c.P.LibFunctions() {
		if fn.Name() == "init" || strings.HasPrefix(fn.Name(), "init#") {
			continue
		}
		instrsOf(fn, func(i ssa.Instruction) {
			if st, ok := i.(*ssa.Store); ok && ir.RootOf(st.Addr) == ssa.Value(g) {
				where = c.IPos(st)
			}
		})
	}
	return where
}

func (c *Ctx) constGlobal(rule, pkg, nm string, want map[string]int64, what string) {
	got, g := c.globalInit(pkg, nm)
	if g == nil {
		c.R.Undecf(rule, shortID(pkg)+"."+nm, "init", "-", what, "package variable not found")
		return
	}
	var bad []string
	for k, v := range want {
		if gv, ok := got[k]; !ok || gv != v {
			bad = append(bad, fmt.Sprintf("%s is %#x, want %#x", nm+dot(k), got[k], v))
		}
	}
	if w := c.globalWrittenOutsideInit(g); w != "" {
		bad = append(bad, "the variable is assigned outside its initialiser at "+w)
	}
	c.R.Check(len(bad) == 0, rule, shortID(pkg)+"."+nm, "init", c.Pos(g.Pos()), what, strings.Join(bad, "; "))
}

func dot(k string) string {
	if k == "" {
		return ""
	}
	return "." + k
}

func checkC06(c *Ctx) {
	// the SignedData an independent verifier must accept is the one SignPKCS7 emits (shared with C05)
	checkC05(c)
	// the prepared update can be encoded any number of times: encoding it does not consume it
	c.rulePure([]string{"efi/signature.(efibytes).Marshal", "efi/signature.(efibytes).Bytes", "efi/signature.(*EFIVariableAuthentication2).Marshal"})
	c.R.Floor("E.pure", 3)
	utilP := M + "/efi/util"
	// ---- I1: UTC
	timeGetters := map[string]bool{"time.Time.Year": true, "time.Time.Month": true, "time.Time.Day": true, "time.Time.Hour": true, "time.Time.Minute": true, "time.Time.Second": true,
		"time.Time.Nanosecond": true, "time.Time.Date": true, "time.Time.Clock": true}
	n := 0
	counts := map[string]int{}
	for _, fn := range c.P.LibFunctions() {
		if fn.Pkg == nil || fn.Pkg.Pkg.Path() != utilP {
			continue
		}
		fn := fn
		// only functions that build an EFITime
		builds := false
		instrsOf(fn, func(i ssa.Instruction) {
			if st, ok := i.(*ssa.Store); ok && strings.HasPrefix(ir.FieldID(st.Addr), utilP+".EFITime.") {
				builds = true
			}
		})
		if !builds {
			continue
		}
		instrsOf(fn, func(i ssa.Instruction) {
			call, ok := i.(*ssa.Call)
			if !ok || !timeGetters[ir.CallID(call)] {
				return
			}
			n++
			key := ordinalKey(counts, name(fn)+":"+strings.TrimPrefix(ir.CallID(call), "time.Time."))
			s := c.Slicer()
			s.BindRoot = true
			sl := s.Slice(call.Call.Args[0])
			utc := len(ir.CallsIn(sl, "time.Time.UTC")) > 0
			for _, in := range ir.CallsIn(sl, "time.Time.In") {
				if isGlobalLoad(in.Call.Args[1], "time.UTC") {
					utc = true
				}
			}
			c.R.Check(utc, "I1.utc", name(fn), strings.TrimPrefix(key, name(fn)+":"), c.IPos(call),
				"EFI_TIME fields are taken from a time converted to UTC", "the time value does not pass through Time.UTC() / In(time.UTC): a host in another zone emits local wall-clock time")
		})
	}
	if n == 0 {
		c.R.Undecf("I1.utc", "efi/util", "time-getters", "-", "the construction of EFI_TIME from a time.Time must be identifiable", "no function storing EFITime fields from time.Time getters found")
	}
	// ---- I2: zero fields
	zeroFields := map[string]bool{"Pad1": true, "Nanosecond": true, "TimeZone": true, "Daylight": true, "Pad2": true}
	okZ, detZ := true, ""
	for _, fn := range c.P.LibFunctions() {
		fn := fn
		instrsOf(fn, func(i ssa.Instruction) {
			st, ok := i.(*ssa.Store)
			if !ok {
				return
			}
			id := ir.FieldID(st.Addr)
			if !strings.HasPrefix(id, utilP+".EFITime.") || !zeroFields[strings.TrimPrefix(id, utilP+".EFITime.")] {
				return
			}
			if k, isK := evalConst(st.Val); !isK || k != 0 {
				// a decoder stores what it read from its input: that is not the construction of a new timestamp
				fromInput := false
				for v := range c.sliceOfLocal(st.Val) {
					if call, isC := v.(*ssa.Call); isC {
						if _, _, put, isU := uintCallWidth(ir.CallID(call)); isU && !put {
							fromInput = true
						}
					}
					if ld, isLd := v.(*ssa.UnOp); isLd {
						if _, isIA := ld.X.(*ssa.IndexAddr); isIA {
							fromInput = true
						}
					}
				}
				if fromInput && (c.readCone()[fn] || hasByteSliceParam(fn)) {
					return
				}
				okZ, detZ = false, "field "+strings.TrimPrefix(id, utilP+".")+" is set at "+c.IPos(st)+"; the descriptor timestamp must have pad, nanosecond, timezone and daylight zero"
			}
		})
	}
	c.R.Check(okZ, "I2.zero", "efi/util.EFITime", "pad-ns-tz-dst", "-", "pad, nanosecond, timezone and daylight of a new EFI_TIME stay zero", detZ)

	// ---- I4: descriptor constants
	c.constGlobal("I4.const", sigPkg, "WIN_CERTIFICATE_REVISION", map[string]int64{"": 0x0200}, "wRevision is 0x0200")
	c.constGlobal("I4.const", sigPkg, "WIN_CERT_TYPE_EFI_GUID", map[string]int64{"": 0x0EF1}, "wCertificateType is WIN_CERT_TYPE_EFI_GUID (0x0EF1)")
	c.constGlobal("I4.const", sigPkg, "EFI_CERT_TYPE_PKCS7_GUID", map[string]int64{"Data1": 0x4aafd29d, "Data2": 0x68df, "Data3": 0x49ee,
		"Data4[0]": 0x8a, "Data4[1]": 0xa9, "Data4[2]": 0x34, "Data4[3]": 0x7d, "Data4[4]": 0x37, "Data4[5]": 0x56, "Data4[6]": 0x65, "Data4[7]": 0xa7}, "CertType is EFI_CERT_TYPE_PKCS7_GUID 4aafd29d-68df-49ee-8aa9-347d375665a7")
	if fn := c.Fn("I4.const", "efi/signature.NewEFIVariableAuthentication2"); fn != nil {
		want := map[string]func(v ssa.Value) (bool, string){
			sigPkg + ".WINCertificate.Length": func(v ssa.Value) (bool, string) {
				k, isK := evalConst(v)
				return isK && k == 24, "initial dwLength must be 24 (8 header + 16 type GUID)"
			},
			sigPkg + ".WINCertificate.Revision": func(v ssa.Value) (bool, string) {
				return isGlobalLoad(v, sigPkg+".WIN_CERTIFICATE_REVISION") || constIs(v, 0x0200), "revision must be WIN_CERTIFICATE_REVISION"
			},
			sigPkg + ".WINCertificate.CertType": func(v ssa.Value) (bool, string) {
				return isGlobalLoad(v, sigPkg+".WIN_CERT_TYPE_EFI_GUID") || constIs(v, 0x0EF1), "certificate type must be WIN_CERT_TYPE_EFI_GUID"
			},
			sigPkg + ".WinCertificateUEFIGUID.CertType": func(v ssa.Value) (bool, string) {
				return isGlobalLoad(v, sigPkg+".EFI_CERT_TYPE_PKCS7_GUID"), "type GUID must be EFI_CERT_TYPE_PKCS7_GUID"
			},
			sigPkg + ".EFIVariableAuthentication2.Time": func(v ssa.Value) (bool, string) {
				sl := c.Slicer().Slice(v)
				return len(ir.CallsIn(sl, utilP+".NewEFITime")) > 0, "timestamp must come from NewEFITime"
			},
		}
		seen := map[string]bool{}
		var bad []string
		dvn := c.deepViewOf(fn, 2)
		dvn.each(func(i ssa.Instruction, fr *frame, seq int) {
			st, ok := i.(*ssa.Store)
			if !ok {
				return
			}
			if chk, ok := want[ir.FieldID(st.Addr)]; ok {
				seen[ir.FieldID(st.Addr)] = true
				val := st.Val
				if ir.FieldID(st.Addr) == sigPkg+".WINCertificate.Length" {
					// 24 + len(x) with x resolving to nil is 24
					a := affineOf(val, 0)
					for sym, cf := range a.T {
						if lc, isCall := a.Sym[sym].(*ssa.Call); isCall && cf == 1 && strings.HasPrefix(sym, "len(") {
							if r := dvn.resolve(ir.StripConv(lc.Call.Args[0]), fr); ir.IsNilConst(r.v) {
								delete(a.T, sym)
							}
						}
					}
					if a.isConst() && a.K == 24 {
						return
					}
				}
				if good, why := chk(dvn.resolve(val, fr).v); !good {
					if good2, _ := chk(val); !good2 {
						bad = append(bad, why)
					}
				}
			}
		})
		for k := range want {
			if !seen[k] {
				bad = append(bad, "field "+shortID(k)+" is not initialised")
			}
		}
		c.R.Check(len(bad) == 0, "I4.const", name(fn), "defaults", c.Pos(fn.Pos()), "a new descriptor has dwLength 24, revision 0x0200, type 0x0EF1, the PKCS7 type GUID and a fresh timestamp", strings.Join(bad, "; "))
	}

	c.signEFIVariableRules()

	// descriptor writer layout (shared with C10)
	if w := c.Fn("I7.layout", "efi/signature.WriteEFIVariableAuthencation2"); w != nil {
		all, why := c.wireLeaves(w, false)
		// the fixed-width positions decide the layout; the variable runs (an emptied
		// header body, the certificate data) are judged by the C10 rules
		var wl []leaf
		for _, l := range all {
			if l.width >= 0 {
				wl = append(wl, l)
			}
		}
		want := []string{"Year", "Month", "Day", "Hour", "Minute", "Second", "Pad1", "Nanosecond", "TimeZone", "Daylight", "Pad2", "Length", "Revision", "CertType", "Data1", "Data2", "Data3", "Data4"}
		if why != "" {
			c.R.Infof("I7.layout", name(w), "descriptor-writer", c.Pos(w.Pos()), "not decided for this shape: the writer's wire sequence cannot be extracted ("+why+")")
			want = nil
		}
		ok, det := len(wl) == len(want) || want == nil, fmt.Sprintf("%d fixed-width wire positions: %s", len(wl), leavesString(wl))
		for k := 0; ok && k < len(want); k++ {
			if !strings.HasSuffix(wl[k].id, "."+want[k]) || (wl[k].order != "LE" && wl[k].order != "-") {
				ok, det = false, fmt.Sprintf("position %d is %s, want %s", k+1, wl[k], want[k])
			}
		}
		if want != nil {
			c.R.Check(ok, "I7.layout", name(w), "descriptor-writer", c.Pos(w.Pos()), "the descriptor is written as EFI_TIME, dwLength, wRevision, wCertificateType, type GUID, CertData (little endian)", det)
		}
	}
	c.R.Floor("I1.utc", 1)
	c.R.Floor("I4.const", 4)
	c.ruleSignedDefinition("I8.samevar")
}

func constIs(v ssa.Value, k int64) bool {
	n, ok := evalConst(v)
	return ok && n == k
}

func sortCalls(cs []ssa.CallInstruction) {
	for i := 1; i < len(cs); i++ {
		for j := i; j > 0 && ir.InstrPos(cs[j]) < ir.InstrPos(cs[j-1]); j-- {
			cs[j], cs[j-1] = cs[j-1], cs[j]
		}
	}
}

var _ = constant.MakeBool
var _ = token.ADD

// signEFIVariableRules (I3, I5, I6): judged on the deep view of SignEFIVariable,
// so helper extraction (signed-data assembly, name encoding, detached signing)
// does not change what the rule sees.
func (c *Ctx) signEFIVariableRules() {
	utilP := M + "/efi/util"
	fn := c.Fn("I3.order", "efi/signature.SignEFIVariable")
	if fn == nil {
		return
	}
	fname := name(fn)
	dv := c.deepViewOf(fn, 3)
	vP := paramByNamed(fn, M+"/efivar.Efivar")
	mP := paramByNamed(fn, M+"/efivar.Marshallable")
	signs := dv.callsTo(M + "/pkcs7.SignPKCS7")
	if len(signs) != 1 || vP == nil || mP == nil {
		c.R.Undecf("I3.order", fname, "SignPKCS7", c.Pos(fn.Pos()), "the signing call must be identifiable", fmt.Sprintf("%d calls of pkcs7.SignPKCS7 in the call tree of SignEFIVariable", len(signs)))
		return
	}
	sign := signs[0].i.(*ssa.Call)
	sfr := signs[0].fr
	// the buffer whose bytes are signed
	content := dv.resolve(sign.Call.Args[3], sfr)
	var bad []string
	var signedBuf dval
	haveBuf := false
	if bc, ok := content.v.(*ssa.Call); ok && ir.CallID(bc) == "bytes.Buffer.Bytes" {
		signedBuf, haveBuf = dv.objectOf(bc.Call.Args[0], content.fr), true
	}
	var authObj dval
	haveAuth := false
	// object identity of the descriptor is judged through carrier structs
	through := func(v ssa.Value, fr *frame) dval {
		old := dv.throughFields
		dv.throughFields = true
		defer func() { dv.throughFields = old }()
		return dv.resolve(v, fr)
	}
	if !haveBuf {
		c.R.Infof("I3.order", fname, "signed-buffer", c.IPos(sign), "not decided for this shape: the signed content is not the Bytes() of a buffer filled with encoding/binary.Write")
	} else {
		var ws []deepWrite
		for _, w := range dv.binaryWrites() {
			if w.stream.same(signedBuf) {
				ws = append(ws, w)
			}
		}
		if len(ws) == 0 {
			c.R.Infof("I3.order", fname, "signed-buffer", c.IPos(sign), "not decided for this shape: the signed buffer is not filled with encoding/binary.Write")
		} else {
			otherWrites := 0
			for _, di := range dv.order {
				if call, isC := di.i.(*ssa.Call); isC {
					switch ir.CallID(call) {
					case "bytes.Buffer.Write", "bytes.Buffer.WriteByte", "bytes.Buffer.WriteString", "bytes.Buffer.ReadFrom":
						if dv.objectOf(call.Call.Args[0], di.fr).same(signedBuf) {
							otherWrites++
						}
					}
				}
			}
			if len(ws) != 5 && otherWrites > 0 {
				c.R.Infof("I3.order", fname, "signed-buffer", c.IPos(sign), "not decided for this shape: the signed buffer is filled partly with encoding/binary.Write and partly with plain Write calls")
			} else if len(ws) != 5 {
				bad = append(bad, fmt.Sprintf("%d values are written to the signed buffer, want name, GUID, attributes, timestamp, payload", len(ws)))
			} else {
				for _, w := range ws {
					if w.order != "LE" {
						bad = append(bad, "a value of the signed buffer is not written little endian")
					}
				}
				s0 := dv.sliceDeep(ws[0].datum.v, ws[0].datum.fr)
				if !s0[vP] || !ir.HasField(s0, M+"/efivar.Efivar.Name") {
					bad = append(bad, "first value does not derive from the variable name")
				}
				if len(ir.CallsIn(s0, utilP+".MarshalUtf16Var")) > 0 {
					bad = append(bad, "the name is encoded with the terminating NUL (MarshalUtf16Var); the signed name is unterminated")
				}
				if ir.HasField(s0, M+"/efivar.Efivar.GUID") || ir.HasField(s0, M+"/efivar.Efivar.Attributes") {
					bad = append(bad, "first value also derives from GUID/attributes")
				}
				if dv.fieldIDOfDeep(ws[1].datum) != M+"/efivar.Efivar.GUID" || ir.NamedTypeID(ws[1].datum.v.Type()) != utilP+".EFIGUID" {
					// ... or the bytes of that structure assembled by hand: Data1, Data2, Data3
					// little endian, then the eight bytes of Data4, all taken from the variable's GUID
					byHand, undecided := false, false
					if d1 := ws[1].datum; isByteSlice(d1.v.Type()) {
						fromGUID := func(v ssa.Value, fr *frame) bool {
							sl := dv.sliceDeep(v, fr)
							return sl[vP] && ir.HasField(sl, M+"/efivar.Efivar.GUID")
						}
						oldTF := dv.throughFields
						dv.throughFields = true
						segs, okS := dv.byteSeq(d1.v, d1.fr, 0)
						dv.throughFields = oldTF
						var ls []leaf
						switch {
						case !okS || dv.segLeaves(segs, &ls) != "":
							undecided = fromGUID(d1.v, d1.fr)
						case len(ls) == 4 && len(segs) == 4:
							byHand = true
							for k, wantF := range []struct {
								name  string
								width int
							}{{"Data1", 4}, {"Data2", 2}, {"Data3", 2}, {"Data4", 8}} {
								l := ls[k]
								if !strings.HasSuffix(l.id, utilP[strings.LastIndex(utilP, "/")+1:]+".EFIGUID."+wantF.name) || l.width != wantF.width || l.order != "LE" && !(wantF.name == "Data4" && l.order == "-") || segs[k].cond || !fromGUID(segs[k].v.v, segs[k].v.fr) {
									byHand = false
								}
							}
						}
					}
					if undecided {
						c.R.Infof("I3.order", fname, "signed-buffer.guid", c.IPos(sign), "not decided for this shape: the second value derives from the variable's GUID but its bytes are not built by a modelled idiom")
					} else if !byHand {
						bad = append(bad, "second value is not the vendor GUID structure of the variable, as given")
					}
				}
				if dv.fieldIDOfDeep(ws[2].datum) != M+"/efivar.Efivar.Attributes" {
					bad = append(bad, "third value is not the variable's attribute mask as given")
				}
				if fieldIDOf(ws[3].datum.v) != sigPkg+".EFIVariableAuthentication2.Time" {
					bad = append(bad, "fourth value is not the descriptor's timestamp")
				} else if ld, ok := ir.StripConv(ws[3].datum.v).(*ssa.UnOp); ok {
					if fa, ok := ld.X.(*ssa.FieldAddr); ok {
						authObj, haveAuth = through(fa.X, ws[3].datum.fr), true
					}
				}
				// payload: bytes of a buffer that m.Marshal filled
				s4 := dv.sliceDeep(ws[4].datum.v, ws[4].datum.fr)
				mOK := false
				for v := range s4 {
					if a, ok := v.(*ssa.Alloc); ok && ir.NamedTypeID(a.Type()) == "bytes.Buffer" {
						for _, r := range *a.Referrers() {
							if call, ok := r.(ssa.CallInstruction); ok && call.Common().IsInvoke() && call.Common().Method.Name() == "Marshal" {
								mOK = true
							}
						}
					}
				}
				if !mOK && !s4[mP] {
					bad = append(bad, "fifth value is not the payload marshalled from m")
				}
			}
			c.R.Check(len(bad) == 0, "I3.order", fname, "signed-buffer", c.IPos(sign), "the signed buffer is name (UTF-16LE, unterminated) || GUID || attributes || timestamp || payload, little endian", strings.Join(bad, "; "))
		}
	}

	// I5: detached content type, stripped ContentInfo, length
	bad = nil
	oid := dv.resolve(sign.Call.Args[2], sfr)
	if !isGlobalLoad(oid.v, M+"/pkcs7.OIDData") {
		bad = append(bad, "the content type passed to SignPKCS7 is not OIDData (the SignedData must be detached)")
	}
	cds := dv.storesToField(sigPkg + ".WinCertificateUEFIGUID.CertData")
	lens := dv.storesToField(sigPkg + ".WINCertificate.Length")
	var certData dval
	haveCD := false
	for _, di := range cds {
		st := di.i.(*ssa.Store)
		// only the store on the descriptor object, not constructor defaults of nil
		if ir.IsNilConst(st.Val) {
			continue
		}
		certData, haveCD = dv.resolve(st.Val, di.fr), true
	}
	if !haveCD {
		bad = append(bad, "CertData is not set")
	} else {
		sl := dv.sliceDeep(certData.v, certData.fr)
		if os.Getenv("VCHECK_DEBUG") == "i5" {
			fmt.Fprintf(os.Stderr, "I5 certData %s in %s; slice %d values; parse=%d sign=%v\n", certData.v, certData.fr, len(sl), len(ir.CallsIn(sl, M+"/pkcs7.ParseContentInfo")), sl[sign])
			for x := range sl {
				fmt.Fprintf(os.Stderr, "   %T %s\n", x, x)
			}
		}
		if len(ir.CallsIn(sl, M+"/pkcs7.ParseContentInfo")) == 0 || !sl[sign] {
			bad = append(bad, "CertData is not the SignPKCS7 result with the outer ContentInfo stripped (ParseContentInfo)")
		} else {
			// exactly the content the parser returned: a bare SignedData, nothing appended
			for _, pc := range ir.CallsIn(sl, M+"/pkcs7.ParseContentInfo") {
				for _, r := range *pc.Referrers() {
					if ex, ok := r.(*ssa.Extract); ok && ex.Index == 1 {
						for _, di := range dv.order {
							if di.i == ssa.Instruction(ex) {
								if exact, decided := dv.exactBytes(certData.v, certData.fr, dval{ex, di.fr}, 0); decided && !exact {
									bad = append(bad, "CertData is built from the stripped SignedData but is not exactly it (bytes are added or removed)")
								}
							}
						}
					}
				}
			}
		}
	}
	okLen := false
	detLen := "dwLength is not updated with the length of the signature"
	for _, di := range lens {
		st := di.i.(*ssa.Store)
		a := affineOf(st.Val, 0)
		// new = old + len(x)  or  new = 24 + len(x), with x the bytes stored as CertData
		var lenSym string
		for k, v := range a.T {
			if v == 1 && strings.HasPrefix(k, "len(") {
				lenSym = k
			}
		}
		if lenSym == "" {
			continue // constructor default
		}
		lc, isCall := a.Sym[lenSym].(*ssa.Call)
		if !isCall {
			continue
		}
		x := dv.resolveConv(lc.Call.Args[0], di.fr)
		cdv := dv.resolveConv(certData.v, certData.fr)
		sameBytes := haveCD && x.same(cdv)
		rest := a.clone()
		delete(rest.T, lenSym)
		baseOK := false
		switch {
		case len(rest.T) == 0 && rest.K == 24:
			baseOK = true
		case len(rest.T) == 1 && rest.K == 0:
			for k, v := range rest.T {
				if v == 1 && strings.HasSuffix(k, ".Length") {
					baseOK = true
				}
			}
		}
		if sameBytes && baseOK {
			okLen = true
		} else {
			detLen = "dwLength is " + a.String() + ", want the initial length (24) plus len() of exactly the bytes stored as CertData"
		}
	}
	if !okLen {
		bad = append(bad, detLen)
	}
	c.R.Check(len(bad) == 0, "I5.length", fname, "CertData+dwLength", c.IPos(sign), "CertData is the bare SignedData of a detached signature and dwLength grows by exactly its length", strings.Join(bad, "; "))

	// I6: one descriptor object: its timestamp is signed, it is emitted first, then the unchanged payload
	bad = nil
	var resBuf dval
	haveRes := false
	for _, r := range ir.Returns(fn) {
		if len(r.Results) == 3 && !ir.IsNilConst(effectiveResult(fn, r, 1)) {
			resBuf, haveRes = dv.objectOf(effectiveResult(fn, r, 1), dv.root), true
			// conversions of a local buffer: efibytes(buf) is a value copy of the buffer
			if ld, ok := ir.StripConv(resBuf.v).(*ssa.UnOp); ok {
				resBuf = dv.objectOf(ld.X, resBuf.fr)
			}
			if haveAuth {
				ro := through(ir.StripConv(effectiveResult(fn, r, 0)), dv.root)
				if ir.StripConv(ro.v) != ir.StripConv(authObj.v) {
					bad = append(bad, "the descriptor returned is not the one whose timestamp was signed")
				}
			}
		}
	}
	type marshalCall struct {
		di   dinstr
		desc bool
		recv dval
	}
	var into []marshalCall
	for _, di := range dv.order {
		call, ok := di.i.(ssa.CallInstruction)
		if !ok {
			continue
		}
		isDesc := ir.CallID(call) == sigPkg+".EFIVariableAuthentication2.Marshal"
		isIface := call.Common().IsInvoke() && call.Common().Method.Name() == "Marshal"
		if !isDesc && !isIface {
			continue
		}
		args := ir.CallArgs(call)
		dst := dv.objectOf(args[len(args)-1], di.fr)
		if ct, ok := dst.v.(*ssa.ChangeType); ok {
			dst = dv.objectOf(ct.X, dst.fr)
		}
		if haveRes && dst.same(resBuf) {
			if isIface {
				// the receiver may be the running element of a literal list of parts
				for _, alt := range dv.alternatives(args[0], di.fr) {
					rv := dval{ir.StripConv(ir.StripIface(alt.v)), alt.fr}
					rv = through(rv.v, rv.fr)
					t := rv.v.Type()
					if p, isP := t.Underlying().(*types.Pointer); isP {
						t = p.Elem()
					}
					into = append(into, marshalCall{di, ir.NamedTypeID(t) == sigPkg+".EFIVariableAuthentication2", rv})
				}
				continue
			}
			into = append(into, marshalCall{di, isDesc, through(ir.StripConv(args[0]), di.fr)})
		}
	}
	switch {
	case !haveRes:
		c.R.Infof("I6.binding", fname, "descriptor+payload", c.Pos(fn.Pos()), "not decided for this shape: the returned Marshallable is not a local buffer")
		return
	case len(into) != 2:
		bad = append(bad, fmt.Sprintf("%d Marshal calls fill the result, want descriptor then payload", len(into)))
	default:
		if !into[0].desc {
			bad = append(bad, "the descriptor is not marshalled first")
		} else if haveAuth && ir.StripConv(into[0].recv.v) != ir.StripConv(authObj.v) {
			bad = append(bad, "the descriptor marshalled into the result is a different object than the one whose timestamp was signed (two clock readings)")
		}
		if into[1].desc || into[1].recv.v != ssa.Value(mP) || into[1].recv.fr != dv.root {
			bad = append(bad, "the payload appended after the descriptor is not m itself")
		}
		if into[0].di.seq > into[1].di.seq {
			bad = append(bad, "payload is marshalled before the descriptor")
		}
	}
	for _, di := range dv.storesToField(sigPkg + ".EFIVariableAuthentication2.Time") {
		if di.fr.fn == fn {
			bad = append(bad, "the timestamp is reassigned at "+c.IPos(di.i))
		}
	}
	if haveAuth {
		if call, ok := ir.StripConv(authObj.v).(*ssa.Call); !ok || ir.CallID(call) != sigPkg+".NewEFIVariableAuthentication2" {
			// the constructor may be inlined into the view: accept a fresh allocation too
			if _, isAlloc := ir.StripConv(authObj.v).(*ssa.Alloc); !isAlloc {
				bad = append(bad, "the descriptor is not created by NewEFIVariableAuthentication2")
			}
		}
	}
	c.R.Check(len(bad) == 0, "I6.binding", fname, "descriptor+payload", c.Pos(fn.Pos()), "one descriptor object: its timestamp is signed, it is emitted first, followed by the unchanged payload", strings.Join(bad, "; "))
}

func hasByteSliceParam(fn *ssa.Function) bool {
	for _, p := range fn.Params {
		if isByteSlice(p.Type()) {
			return true
		}
		if pp, ok := p.Type().Underlying().(*types.Pointer); ok {
			if arr, isArr := pp.Elem().Underlying().(*types.Array); isArr && binarySize(arr.Elem()) == 1 {
				return true
			}
		}
	}
	return false
}

// ruleSignedDefinition (I8.samevar): the variable definition that goes to the
// store after signing is the one that was handed to the signer: name, GUID and
// attributes are part of what is signed, so a definition changed in between is
// written with attributes (or a name) the signature does not cover.
func (c *Ctx) ruleSignedDefinition(rule string) {
	fn := c.Fn(rule, "efivarfs.(*Efivarfs).WriteSignedUpdate")
	if fn == nil {
		return
	}
	vP := paramByNamed(fn, M+"/efivar.Efivar")
	if vP == nil {
		c.R.Infof(rule, name(fn), "same-definition", c.Pos(fn.Pos()), "not decided for this shape: no efivar.Efivar parameter")
		return
	}
	bad := ""
	// stores into the definition (it is spilled to a cell when its fields are assigned)
	if vP.Referrers() != nil {
		for _, r := range *vP.Referrers() {
			st, ok := r.(*ssa.Store)
			if !ok {
				continue
			}
			cell, isA := st.Addr.(*ssa.Alloc)
			if !isA {
				continue
			}
			for _, cr := range *cell.Referrers() {
				fa, isFA := cr.(*ssa.FieldAddr)
				if !isFA {
					continue
				}
				for _, fr := range *fa.Referrers() {
					if s2, isSt := fr.(*ssa.Store); isSt && s2.Addr == ssa.Value(fa) {
						bad = "field " + ir.FieldOf(fa).Name() + " of the definition is assigned at " + c.IPos(s2)
					}
				}
			}
		}
	}
	// both calls receive the parameter
	sawSign, sawWrite := false, false
	instrsOf(fn, func(i ssa.Instruction) {
		call, ok := i.(ssa.CallInstruction)
		if !ok {
			return
		}
		isSign := ir.CallID(call) == sigPkg+".SignEFIVariable"
		isWrite := call.Common().IsInvoke() && call.Common().Method.Name() == "WriteVar" || ir.Callee(call) != nil && ir.Callee(call).Name() == "WriteVar"
		if !isSign && !isWrite {
			return
		}
		for _, a := range ir.CallArgs(call) {
			if ir.NamedTypeID(a.Type()) != M+"/efivar.Efivar" {
				continue
			}
			if !c.sliceOf(a)[vP] {
				bad = "the definition passed at " + c.IPos(i) + " is not the caller's"
			}
			if isSign {
				sawSign = true
			} else {
				sawWrite = true
			}
		}
	})
	if !sawSign || !sawWrite {
		c.R.Infof(rule, name(fn), "same-definition", c.Pos(fn.Pos()), "not decided for this shape: the signing call and the write call with a variable definition are not both found in "+name(fn))
		return
	}
	c.R.Check(bad == "", rule, name(fn), "same-definition", c.Pos(fn.Pos()), "the definition written is the definition signed (name, GUID and attributes are bound by the signature)", bad+": what is written differs from what was signed")
}
