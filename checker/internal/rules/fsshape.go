package rules

import (
	"fmt"
	"go/constant"
	"go/token"
	"go/types"
	"strings"

	"golang.org/x/tools/go/ssa"

	"verif/checker/internal/ir"
)

// Rule family F: shape of the write/read path at the filesystem boundary
// (C11, C12) and the short-write check shared with C15.

// constInt looks a constant up through the type-checked package scope.
func (c *Ctx) constInt(pkgPath, nm string) (int64, bool) {
	var scope *types.Scope
	if pk := c.P.ByPath[pkgPath]; pk != nil {
		scope = pk.Types.Scope()
	} else if sp := c.P.SSAPkgs[pkgPath]; sp != nil {
		scope = sp.Pkg.Scope()
	}
	if scope == nil {
		return 0, false
	}
	k, ok := scope.Lookup(nm).(*types.Const)
	if !ok {
		return 0, false
	}
	v, exact := constant.Int64Val(constant.ToInt(k.Val()))
	return v, exact
}

// evalConst folds integer constants through | & + ^ &^ << and conversions.
func evalConst(v ssa.Value) (int64, bool) {
	v = ir.StripConv(v)
	if n, ok := ir.ConstInt(v); ok {
		return n, true
	}
	if b, ok := v.(*ssa.BinOp); ok {
		x, ok1 := evalConst(b.X)
		y, ok2 := evalConst(b.Y)
		if !ok1 || !ok2 {
			return 0, false
		}
		switch b.Op {
		case token.OR:
			return x | y, true
		case token.AND:
			return x & y, true
		case token.ADD:
			return x + y, true
		case token.XOR:
			return x ^ y, true
		case token.AND_NOT:
			return x &^ y, true
		case token.SHL:
			return x << uint(y), true
		}
	}
	return 0, false
}

// flagCase is one possible constant value of a flag expression together with
// the block it originates from (used to relate it to the append condition).
type flagCase struct {
	val  int64
	from *ssa.BasicBlock // predecessor block of the phi edge / block of the return
	fn   *ssa.Function
	// the value is the entry of a constant lookup table that a boolean key selects:
	// it is taken exactly when key evaluates to keyVal (key == nil otherwise)
	key    ssa.Value
	keyVal bool
	// to: the block of the phi the case flows into along the edge from -> to (nil otherwise)
	to *ssa.BasicBlock
}

// flagCases enumerates the constant values an int expression may take: a
// constant, a phi of cases, `x | const` over cases, or the result of a static
// repo function all of whose returns are such expressions.
func (c *Ctx) flagCases(v ssa.Value, depth int) ([]flagCase, bool) {
	v = ir.StripConv(v)
	if n, ok := evalConst(v); ok {
		var blk *ssa.BasicBlock
		var fn *ssa.Function
		if i, isI := v.(ssa.Instruction); isI {
			blk, fn = i.Block(), i.Parent()
		}
		return []flagCase{{val: n, from: blk, fn: fn}}, true
	}
	if depth > 4 {
		return nil, false
	}
	switch x := v.(type) {
	case *ssa.Phi:
		var out []flagCase
		for k, e := range x.Edges {
			cs, ok := c.flagCases(e, depth+1)
			if !ok {
				return nil, false
			}
			for i := range cs {
				// attribute the case to the incoming edge's predecessor
				cs[i].from, cs[i].fn = x.Block().Preds[k], x.Parent()
				cs[i].to = x.Block()
			}
			out = append(out, cs...)
		}
		return out, true
	case *ssa.BinOp:
		if x.Op == token.OR {
			if k, ok := evalConst(x.Y); ok {
				cs, ok2 := c.flagCases(x.X, depth+1)
				if ok2 {
					for i := range cs {
						cs[i].val |= k
						if cs[i].from == nil {
							cs[i].from, cs[i].fn = x.Block(), x.Parent()
						}
					}
					return cs, true
				}
			}
			if k, ok := evalConst(x.X); ok {
				cs, ok2 := c.flagCases(x.Y, depth+1)
				if ok2 {
					for i := range cs {
						cs[i].val |= k
					}
					return cs, true
				}
			}
		}
	case *ssa.Lookup:
		// table[cond]: a package-level map[bool]int built once by the package
		// initialiser from constants and never updated: one case per key (a key the
		// table does not hold yields the zero value)
		if tab, ok := c.globalBoolIntTable(x.X); ok && !x.CommaOk {
			var out []flagCase
			if k, isK := x.Index.(*ssa.Const); isK && k.Value != nil && k.Value.Kind() == constant.Bool {
				return []flagCase{{val: tab[constant.BoolVal(k.Value)], from: x.Block(), fn: x.Parent()}}, true
			}
			for _, kv := range []bool{false, true} {
				out = append(out, flagCase{val: tab[kv], from: x.Block(), fn: x.Parent(), key: x.Index, keyVal: kv})
			}
			return out, true
		}
	case *ssa.Call:
		if callee := ir.Callee(x); callee != nil && c.P.InLib(callee) {
			var out []flagCase
			for _, r := range ir.Returns(callee) {
				if len(r.Results) != 1 {
					return nil, false
				}
				cs, ok := c.flagCases(r.Results[0], depth+1)
				if !ok {
					return nil, false
				}
				for i := range cs {
					if cs[i].from == nil || cs[i].fn != callee {
						cs[i].from, cs[i].fn = r.Block(), callee
					}
				}
				out = append(out, cs...)
			}
			return out, len(out) > 0
		}
	}
	return nil, false
}

// globalBoolIntTable: m is the load of a package-level map[bool]<integer> that
// the package initialiser builds once from constants and that library code only
// reads (looks up, measures, ranges over); returns its content.
func (c *Ctx) globalBoolIntTable(m ssa.Value) (map[bool]int64, bool) {
	ld, ok := m.(*ssa.UnOp)
	if !ok || ld.Op != token.MUL {
		return nil, false
	}
	g, ok := ld.X.(*ssa.Global)
	if !ok || g.Pkg == nil {
		return nil, false
	}
	mt, ok := g.Type().Underlying().(*types.Pointer).Elem().Underlying().(*types.Map)
	if !ok || !isBoolType(mt.Key()) || !isNumeric(mt.Elem()) {
		return nil, false
	}
	for _, fn := range c.P.LibFunctions() {
		if fn.Pkg != g.Pkg || fn.Name() == "init" {
			continue
		}
		bad := false
		for _, f := range withAnon(fn) {
			instrsOf(f, func(i ssa.Instruction) {
				for _, op := range i.Operands(nil) {
					if *op != ssa.Value(g) {
						continue
					}
					// the variable itself is only loaded, and the loaded map only read
					l, isLd := i.(*ssa.UnOp)
					if !isLd || l.Op != token.MUL || l.Referrers() == nil {
						bad = true
						continue
					}
					for _, u := range *l.Referrers() {
						switch y := u.(type) {
						case *ssa.Lookup:
							if y.X != ssa.Value(l) {
								bad = true
							}
						case *ssa.Range, *ssa.DebugRef:
						case *ssa.Call:
							if id := ir.CallID(y); id != "builtin.len" {
								bad = true
							}
						default:
							bad = true
						}
					}
				}
			})
		}
		if bad {
			return nil, false
		}
	}
	init := g.Pkg.Func("init")
	if init == nil {
		return nil, false
	}
	var mk ssa.Value
	n := 0
	instrsOf(init, func(i ssa.Instruction) {
		if st, ok := i.(*ssa.Store); ok && st.Addr == ssa.Value(g) {
			mk, n = st.Val, n+1
		}
	})
	if _, isMake := mk.(*ssa.MakeMap); n != 1 || !isMake {
		return nil, false
	}
	out := map[bool]int64{}
	ok = true
	for _, u := range *mk.Referrers() {
		switch y := u.(type) {
		case *ssa.MapUpdate:
			k, isK := y.Key.(*ssa.Const)
			v, isV := evalConst(y.Value)
			if y.Map != mk || !isK || !isV || k.Value == nil || k.Value.Kind() != constant.Bool {
				ok = false
				continue
			}
			if _, dup := out[constant.BoolVal(k.Value)]; dup {
				ok = false
			}
			out[constant.BoolVal(k.Value)] = v
		case *ssa.Store:
			if y.Addr != ssa.Value(g) {
				ok = false
			}
		case *ssa.DebugRef:
		default:
			ok = false
		}
	}
	return out, ok
}

// appendCondEdges finds, in fn, the edges on which `attrs & APPEND_WRITE != 0`
// holds, where attrs is a value of type attributes.Attributes.
func (c *Ctx) appendCondEdges(fn *ssa.Function) []ir.Edge {
	var out []ir.Edge
	for _, ce := range ir.CondEdges(fn) {
		if setWhenTrue, ok := c.appendBitTest(ce.Cond); ok {
			if setWhenTrue == ce.Truth {
				out = append(out, ce.Edge)
			}
			continue
		}
		// the test was made by the caller and handed down as a flag: every call
		// site in the library passes the outcome of such a test, with one polarity
		p, isP := ce.Cond.(*ssa.Parameter)
		if !isP || !isBoolType(p.Type()) || fn.Object() == nil || fn.Object().Exported() {
			continue
		}
		node := c.P.CallGraph().Nodes[fn]
		if node == nil {
			continue
		}
		idx := -1
		for k, q := range fn.Params {
			if q == p {
				idx = k
			}
		}
		sites, agree, pol := 0, true, false
		for _, in := range node.In {
			if in.Site == nil || !c.P.InLib(in.Caller.Func) {
				continue
			}
			if in.Caller.Func.Synthetic != "" {
				// the wrapper of a promoted method: counts only if something calls it
				if len(in.Caller.In) > 0 {
					agree = false
				}
				continue
			}
			args := ir.CallArgs(in.Site)
			if idx < 0 || idx >= len(args) {
				agree = false
				break
			}
			core, neg := ir.Peel(args[idx])
			swt, ok := c.appendBitTest(core)
			if !ok {
				agree = false
				break
			}
			swt = swt != neg
			if sites > 0 && swt != pol {
				agree = false
			}
			pol = swt
			sites++
		}
		if sites > 0 && agree && pol == ce.Truth {
			out = append(out, ce.Edge)
		}
	}
	return out
}

// appendBitTest: v is a comparison of attrs&EFI_VARIABLE_APPEND_WRITE with 0 or
// with the bit; setWhenTrue tells whether the bit is set when v is true.
func (c *Ctx) appendBitTest(v ssa.Value) (setWhenTrue bool, ok bool) {
	appendBit, okC := c.constInt(M+"/efi/attributes", "EFI_VARIABLE_APPEND_WRITE")
	if !okC {
		return false, false
	}
	cmp, isB := v.(*ssa.BinOp)
	if !isB || (cmp.Op != token.NEQ && cmp.Op != token.EQL) {
		return false, false
	}
	and, isAnd := ir.StripConv(cmp.X).(*ssa.BinOp)
	other := cmp.Y
	if !isAnd {
		and, isAnd = ir.StripConv(cmp.Y).(*ssa.BinOp)
		other = cmp.X
	}
	if !isAnd || and.Op != token.AND {
		return false, false
	}
	k, isK := evalConst(and.Y)
	attrs := and.X
	if !isK {
		k, isK = evalConst(and.X)
		attrs = and.Y
	}
	if !isK || k != appendBit || ir.NamedTypeID(ir.StripConv(attrs).Type()) != M+"/efi/attributes.Attributes" && ir.NamedTypeID(attrs.Type()) != M+"/efi/attributes.Attributes" {
		return false, false
	}
	z, isZ := evalConst(other)
	if !isZ {
		return false, false
	}
	switch {
	case z == 0 && cmp.Op == token.NEQ:
		return true, true
	case z == 0 && cmp.Op == token.EQL:
		return false, true
	case z == appendBit && cmp.Op == token.EQL:
		return true, true
	case z == appendBit && cmp.Op == token.NEQ:
		return false, true
	}
	return false, false
}

type writeTwin struct {
	spec string
	fn   *ssa.Function
}

func (c *Ctx) writeTwins(rule string) []writeTwin {
	var out []writeTwin
	for _, s := range []string{"efivarfs/fswrapper.(*FSWrapper).WriteEfivarsWithGuid", "efi/attributes.WriteEfivarsWithGuid"} {
		if fn := c.Fn(rule, s); fn != nil {
			out = append(out, writeTwin{s, fn})
		}
	}
	return out
}

// fsCalls lists invoke-mode calls on filesystem dependency values in fn (and closures).
func (c *Ctx) fsCalls(fn *ssa.Function, method string) []ssa.CallInstruction {
	var out []ssa.CallInstruction
	for _, f := range withAnon(fn) {
		instrsOf(f, func(i ssa.Instruction) {
			call, ok := i.(ssa.CallInstruction)
			if !ok || !call.Common().IsInvoke() {
				return
			}
			if dependencyKind(call.Common().Value.Type()) != "filesystem" {
				return
			}
			if method == "" || call.Common().Method.Name() == method {
				out = append(out, call)
			}
		})
	}
	return out
}

var fsMutators = map[string]bool{"WriteString": true, "WriteAt": true, "Truncate": true, "Seek": true, "Create": true,
	"Remove": true, "RemoveAll": true, "Rename": true, "Chmod": true, "Chown": true, "Chtimes": true, "Mkdir": true, "MkdirAll": true, "Sync": false}

// retClass classifies a return by its error operand.
func retClass(fn *ssa.Function, r *ssa.Return) string {
	if len(r.Results) == 0 || !hasErrorResult(fn) {
		return "maybe"
	}
	return errValClass(r, r.Results[len(r.Results)-1], 0)
}

func errValClass(r *ssa.Return, v ssa.Value, depth int) string {
	if depth > 5 {
		return "maybe"
	}
	if ir.IsNilConst(v) {
		return "success"
	}
	if definitelyNonNilErr(v, 0) {
		return "fail"
	}
	switch x := v.(type) {
	case *ssa.UnOp:
		if x.Op == token.MUL {
			if a, ok := x.X.(*ssa.Alloc); ok && r != nil {
				// named result read back after rundefers: last store in this block
				var last *ssa.Store
				for _, i := range r.Block().Instrs {
					if st, ok := i.(*ssa.Store); ok && st.Addr == a {
						last = st
					}
				}
				selfAssign := false
				if last != nil {
					if lu, ok := last.Val.(*ssa.UnOp); ok && lu.Op == token.MUL && lu.X == ssa.Value(a) {
						selfAssign = true
					} else {
						return errValClass(r, last.Val, depth+1)
					}
				}
				if last == nil || selfAssign {
					// `return err` on a named result: classified by the dominating
					// nil test of the same cell
					fn := r.Parent()
					for _, ce := range ir.DominatingConds(fn, r.Block()) {
						if e, nilWhenTrue, ok := ir.NilCheck(ce.RawCond); ok {
							if eu, ok := e.(*ssa.UnOp); ok && eu.Op == token.MUL && eu.X == ssa.Value(a) {
								succTrue := ce.RawTruth
								if succTrue != nilWhenTrue {
									return "fail"
								}
							}
						}
					}
				}
			}
		}
	case *ssa.Call, *ssa.Extract:
		// a library helper that only ever returns non-nil errors (error decorators)
		if call, isCall := x.(*ssa.Call); isCall {
			if callee := call.Call.StaticCallee(); callee != nil && callee.Blocks != nil && callee.Pkg != nil &&
				strings.HasPrefix(callee.Pkg.Pkg.Path(), M) && callee.Signature.Results().Len() == 1 && depth < 4 {
				all := true
				for _, cr := range ir.Returns(callee) {
					if errValClass(cr, cr.Results[0], depth+1) != "fail" {
						all = false
					}
				}
				if all && len(ir.Returns(callee)) > 0 {
					return "fail"
				}
			}
		}
		// an error variable returned as is: failing iff the block is behind its non-nil edge
		if r == nil {
			return "maybe"
		}
		fn := r.Parent()
		for _, ce := range ir.DominatingConds(fn, r.Block()) {
			// err == io.EOF / errors.Is(err, X) true => err is non-nil
			if ev, ok := isEOFTest(ce.RawCond); ok && (sameErrValue(ev, v) || ev == v) {
				_, neg := ir.Peel(ce.RawCond)
				core, _ := ir.Peel(ce.RawCond)
				isEq := true
				if bo, ok := core.(*ssa.BinOp); ok && bo.Op == token.NEQ {
					isEq = false
				}
				succTrue := ce.RawTruth
				if (isEq != neg) == succTrue {
					return "fail"
				}
			}
			if e, nilWhenTrue, ok := ir.NilCheck(ce.RawCond); ok && sameErrValue(e, v) {
				succTrue := ce.RawTruth
				if succTrue != nilWhenTrue {
					return "fail"
				}
				return "success"
			}
		}
	}
	return "maybe"
}

// countOnPaths computes, per block, the min and max number (saturated at 2)
// of instructions satisfying pred executed on paths from entry to block exit.
func countOnPaths(fn *ssa.Function, pred func(ssa.Instruction) bool) (minC, maxC map[int]int) {
	own := map[int]int{}
	for _, b := range fn.Blocks {
		for _, i := range b.Instrs {
			if pred(i) {
				own[b.Index]++
			}
		}
	}
	sat := func(x int) int {
		if x > 2 {
			return 2
		}
		return x
	}
	minC, maxC = map[int]int{}, map[int]int{}
	for _, b := range fn.Blocks {
		minC[b.Index], maxC[b.Index] = -1, -1
	}
	minC[0], maxC[0] = sat(own[0]), sat(own[0])
	for iter := 0; iter < 4*len(fn.Blocks)+8; iter++ {
		changed := false
		for _, b := range fn.Blocks {
			if b.Index == 0 {
				continue
			}
			mn, mx := -1, -1
			for _, p := range b.Preds {
				if maxC[p.Index] < 0 {
					continue
				}
				if mn < 0 || minC[p.Index] < mn {
					mn = minC[p.Index]
				}
				if maxC[p.Index] > mx {
					mx = maxC[p.Index]
				}
			}
			if mx < 0 {
				continue
			}
			mn, mx = sat(mn+own[b.Index]), sat(mx+own[b.Index])
			if mn != minC[b.Index] || mx != maxC[b.Index] {
				minC[b.Index], maxC[b.Index] = mn, mx
				changed = true
			}
		}
		if !changed {
			break
		}
	}
	return
}

func paramByType(fn *ssa.Function, basic string) *ssa.Parameter {
	for _, p := range fn.Params {
		if b, ok := p.Type().(*types.Basic); ok && b.Name() == basic {
			return p
		}
	}
	return nil
}

func paramByNamed(fn *ssa.Function, id string) *ssa.Parameter {
	for _, p := range fn.Params {
		if ir.NamedTypeID(p.Type()) == id {
			if fn.Signature.Recv() != nil && p == fn.Params[0] {
				continue
			}
			return p
		}
	}
	return nil
}

func paramBytes(fn *ssa.Function) *ssa.Parameter {
	for _, p := range fn.Params {
		if s, ok := p.Type().Underlying().(*types.Slice); ok {
			if b, ok := s.Elem().Underlying().(*types.Basic); ok && b.Kind() == types.Uint8 {
				return p
			}
		}
	}
	return nil
}

// ruleReadShape: F6 gate, F7 read shape, F8 argument mapping, F11 fresh buffer.
func (c *Ctx) ruleReadShape() {
	// ---- F6: attribute gate in GetVarWithAttributes
	if fn := c.Fn("F6.gate", "efivarfs.(*EFIFS).GetVarWithAttributes"); fn != nil {
		fname := name(fn)
		var unm []ssa.CallInstruction
		instrsOf(fn, func(i ssa.Instruction) {
			if call, ok := i.(ssa.CallInstruction); ok && call.Common().IsInvoke() && call.Common().Method.Name() == "Unmarshal" {
				unm = append(unm, call)
			}
		})
		if len(unm) == 0 {
			c.R.Undecf("F6.gate", fname, "Unmarshal", c.Pos(fn.Pos()), "the decode call must be identifiable", "no Unmarshal call on the caller's Unmarshallable")
		}
		for _, u := range unm {
			good, detail := c.gateBefore(fn, u.Block(), nil, 0)
			if !good && strings.HasPrefix(detail, "not decided") {
				c.R.Infof("F6.gate", fname, "Unmarshal<-Equal", c.IPos(u), detail)
				continue
			}
			c.R.Check(good, "F6.gate", fname, "Unmarshal<-Equal", c.IPos(u), "decoding happens only behind required.Equal(stored) == true", detail)
		}
		// Equal itself is the subset test: every bit of a is set in b
		if eq := c.Fn("F6.gate", "efi/attributes.(Attributes).Equal"); eq != nil {
			what := "Attributes.Equal is the subset test (a & b) == a"
			rets := ir.Returns(eq)
			g, ok := [4]bool{}, false
			if len(rets) == 1 && len(rets[0].Results) == 1 && len(eq.Params) == 2 {
				g, ok = bitPredicate(rets[0].Results[0], eq.Params[0], eq.Params[1])
			}
			switch {
			case !ok:
				c.R.Infof("F6.gate", name(eq), "subset-test", c.Pos(eq.Pos()), "not decided for this shape: the body is not a single comparison of bitwise expressions over the two masks")
			default:
				// per bit: a -> b
				want := [4]bool{true, true, false, true}
				c.R.Check(g == want, "F6.gate", name(eq), "subset-test", c.Pos(eq.Pos()), what, fmt.Sprintf("per bit position the body requires %s, want a implies b", truthTable(g)))
			}
		}
		// false edge returns ErrIncorrectAttributes
		okErr := false
		for _, r := range ir.Returns(fn) {
			if len(r.Results) == 2 {
				sl := c.Slicer().Slice(r.Results[1])
				if ir.HasGlobal(sl, M+"/efivarfs.ErrIncorrectAttributes") {
					okErr = true
				}
			}
		}
		c.R.Check(okErr, "F6.gate", fname, "wrong-attributes-error", c.Pos(fn.Pos()), "a failing gate returns the wrong-attributes error", "no return carries ErrIncorrectAttributes")
	}
	// ---- F7: read shape of the ParseEfivars twins
	for _, s := range []string{"efivarfs/fswrapper.(*FSWrapper).ParseEfivars", "efi/attributes.ParseEfivars"} {
		fn := c.Fn("F7.read", s)
		if fn == nil {
			continue
		}
		c.judgeReadShape(fn)
		c.judgeFresh(fn, "the returned value buffer is freshly constructed on every call", "a return hands out a buffer that is not constructed in this call (shared/cached buffers are drained by the first reader)")
	}
	for _, s := range []string{"efivarfs/fswrapper.(*FSWrapper).ReadEfivarsFile", "efi/attributes.ReadEfivarsFile", "efivarfs/fswrapper.(*FSWrapper).ReadEfivarsWithGuid", "efi/attributes.ReadEfivarsWithGuid"} {
		if fn := c.Fn("F11.fresh", s); fn != nil {
			c.judgeFresh(fn, "the returned value buffer is the parser's freshly constructed buffer", "a return hands out a buffer that does not come from the parser's fresh result")
		}
	}
	c.ruleArgMapping()
}

// ruleArgMapping (F8): the variable definition's name, attributes and GUID reach
// the filesystem layer unchanged, each in its own parameter, on both the write
// and the read side.
func (c *Ctx) ruleArgMapping() {
	// ---- F8: argument mapping in WriteVar
	if fn := c.Fn("F8.args", "efivarfs.(*EFIFS).WriteVar"); fn != nil {
		fname := name(fn)
		vP := paramByNamed(fn, M+"/efivar.Efivar")
		var target *ssa.Call
		instrsOf(fn, func(i ssa.Instruction) {
			if call, ok := i.(*ssa.Call); ok && ir.CallID(call) == M+"/efivarfs/fswrapper.FSWrapper.WriteEfivarsWithGuid" {
				target = call
			}
		})
		if target == nil || vP == nil {
			c.R.Undecf("F8.args", fname, "WriteEfivarsWithGuid", c.Pos(fn.Pos()), "WriteVar forwards to the filesystem writer", "call not found")
		} else {
			args := target.Call.Args // recv, name, attrs, bytes, guid
			var bad []string
			want := []struct {
				idx   int
				field string
			}{{1, "Name"}, {2, "Attributes"}, {4, "GUID"}}
			for _, w := range want {
				// with control dependence: a helper that picks the value by looking at another field
				slr := c.Slicer()
				slr.Control = true
				sl := slr.Slice(args[w.idx])
				if !sl[vP] || !ir.HasField(sl, M+"/efivar.Efivar."+w.field) {
					bad = append(bad, fmt.Sprintf("argument %d does not derive from v.%s", w.idx, w.field))
				}
				for _, o := range want {
					if o.field != w.field && ir.HasField(sl, M+"/efivar.Efivar."+o.field) {
						bad = append(bad, fmt.Sprintf("argument %d also derives from v.%s", w.idx, o.field))
					}
				}
			}
			bs := c.Slicer().Slice(args[3])
			marshalled := false
			for v := range bs {
				if call, ok := v.(*ssa.Call); ok && call.Call.IsInvoke() && call.Call.Method.Name() == "Marshal" {
					marshalled = true
				}
			}
			if !marshalled {
				// object-state: the buffer whose Bytes() is passed received e.Marshal(&b)
				for v := range bs {
					if a, ok := v.(*ssa.Alloc); ok {
						for _, r := range *a.Referrers() {
							if call, ok := r.(ssa.CallInstruction); ok && call.Common().IsInvoke() && call.Common().Method.Name() == "Marshal" {
								marshalled = true
							}
						}
					}
				}
			}
			if !marshalled {
				// the buffer object (however obtained: a pool, a helper) whose Bytes() is passed was
				// handed to e.Marshal in this function
				for v := range bs {
					bc, ok := v.(*ssa.Call)
					if !ok || ir.CallID(bc) != "bytes.Buffer.Bytes" {
						continue
					}
					obj := ir.StripIface(bc.Call.Args[0])
					instrsOf(fn, func(i ssa.Instruction) {
						if call, ok := i.(ssa.CallInstruction); ok && call.Common().IsInvoke() && call.Common().Method.Name() == "Marshal" {
							for _, a := range call.Common().Args {
								if ir.StripIface(a) == obj {
									marshalled = true
								}
							}
						}
					})
				}
			}
			if !marshalled {
				bad = append(bad, "value bytes do not come from e.Marshal")
			}
			c.R.Check(len(bad) == 0, "F8.args", fname, "WriteEfivarsWithGuid.args", c.IPos(target), "WriteVar passes (v.Name, v.Attributes, marshalled value, *v.GUID) to the matching parameters", strings.Join(bad, "; "))
		}
	}
	// the read side: the file looked up is named by (v.Name, *v.GUID) of the same definition
	if fn := c.Fn("F8.args", "efivarfs.(*EFIFS).GetVarWithAttributes"); fn != nil {
		dv := c.deepViewOf(fn, 2)
		calls := dv.callsTo(M + "/efivarfs/fswrapper.FSWrapper.ReadEfivarsWithGuid")
		if len(calls) != 1 {
			c.R.Undecf("F8.args", name(fn), "ReadEfivarsWithGuid", c.Pos(fn.Pos()), "the variable read forwards to the filesystem reader", fmt.Sprintf("%d calls found", len(calls)))
		} else {
			target := calls[0].i.(*ssa.Call)
			f := calls[0].fr.fn
			vP := paramByNamed(f, M+"/efivar.Efivar")
			var bad []string
			want := []struct {
				idx   int
				field string
			}{{1, "Name"}, {2, "GUID"}}
			for _, w := range want {
				slr := c.Slicer()
				slr.Control = true
				sl := slr.Slice(target.Call.Args[w.idx])
				if vP == nil && calls[0].fr != dv.root {
					// the definition is taken apart by the caller and handed to a helper
					// field by field: follow the helper's parameters to the arguments
					vP = paramByNamed(fn, M+"/efivar.Efivar")
					sl = dv.sliceDeep(target.Call.Args[w.idx], calls[0].fr)
				} else if calls[0].fr != dv.root && f != fn && vP != nil && vP.Parent() == fn {
					sl = dv.sliceDeep(target.Call.Args[w.idx], calls[0].fr)
				}
				if vP == nil || !sl[vP] || !ir.HasField(sl, M+"/efivar.Efivar."+w.field) {
					bad = append(bad, fmt.Sprintf("argument %d does not derive from v.%s", w.idx, w.field))
				}
				for _, o := range []string{"Name", "GUID", "Attributes"} {
					if o != w.field && ir.HasField(sl, M+"/efivar.Efivar."+o) {
						bad = append(bad, fmt.Sprintf("argument %d also derives from v.%s", w.idx, o))
					}
				}
			}
			c.R.Check(len(bad) == 0, "F8.args", name(fn), "ReadEfivarsWithGuid.args", c.IPos(target), "the read looks up (v.Name, *v.GUID) of the variable definition", strings.Join(bad, "; "))
		}
	}
}

// streamRead is one consumption of the stream in a deep view.
type streamRead struct {
	call  *ssa.Call
	fr    *frame
	width Affine
	order string // LE/BE for binary.Read, "" for raw reads
	// target: the Alloc the value is decoded into (binary.Read) or the buffer object filled (ReadFull)
	target dval
	raw    bool
}

// streamReads lists the reads from the stream parameter, in program order
// (complete=false if the stream is consumed in a way that is not modelled).
func (d *deepView) streamReads(stream *ssa.Parameter) (reads []streamRead, complete bool) {
	complete = true
	isStream := func(v ssa.Value, fr *frame) bool {
		r := d.objectOf(v, fr)
		return r.fr == d.root && r.v == ssa.Value(stream)
	}
	for _, di := range d.order {
		call, ok := di.i.(*ssa.Call)
		if !ok {
			continue
		}
		args := ir.CallArgs(call)
		uses := false
		for _, a := range args {
			if _, isIface := a.Type().Underlying().(*types.Interface); isIface && isStream(a, di.fr) {
				uses = true
			}
		}
		if !uses {
			continue
		}
		switch ir.CallID(call) {
		case "encoding/binary.Read":
			t := ir.StripIface(args[2])
			tr := d.resolve(t, di.fr)
			w := newAffine()
			pt, isPtr := tr.v.Type().Underlying().(*types.Pointer)
			switch {
			case !isPtr:
				complete = false
				continue
			case isByteSlice(pt.Elem()):
				// *[]byte: as many bytes as the slice is long
				var buf dval
				n := 0
				if a, isA := tr.v.(*ssa.Alloc); isA {
					d.eachStoreTo(a, tr.fr, func(st *ssa.Store, f *frame) { buf, n = d.resolve(st.Val, f), n+1 })
				}
				if mk, isMk := buf.v.(*ssa.MakeSlice); n == 1 && isMk {
					w = d.affine(mk.Len, buf.fr, nil, 0)
					reads = append(reads, streamRead{call: call, fr: di.fr, width: w, order: byteOrderOf(d.resolve(args[1], di.fr).v), target: buf, raw: true})
					continue
				}
				complete = false
				continue
			default:
				n := binarySize(pt.Elem())
				if n < 0 {
					complete = false
					continue
				}
				w.K = int64(n)
				reads = append(reads, streamRead{call: call, fr: di.fr, width: w, order: byteOrderOf(d.resolve(args[1], di.fr).v), target: tr})
			}
		case "io.ReadFull", "io.ReadAtLeast":
			b := d.resolve(args[1], di.fr)
			var w Affine
			var obj dval
			switch x := b.v.(type) {
			case *ssa.MakeSlice:
				w, obj = d.affine(x.Len, b.fr, nil, 0), b
			case *ssa.Slice:
				a, isA := x.X.(*ssa.Alloc)
				if !isA || x.Low != nil || x.High != nil {
					complete = false
					continue
				}
				n, ok := byteLen(a)
				if !ok {
					complete = false
					continue
				}
				w, obj = constAffine(n), dval{a, b.fr}
			default:
				complete = false
				continue
			}
			reads = append(reads, streamRead{call: call, fr: di.fr, width: w, target: obj, raw: true})
		default:
			// the stream handed to a library helper is followed through its frame
			if callee := calleeOrClosure2(call); callee != nil && d.inlinable(callee) && d.frameOfCall(di.fr, call) != nil {
				continue
			}
			complete = false
		}
	}
	return reads, complete
}

// constantAlternative: the value is, or can be (a phi edge, an argument of
// min/max), a positive constant.
func constantAlternative(v ssa.Value, depth int) (int64, bool) {
	if depth > 6 || v == nil {
		return 0, false
	}
	v = ir.StripConv(v)
	if k, isK := ir.ConstInt(v); isK {
		return k, k > 0
	}
	switch x := v.(type) {
	case *ssa.Phi:
		for _, e := range x.Edges {
			if k, ok := constantAlternative(e, depth+1); ok {
				return k, true
			}
		}
	case *ssa.Call:
		if id := ir.CallID(x); id == "builtin.min" || id == "builtin.max" {
			for _, a := range x.Call.Args {
				if k, ok := constantAlternative(a, depth+1); ok {
					return k, true
				}
			}
		}
	case *ssa.UnOp:
		cell := x.X
		if fv, isFV := cell.(*ssa.FreeVar); isFV {
			// a variable of the enclosing function captured by the function literal
			if b := ir.FreeVarBinding(fv); b != nil {
				cell = b
			}
		}
		if a, isA := cell.(*ssa.Alloc); isA && x.Op == token.MUL {
			for _, r := range *a.Referrers() {
				if st, isSt := r.(*ssa.Store); isSt && st.Addr == ssa.Value(a) {
					if k, ok := constantAlternative(st.Val, depth+1); ok {
						return k, true
					}
				}
			}
		}
	}
	return 0, false
}

// judgeReadShape (F7): the variable file is parsed as 4 little-endian attribute
// bytes followed by the remainder; success only if both reads succeed.
func (c *Ctx) judgeReadShape(fn *ssa.Function) {
	fname := name(fn)
	what := "reads 4 little-endian attribute bytes, then the remainder, success only if both reads succeed"
	dv := c.deepViewOf(fn, 3)
	streamP := paramByNamed(fn, "io.Reader")
	sizeP := paramByType(fn, "int")
	if streamP == nil || sizeP == nil {
		c.R.Undecf("F7.read", fname, "attrs-then-rest", c.Pos(fn.Pos()), what, "the parser does not take (io.Reader, size int)")
		return
	}
	// no fixed cap: a bounded view of the file (io.LimitReader, io.CopyN, a
	// LimitedReader) whose bound can be a constant cuts every longer value short
	for _, di := range dv.order {
		call, isC := di.i.(*ssa.Call)
		if !isC {
			continue
		}
		var lim ssa.Value
		switch ir.CallID(call) {
		case "io.LimitReader":
			if r := dv.objectOf(call.Call.Args[0], di.fr); r.fr == dv.root && r.v == ssa.Value(streamP) {
				lim = call.Call.Args[1]
			}
		case "io.CopyN":
			if r := dv.objectOf(call.Call.Args[1], di.fr); r.fr == dv.root && r.v == ssa.Value(streamP) {
				lim = call.Call.Args[2]
			}
		}
		if lim == nil {
			continue
		}
		if k, capped := constantAlternative(dv.resolve(lim, di.fr).v, 0); capped {
			c.R.Violf("F7.cap", fname, "bounded-view", c.IPos(call), "the value read is as long as the file says, whatever that is",
				fmt.Sprintf("the file is read through a view whose bound can be the constant %d: a value longer than that is cut short (or refused) although it was stored in full", k))
		} else {
			c.R.Okf("F7.cap", fname, "bounded-view", c.IPos(call), "the bound of the view on the file is not a constant")
		}
	}
	// a single Read on the file is not a full read: a short count goes unnoticed
	for _, di := range dv.order {
		call, isC := di.i.(ssa.CallInstruction)
		if !isC || !call.Common().IsInvoke() || call.Common().Method.Name() != "Read" {
			continue
		}
		if r := dv.objectOf(call.Common().Value, di.fr); r.fr == dv.root && r.v == ssa.Value(streamP) && !inLoop(di.fr.fn, di.i.Block()) {
			c.R.Violf("F7.read", fname, "attrs-then-rest", c.IPos(di.i), what, "a single Read on the file outside a loop: it may return fewer bytes than asked for without an error, so a file shorter than the attribute header (or a short value) is accepted")
			return
		}
	}
	reads, complete := dv.streamReads(streamP)
	if !complete {
		c.R.Infof("F7.read", fname, "attrs-then-rest", c.Pos(fn.Pos()), "not decided for this shape: the stream is consumed by something other than encoding/binary.Read / io.ReadFull on resolvable buffers")
		return
	}
	var bad []string
	if len(reads) == 0 {
		c.R.Infof("F7.read", fname, "attrs-then-rest", c.Pos(fn.Pos()), "not decided for this shape: no read on the stream parameter is identified (the stream may be kept in a reader object and read through its methods)")
		return
	}
	if len(reads) != 2 {
		c.R.Violf("F7.read", fname, "attrs-then-rest", c.Pos(fn.Pos()), what, fmt.Sprintf("%d reads from the file (want: attributes, then remainder)", len(reads)))
		return
	}
	r1, r2 := reads[0], reads[1]
	if !r1.width.isConst() || r1.width.K != 4 {
		bad = append(bad, "the first read takes "+r1.width.String()+" bytes, want the 4 attribute bytes")
	}
	// second read: size - 4
	rest := r2.width.clone()
	okRest := false
	if rest.T["param:"+sizeP.Name()] == 1 {
		delete(rest.T, "param:"+sizeP.Name())
		switch {
		case len(rest.T) == 0 && rest.K == -4:
			okRest = true
		case len(rest.T) == 1 && rest.K == 0:
			for sym, cf := range rest.T {
				if cf == -1 && isGlobalLoad(ir.StripConv(rest.Sym[sym]), M+"/efi/attributes.SizeofAttributes") {
					okRest = true
				}
			}
		}
	}
	if !okRest {
		bad = append(bad, "the second read takes "+r2.width.String()+" bytes, want size - 4")
	}
	// results at the successful returns
	for _, r := range ir.Returns(fn) {
		if retClass(fn, r) == "fail" || len(r.Results) < 3 {
			continue
		}
		// attributes: the little-endian decode of the first read
		av := dv.resolveConv(r.Results[0], dv.root)
		okA := false
		switch x := av.v.(type) {
		case *ssa.UnOp:
			if x.Op == token.MUL && !r1.raw && r1.order == "LE" && dv.resolve(x.X, av.fr).same(r1.target) {
				okA = true
			}
		case *ssa.Call:
			if w, order, put, ok := uintCallWidth(ir.CallID(x)); ok && !put && w == 4 && order == "LE" && r1.raw {
				args := ir.CallArgs(x)
				if off, isBuf := dv.sliceBaseObj(args[len(args)-1], av.fr, r1.target); isBuf && off.isConst() && off.K == 0 {
					okA = true
				}
			}
		}
		if !okA {
			bad = append(bad, "the attributes returned at "+c.IPos(r)+" are not the little-endian decode of the 4 bytes read first")
		}
		// value: a buffer over the bytes of the second read
		bv := dv.resolveConv(r.Results[1], dv.root)
		okB := false
		if call, isC := bv.v.(*ssa.Call); isC && (ir.CallID(call) == "bytes.NewBuffer") {
			if dv.resolve(call.Call.Args[0], bv.fr).same(r2.target) {
				okB = true
			}
		}
		if !okB {
			bad = append(bad, "the value returned at "+c.IPos(r)+" is not a buffer over the bytes of the second read")
		}
	}
	// both reads' errors gate the success returns of the function they are in
	for _, rd := range reads {
		rf := rd.fr.fn
		e, kept := errValue(rd.call)
		for _, r := range ir.Returns(rf) {
			if retClass(rf, r) == "fail" || r.Block() == rf.Recover {
				continue
			}
			if !kept || e == nil || !successDominates(rf, e, r.Block()) {
				bad = append(bad, "success return at "+c.IPos(r)+" is not behind the nil-error edge of the read at "+c.IPos(rd.call))
			}
		}
	}
	c.R.Check(len(bad) == 0, "F7.read", fname, "attrs-then-rest", c.Pos(fn.Pos()), what, strings.Join(bad, "; "))
}

// sliceBaseObj: v is obj[lo:...] for a buffer object (an Alloc array or a MakeSlice).
func (d *deepView) sliceBaseObj(v ssa.Value, fr *frame, obj dval) (Affine, bool) {
	r := d.resolve(v, fr)
	if r.same(obj) {
		return constAffine(0), true
	}
	if sl, ok := r.v.(*ssa.Slice); ok {
		if a, isA := sl.X.(*ssa.Alloc); isA && (dval{a, r.fr}).same(obj) {
			if sl.Low == nil {
				return constAffine(0), true
			}
			return d.affine(sl.Low, r.fr, nil, 0), true
		}
		// a by-value copy of the array (a value receiver or parameter spilled to a
		// local): the bytes are those the array held when the copy was taken, which
		// must be after everything in that function that fills the array
		if a, isA := sl.X.(*ssa.Alloc); isA {
			var src dval
			n := 0
			d.eachStoreTo(a, r.fr, func(st *ssa.Store, f *frame) { src, n = d.resolve(st.Val, f), n+1 })
			if ld, isLd := src.v.(*ssa.UnOp); n == 1 && isLd && ld.Op == token.MUL && (dval{ld.X, src.fr}).same(obj) {
				late := true
				instrsOf(src.fr.fn, func(i ssa.Instruction) {
					call, isC := i.(ssa.CallInstruction)
					if !isC {
						return
					}
					for _, arg := range ir.CallArgs(call) {
						if s2, isS := arg.(*ssa.Slice); isS && s2.X == ld.X && !precedesInCFG(src.fr.fn, i, ld) {
							late = false
						}
					}
				})
				if late {
					if sl.Low == nil {
						return constAffine(0), true
					}
					return d.affine(sl.Low, r.fr, nil, 0), true
				}
			}
		}
		inner, ok := d.sliceBaseObj(sl.X, r.fr, obj)
		if !ok {
			return Affine{}, false
		}
		if sl.Low == nil {
			return inner, true
		}
		return inner.add(d.affine(sl.Low, r.fr, nil, 0), 1), true
	}
	return Affine{}, false
}

// judgeFresh (F11): every buffer the function returns is constructed during the
// call (in the function or in the library helpers it returns from).
func (c *Ctx) judgeFresh(fn *ssa.Function, what, why string) {
	dv := c.deepViewOf(fn, 6)
	fresh, det := true, ""
	for _, r := range ir.Returns(fn) {
		if len(r.Results) < 2 || r.Block() == fn.Recover {
			continue
		}
		if !dv.freshBuffer(r.Results[1], dv.root, 0) {
			fresh, det = false, "return at "+c.IPos(r)+": "+why
		}
	}
	c.R.Check(fresh, "F11.fresh", name(fn), "returned-buffer", c.Pos(fn.Pos()), what, det)
}

func (d *deepView) freshBuffer(v ssa.Value, fr *frame, depth int) bool {
	if depth > 10 {
		return false
	}
	if ir.IsNilConst(v) {
		return true
	}
	r := d.resolveConv(v, fr)
	if ir.IsNilConst(r.v) {
		return true
	}
	switch x := r.v.(type) {
	case *ssa.Call:
		id := ir.CallID(x)
		if id == "bytes.NewBuffer" || id == "bytes.NewBufferString" {
			return true
		}
		// a library callee with several returns: each of them
		if child := d.frameOfCall(r.fr, x); child != nil && child.fn.Signature.Results().Len() == 1 {
			for _, ret := range ir.Returns(child.fn) {
				if !d.freshBuffer(ret.Results[0], child, depth+1) {
					return false
				}
			}
			return true
		}
	case *ssa.Extract:
		if call, ok := x.Tuple.(*ssa.Call); ok {
			if child := d.frameOfCall(r.fr, call); child != nil {
				for _, ret := range ir.Returns(child.fn) {
					if x.Index >= len(ret.Results) || !d.freshBuffer(ret.Results[x.Index], child, depth+1) {
						return false
					}
				}
				return true
			}
		}
	case *ssa.Alloc:
		return ir.NamedTypeID(x.Type()) == "bytes.Buffer"
	case *ssa.Phi:
		for _, e := range x.Edges {
			if e != ssa.Value(x) && !d.freshBuffer(e, r.fr, depth+1) {
				return false
			}
		}
		return true
	case *ssa.UnOp:
		if x.Op == token.MUL {
			cell := d.resolve(x.X, r.fr)
			if a, ok := cell.v.(*ssa.Alloc); ok {
				okAll, n := true, 0
				d.eachStoreTo(a, cell.fr, func(st *ssa.Store, f *frame) {
					// a named result written back to itself at a return
					if lu, isLoad := st.Val.(*ssa.UnOp); isLoad && lu.Op == token.MUL && d.resolve(lu.X, f).same(cell) {
						return
					}
					n++
					if !d.freshBuffer(st.Val, f, depth+1) {
						okAll = false
					}
				})
				return okAll && n > 0
			}
		}
	}
	return false
}

// bitTable: the value of a bitwise expression at one bit position, as a truth
// table over (a_i, b_i), index a<<1|b.
func bitTable(v ssa.Value, a, b *ssa.Parameter, depth int) ([4]bool, bool) {
	var t [4]bool
	if depth > 12 {
		return t, false
	}
	v = ir.StripConv(v)
	switch x := v.(type) {
	case *ssa.Parameter:
		switch x {
		case a:
			return [4]bool{false, false, true, true}, true
		case b:
			return [4]bool{false, true, false, true}, true
		}
	case *ssa.Const:
		if n, ok := ir.ConstInt(x); ok {
			if n == 0 {
				return t, true
			}
			if n == -1 || n == 0xFFFFFFFF {
				return [4]bool{true, true, true, true}, true
			}
		}
	case *ssa.UnOp:
		if x.Op == token.XOR {
			in, ok := bitTable(x.X, a, b, depth+1)
			for i := range in {
				in[i] = !in[i]
			}
			return in, ok
		}
	case *ssa.BinOp:
		l, ok1 := bitTable(x.X, a, b, depth+1)
		r, ok2 := bitTable(x.Y, a, b, depth+1)
		if !ok1 || !ok2 {
			return t, false
		}
		for i := range t {
			switch x.Op {
			case token.AND:
				t[i] = l[i] && r[i]
			case token.OR:
				t[i] = l[i] || r[i]
			case token.XOR:
				t[i] = l[i] != r[i]
			case token.AND_NOT:
				t[i] = l[i] && !r[i]
			default:
				return t, false
			}
		}
		return t, true
	}
	return t, false
}

// bitPredicate: v is X == Y over bitwise expressions; the predicate that must
// hold at every bit position.
func bitPredicate(v ssa.Value, a, b *ssa.Parameter) ([4]bool, bool) {
	var g [4]bool
	cmp, ok := v.(*ssa.BinOp)
	if !ok || cmp.Op != token.EQL {
		return g, false
	}
	l, ok1 := bitTable(cmp.X, a, b, 0)
	r, ok2 := bitTable(cmp.Y, a, b, 0)
	if !ok1 || !ok2 {
		return g, false
	}
	for i := range g {
		g[i] = l[i] == r[i]
	}
	return g, true
}

func truthTable(g [4]bool) string {
	var p []string
	for i, v := range g {
		if v {
			p = append(p, fmt.Sprintf("(a=%d,b=%d)", i>>1, i&1))
		}
	}
	return "{" + strings.Join(p, " ") + "} allowed"
}

// retClassesFrom classifies the returns reachable from block start (entered
// from predecessor pred, -1 if unknown) along each acyclic path: the error
// operand is evaluated on the path itself — a phi takes the value of the edge
// the path came through, a named result read back from its cell takes the
// last value stored on the path. A return is "fail" only if it is on every
// path that reaches it; otherwise the weakest class seen is reported.
func retClassesFrom(fn *ssa.Function, start *ssa.BasicBlock, pred int) map[*ssa.Return]string {
	out := map[*ssa.Return]string{}
	if !hasErrorResult(fn) {
		for _, r := range ir.Returns(fn) {
			out[r] = "maybe"
		}
		return out
	}
	weaker := func(a, b string) string {
		rank := map[string]int{"fail": 0, "maybe": 1, "success": 2}
		if rank[b] > rank[a] {
			return b
		}
		return a
	}
	paths := 0
	overflow := false
	var path []*ssa.BasicBlock
	on := map[int]bool{}
	var valueOn func(v ssa.Value, upto int, beforeInstr ssa.Instruction, r *ssa.Return, depth int) string
	valueOn = func(v ssa.Value, upto int, beforeInstr ssa.Instruction, r *ssa.Return, depth int) string {
		if depth > 8 {
			return "maybe"
		}
		switch x := v.(type) {
		case *ssa.Phi:
			// the block of the phi on the path, at or before position upto
			for i := upto; i >= 0; i-- {
				if path[i] != x.Block() {
					continue
				}
				pb := pred
				if i > 0 {
					pb = path[i-1].Index
				}
				for k, p := range x.Block().Preds {
					if p.Index == pb {
						return valueOn(x.Edges[k], i-1, nil, r, depth+1)
					}
				}
				break
			}
		case *ssa.UnOp:
			if a, ok := x.X.(*ssa.Alloc); ok && x.Op == token.MUL {
				// last store to the cell on the path before the load
				at := upto
				for i := upto; i >= 0; i-- {
					if path[i] == x.Block() {
						at = i
						break
					}
				}
				for i := at; i >= 0; i-- {
					ins := path[i].Instrs
					end := len(ins)
					if i == at {
						for k, in := range ins {
							if in == ssa.Instruction(x) {
								end = k
							}
						}
					}
					for k := end - 1; k >= 0; k-- {
						if st, ok := ins[k].(*ssa.Store); ok && st.Addr == ssa.Value(a) {
							if lu, ok := st.Val.(*ssa.UnOp); ok && lu.Op == token.MUL && lu.X == ssa.Value(a) {
								continue // err = err
							}
							return valueOn(st.Val, i, st, r, depth+1)
						}
					}
				}
			}
		}
		return errValClass(r, v, 0)
	}
	var dfs func(b *ssa.BasicBlock)
	dfs = func(b *ssa.BasicBlock) {
		if overflow {
			return
		}
		path = append(path, b)
		on[b.Index] = true
		defer func() {
			path = path[:len(path)-1]
			delete(on, b.Index)
		}()
		if len(b.Instrs) > 0 {
			if r, ok := b.Instrs[len(b.Instrs)-1].(*ssa.Return); ok {
				paths++
				if paths > 4000 {
					overflow = true
					return
				}
				cls := "maybe"
				if len(r.Results) > 0 {
					cls = valueOn(r.Results[len(r.Results)-1], len(path)-1, nil, r, 0)
				}
				if old, seen := out[r]; seen {
					out[r] = weaker(old, cls)
				} else {
					out[r] = cls
				}
				return
			}
		}
		// a branch on err == nil / err != nil whose operand is known along this
		// path (just assigned a sentinel, or nil) has one feasible successor
		skip := -1
		if iff, ok := b.Instrs[len(b.Instrs)-1].(*ssa.If); ok && len(b.Succs) == 2 {
			if e, nilWhenTrue, isNC := ir.NilCheck(iff.Cond); isNC && isErrorType(e.Type()) {
				switch valueOn(e, len(path)-1, nil, nil, 0) {
				case "fail": // not nil: the "is nil" successor is infeasible
					if nilWhenTrue {
						skip = 0
					} else {
						skip = 1
					}
				case "success":
					if nilWhenTrue {
						skip = 1
					} else {
						skip = 0
					}
				}
			}
		}
		for k, s := range b.Succs {
			if !on[s.Index] && k != skip {
				dfs(s)
			}
		}
	}
	dfs(start)
	if overflow {
		for _, r := range ir.Returns(fn) {
			out[r] = weaker(out[r], retClass(fn, r))
			if out[r] == "" {
				out[r] = retClass(fn, r)
			}
		}
	}
	return out
}

// sameValuePath: two values denote the same storage path or are the same value.
func sameValuePath(a, b ssa.Value) bool {
	a, b = ir.StripConv(a), ir.StripConv(b)
	if a == b {
		return true
	}
	pa, pb := ir.AccessPath(a), ir.AccessPath(b)
	return pa != "" && pa == pb
}

// gateBefore (F6): block blk of fn is only reached behind
// required.Equal(stored) == true, tested in fn itself or established by a
// library helper whose success fn observes on the way (the helper's accepting
// returns are then all behind the test). via is the call through which a
// helper was entered: the variable definition must be the one passed there.
func (c *Ctx) gateBefore(fn *ssa.Function, blk *ssa.BasicBlock, via *ssa.Call, depth int) (bool, string) {
	detail := "no dominating test required.Equal(stored)"
	if depth > 3 {
		return false, detail
	}
	vP := paramByNamed(fn, M+"/efivar.Efivar")
	readers := []string{M + "/efivarfs/fswrapper.FSWrapper.ReadEfivarsWithGuid", M + "/efivarfs/fswrapper.FSWrapper.ReadEfivarsFile"}
	e := c.accept()
	// the test is made in a helper on its own parameters: an operand that derives
	// from a parameter (other than the variable definition, which the caller has
	// matched already) derives from what the caller passes there
	fromCaller := func(sides ...map[ssa.Value]bool) {
		if via == nil || via.Parent() == nil {
			return
		}
		vargs := ir.CallArgs(via)
		for k, p := range fn.Params {
			if k >= len(vargs) || (vP != nil && p == vP) {
				continue
			}
			for _, side := range sides {
				if side[p] {
					for v := range c.Slicer().Slice(vargs[k]) {
						side[v] = true
					}
				}
			}
		}
	}
	for _, ce := range ir.DominatingConds(fn, blk) {
		// the subset test written out: required &^ stored == 0, or required & stored == required
		if cmp, ok := ce.Cond.(*ssa.BinOp); ok && (cmp.Op == token.EQL || cmp.Op == token.NEQ) && ce.Truth == (cmp.Op == token.EQL) {
			var req, sto ssa.Value
			for _, side := range [][2]ssa.Value{{cmp.X, cmp.Y}, {cmp.Y, cmp.X}} {
				bit, isB := ir.StripConv(side[0]).(*ssa.BinOp)
				if !isB {
					continue
				}
				switch {
				case bit.Op == token.AND_NOT:
					if k, isK := ir.ConstInt(side[1]); isK && k == 0 {
						req, sto = bit.X, bit.Y
					}
				case bit.Op == token.AND:
					// (a & b) == a: a is the required mask
					if sameValuePath(bit.X, side[1]) {
						req, sto = bit.X, bit.Y
					} else if sameValuePath(bit.Y, side[1]) {
						req, sto = bit.Y, bit.X
					}
				}
			}
			if req != nil {
				rs, as := c.Slicer().Slice(req), c.Slicer().Slice(sto)
				reqFromDef := vP != nil && rs[vP] && ir.HasField(rs, M+"/efivar.Efivar.Attributes")
				fromCaller(as, rs)
				stoFromFile := len(ir.CallsIn(as, append(readers, M+"/efivarfs/fswrapper.FSWrapper.ParseEfivars")...)) > 0
				reqFromFile := len(ir.CallsIn(rs, readers...)) > 0
				switch {
				case reqFromDef && stoFromFile && !reqFromFile:
					return true, ""
				case reqFromFile:
					detail = "the subset test is made with the stored mask as the required one: files lacking required attributes are accepted"
				}
				continue
			}
		}
		if call, ok := ce.Cond.(*ssa.Call); ok && ir.CallID(call) == M+"/efi/attributes.Attributes.Equal" && ce.Truth {
			recv, arg := call.Call.Args[0], call.Call.Args[1]
			rs, as := c.Slicer().Slice(recv), c.Slicer().Slice(arg)
			recvFromDef := vP != nil && rs[vP] && ir.HasField(rs, M+"/efivar.Efivar.Attributes")
			if !recvFromDef && vP == nil && via != nil && via.Parent() != nil {
				// the required mask is a parameter: what the caller passes there
				cvP := paramByNamed(via.Parent(), M+"/efivar.Efivar")
				vargs := ir.CallArgs(via)
				for k, p := range fn.Params {
					if rs[p] && k < len(vargs) && cvP != nil {
						if sl := c.Slicer().Slice(vargs[k]); sl[cvP] && ir.HasField(sl, M+"/efivar.Efivar.Attributes") {
							recvFromDef = true
						}
					}
				}
			}
			fromCaller(as, rs)
			argFromFile := len(ir.CallsIn(as, append(readers, M+"/efivarfs/fswrapper.FSWrapper.ParseEfivars")...)) > 0
			recvFromFile := len(ir.CallsIn(rs, readers...)) > 0
			switch {
			case recvFromDef && argFromFile && !recvFromFile:
				return true, ""
			case recvFromFile:
				detail = "Equal is called with the stored mask as receiver: (stored & required) == stored accepts files lacking required attributes"
			default:
				detail = "the operands of Equal do not derive from (variable definition, stored attributes)"
			}
			continue
		}
		call, em := e.observe(fn, ce)
		if call == nil {
			continue
		}
		callee := ir.Callee(call)
		if callee == nil || !c.P.InLib(callee) {
			continue
		}
		// the helper is given this function's variable definition — as a whole, or
		// (no parameter of that type) taken apart into its fields, in which case the
		// helper's test is judged with the arguments of this call (via)
		if cp := paramByNamed(callee, M+"/efivar.Efivar"); vP == nil {
			continue
		} else if cp == nil {
			fromDef := false
			for _, a := range ir.CallArgs(call) {
				if sl := c.Slicer().Slice(a); sl[vP] && ir.HasField(sl, M+"/efivar.Efivar.Attributes") {
					fromDef = true
				}
			}
			if !fromDef {
				continue
			}
		} else {
			passed := false
			for k, p := range callee.Params {
				if p == cp && k < len(ir.CallArgs(call)) && c.Slicer().Slice(ir.CallArgs(call)[k])[vP] {
					passed = true
				}
			}
			if !passed {
				continue
			}
		}
		acc := acceptingReturnsMode(callee, em)
		all := len(acc) > 0
		for _, r := range acc {
			// a predicate helper whose verdict is the test itself: return required.Equal(stored)
			if len(r.Results) > 0 {
				if eq, isEq := effectiveResult(callee, r, 0).(*ssa.Call); isEq && ir.CallID(eq) == M+"/efi/attributes.Attributes.Equal" {
					cp := paramByNamed(callee, M+"/efivar.Efivar")
					rs, as := c.Slicer().Slice(eq.Call.Args[0]), c.Slicer().Slice(eq.Call.Args[1])
					recvFromDef := cp != nil && rs[cp] && ir.HasField(rs, M+"/efivar.Efivar.Attributes")
					// an operand that is (a field of) a parameter of the helper: what the caller passes there
					for k, p := range callee.Params {
						if ir.RootOf(ir.StripConv(eq.Call.Args[1])) == ssa.Value(p) && k < len(ir.CallArgs(call)) {
							for v := range c.Slicer().Slice(ir.CallArgs(call)[k]) {
								as[v] = true
							}
						}
					}
					argFromFile := len(ir.CallsIn(as, append(readers, M+"/efivarfs/fswrapper.FSWrapper.ParseEfivars")...)) > 0
					recvFromFile := len(ir.CallsIn(rs, readers...)) > 0
					if recvFromDef && argFromFile && !recvFromFile {
						continue
					}
					if recvFromFile {
						detail = "Equal is called with the stored mask as receiver: (stored & required) == stored accepts files lacking required attributes"
					} else if recvFromDef {
						return false, "not decided for this shape: the test required.Equal(x) is made in the helper " + name(callee) + " and where x comes from is not resolved"
					}
				}
			}
			if ok, d := c.gateBefore(callee, r.Block(), call, depth+1); !ok {
				all = false
				detail = d
			}
		}
		if all {
			return true, ""
		}
	}
	return false, detail
}
