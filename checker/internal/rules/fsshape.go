package rules

import (
	"fmt"
	"go/constant"
	"go/token"
	"go/types"
	"sort"
	"strings"

	"golang.org/x/tools/go/ssa"

	"verif/checker/internal/ir"
)

// Rule family F: shape of the write/read path at the filesystem boundary
// (C11, C12) and the short-write check shared with C15.

// constInt looks a constant up through the type-checked package scope.
func (c *Ctx) constInt(pkgPath, nm string) (int64, bool) {
	var scope *types.Scope
	if pk := c.P.ByPath[pkgPath]; pk != nil {
		scope = pk.Types.Scope()
	} else if sp := c.P.SSAPkgs[pkgPath]; sp != nil {
		scope = sp.Pkg.Scope()
	}
	if scope == nil {
		return 0, false
	}
	k, ok := scope.Lookup(nm).(*types.Const)
	if !ok {
		return 0, false
	}
	v, exact := constant.Int64Val(constant.ToInt(k.Val()))
	return v, exact
}

// evalConst folds integer constants through | & + ^ &^ << and conversions.
func evalConst(v ssa.Value) (int64, bool) {
	v = ir.StripConv(v)
	if n, ok := ir.ConstInt(v); ok {
		return n, true
	}
	if b, ok := v.(*ssa.BinOp); ok {
		x, ok1 := evalConst(b.X)
		y, ok2 := evalConst(b.Y)
		if !ok1 || !ok2 {
			return 0, false
		}
		switch b.Op {
		case token.OR:
			return x | y, true
		case token.AND:
			return x & y, true
		case token.ADD:
			return x + y, true
		case token.XOR:
			return x ^ y, true
		case token.AND_NOT:
			return x &^ y, true
		case token.SHL:
			return x << uint(y), true
		}
	}
	return 0, false
}

// flagCase is one possible constant value of a flag expression together with
// the block it originates from (used to relate it to the append condition).
type flagCase struct {
	val  int64
	from *ssa.BasicBlock // predecessor block of the phi edge / block of the return
	fn   *ssa.Function
}

// flagCases enumerates the constant values an int expression may take: a
// constant, a phi of cases, `x | const` over cases, or the result of a static
// repo function all of whose returns are such expressions.
func (c *Ctx) flagCases(v ssa.Value, depth int) ([]flagCase, bool) {
	v = ir.StripConv(v)
	if n, ok := evalConst(v); ok {
		var blk *ssa.BasicBlock
		var fn *ssa.Function
		if i, isI := v.(ssa.Instruction); isI {
			blk, fn = i.Block(), i.Parent()
		}
		return []flagCase{{n, blk, fn}}, true
	}
	if depth > 4 {
		return nil, false
	}
	switch x := v.(type) {
	case *ssa.Phi:
		var out []flagCase
		for k, e := range x.Edges {
			cs, ok := c.flagCases(e, depth+1)
			if !ok {
				return nil, false
			}
			for i := range cs {
				// attribute the case to the incoming edge's predecessor
				cs[i].from, cs[i].fn = x.Block().Preds[k], x.Parent()
			}
			out = append(out, cs...)
		}
		return out, true
	case *ssa.BinOp:
		if x.Op == token.OR {
			if k, ok := evalConst(x.Y); ok {
				cs, ok2 := c.flagCases(x.X, depth+1)
				if ok2 {
					for i := range cs {
						cs[i].val |= k
						if cs[i].from == nil {
							cs[i].from, cs[i].fn = x.Block(), x.Parent()
						}
					}
					return cs, true
				}
			}
			if k, ok := evalConst(x.X); ok {
				cs, ok2 := c.flagCases(x.Y, depth+1)
				if ok2 {
					for i := range cs {
						cs[i].val |= k
					}
					return cs, true
				}
			}
		}
	case *ssa.Call:
		if callee := ir.Callee(x); callee != nil && c.P.InLib(callee) {
			var out []flagCase
			for _, r := range ir.Returns(callee) {
				if len(r.Results) != 1 {
					return nil, false
				}
				cs, ok := c.flagCases(r.Results[0], depth+1)
				if !ok {
					return nil, false
				}
				for i := range cs {
					if cs[i].from == nil || cs[i].fn != callee {
						cs[i].from, cs[i].fn = r.Block(), callee
					}
				}
				out = append(out, cs...)
			}
			return out, len(out) > 0
		}
	}
	return nil, false
}

// appendCondEdges finds, in fn, the edges on which `attrs & APPEND_WRITE != 0`
// holds, where attrs is a value of type attributes.Attributes.
func (c *Ctx) appendCondEdges(fn *ssa.Function) []ir.Edge {
	appendBit, ok := c.constInt(M+"/efi/attributes", "EFI_VARIABLE_APPEND_WRITE")
	if !ok {
		return nil
	}
	var out []ir.Edge
	for _, ce := range ir.CondEdges(fn) {
		cmp, ok := ce.Cond.(*ssa.BinOp)
		if !ok || (cmp.Op != token.NEQ && cmp.Op != token.EQL) {
			continue
		}
		and, ok := ir.StripConv(cmp.X).(*ssa.BinOp)
		other := cmp.Y
		if !ok {
			and, ok = ir.StripConv(cmp.Y).(*ssa.BinOp)
			other = cmp.X
		}
		if !ok || and.Op != token.AND {
			continue
		}
		k, isK := evalConst(and.Y)
		attrs := and.X
		if !isK {
			k, isK = evalConst(and.X)
			attrs = and.Y
		}
		if !isK || k != appendBit || ir.NamedTypeID(ir.StripConv(attrs).Type()) != M+"/efi/attributes.Attributes" && ir.NamedTypeID(attrs.Type()) != M+"/efi/attributes.Attributes" {
			continue
		}
		z, isZ := evalConst(other)
		if !isZ {
			continue
		}
		// cmp is (attrs&bit) OP z ; bit set on this edge?
		var set bool
		switch {
		case z == 0 && cmp.Op == token.NEQ:
			set = ce.Truth
		case z == 0 && cmp.Op == token.EQL:
			set = !ce.Truth
		case z == appendBit && cmp.Op == token.EQL:
			set = ce.Truth
		case z == appendBit && cmp.Op == token.NEQ:
			set = !ce.Truth
		default:
			continue
		}
		if set {
			out = append(out, ce.Edge)
		}
	}
	return out
}

type writeTwin struct {
	spec string
	fn   *ssa.Function
}

func (c *Ctx) writeTwins(rule string) []writeTwin {
	var out []writeTwin
	for _, s := range []string{"efivarfs/fswrapper.(*FSWrapper).WriteEfivarsWithGuid", "efi/attributes.WriteEfivarsWithGuid"} {
		if fn := c.Fn(rule, s); fn != nil {
			out = append(out, writeTwin{s, fn})
		}
	}
	return out
}

// fsCalls lists invoke-mode calls on filesystem dependency values in fn (and closures).
func (c *Ctx) fsCalls(fn *ssa.Function, method string) []ssa.CallInstruction {
	var out []ssa.CallInstruction
	for _, f := range withAnon(fn) {
		instrsOf(f, func(i ssa.Instruction) {
			call, ok := i.(ssa.CallInstruction)
			if !ok || !call.Common().IsInvoke() {
				return
			}
			if dependencyKind(call.Common().Value.Type()) != "filesystem" {
				return
			}
			if method == "" || call.Common().Method.Name() == method {
				out = append(out, call)
			}
		})
	}
	return out
}

var fsMutators = map[string]bool{"WriteString": true, "WriteAt": true, "Truncate": true, "Seek": true, "Create": true,
	"Remove": true, "RemoveAll": true, "Rename": true, "Chmod": true, "Chown": true, "Chtimes": true, "Mkdir": true, "MkdirAll": true, "Sync": false}

// retClass classifies a return by its error operand.
func retClass(fn *ssa.Function, r *ssa.Return) string {
	if len(r.Results) == 0 || !hasErrorResult(fn) {
		return "maybe"
	}
	return errValClass(r, r.Results[len(r.Results)-1], 0)
}

func errValClass(r *ssa.Return, v ssa.Value, depth int) string {
	if depth > 5 {
		return "maybe"
	}
	if ir.IsNilConst(v) {
		return "success"
	}
	if definitelyNonNilErr(v, 0) {
		return "fail"
	}
	switch x := v.(type) {
	case *ssa.UnOp:
		if x.Op == token.MUL {
			if a, ok := x.X.(*ssa.Alloc); ok {
				// named result read back after rundefers: last store in this block
				var last *ssa.Store
				for _, i := range r.Block().Instrs {
					if st, ok := i.(*ssa.Store); ok && st.Addr == a {
						last = st
					}
				}
				selfAssign := false
				if last != nil {
					if lu, ok := last.Val.(*ssa.UnOp); ok && lu.Op == token.MUL && lu.X == ssa.Value(a) {
						selfAssign = true
					} else {
						return errValClass(r, last.Val, depth+1)
					}
				}
				if last == nil || selfAssign {
					// `return err` on a named result: classified by the dominating
					// nil test of the same cell
					fn := r.Parent()
					for _, ce := range ir.DominatingConds(fn, r.Block()) {
						if e, nilWhenTrue, ok := ir.NilCheck(ce.If.Cond); ok {
							if eu, ok := e.(*ssa.UnOp); ok && eu.Op == token.MUL && eu.X == ssa.Value(a) {
								succTrue := fn.Blocks[ce.Edge.From].Succs[0].Index == ce.Edge.To
								if succTrue != nilWhenTrue {
									return "fail"
								}
							}
						}
					}
				}
			}
		}
	case *ssa.Call, *ssa.Extract:
		// a library helper that only ever returns non-nil errors (error decorators)
		if call, isCall := x.(*ssa.Call); isCall {
			if callee := call.Call.StaticCallee(); callee != nil && callee.Blocks != nil && callee.Pkg != nil &&
				strings.HasPrefix(callee.Pkg.Pkg.Path(), M) && callee.Signature.Results().Len() == 1 && depth < 4 {
				all := true
				for _, cr := range ir.Returns(callee) {
					if errValClass(cr, cr.Results[0], depth+1) != "fail" {
						all = false
					}
				}
				if all && len(ir.Returns(callee)) > 0 {
					return "fail"
				}
			}
		}
		// an error variable returned as is: failing iff the block is behind its non-nil edge
		fn := r.Parent()
		for _, ce := range ir.DominatingConds(fn, r.Block()) {
			// err == io.EOF / errors.Is(err, X) true => err is non-nil
			if ev, ok := isEOFTest(ce.If.Cond); ok && (sameErrValue(ev, v) || ev == v) {
				_, neg := ir.Peel(ce.If.Cond)
				core, _ := ir.Peel(ce.If.Cond)
				isEq := true
				if bo, ok := core.(*ssa.BinOp); ok && bo.Op == token.NEQ {
					isEq = false
				}
				succTrue := fn.Blocks[ce.Edge.From].Succs[0].Index == ce.Edge.To
				if (isEq != neg) == succTrue {
					return "fail"
				}
			}
			if e, nilWhenTrue, ok := ir.NilCheck(ce.If.Cond); ok && sameErrValue(e, v) {
				succTrue := fn.Blocks[ce.Edge.From].Succs[0].Index == ce.Edge.To
				if succTrue != nilWhenTrue {
					return "fail"
				}
				return "success"
			}
		}
	}
	return "maybe"
}

// countOnPaths computes, per block, the min and max number (saturated at 2)
// of instructions satisfying pred executed on paths from entry to block exit.
func countOnPaths(fn *ssa.Function, pred func(ssa.Instruction) bool) (minC, maxC map[int]int) {
	own := map[int]int{}
	for _, b := range fn.Blocks {
		for _, i := range b.Instrs {
			if pred(i) {
				own[b.Index]++
			}
		}
	}
	sat := func(x int) int {
		if x > 2 {
			return 2
		}
		return x
	}
	minC, maxC = map[int]int{}, map[int]int{}
	for _, b := range fn.Blocks {
		minC[b.Index], maxC[b.Index] = -1, -1
	}
	minC[0], maxC[0] = sat(own[0]), sat(own[0])
	for iter := 0; iter < 4*len(fn.Blocks)+8; iter++ {
		changed := false
		for _, b := range fn.Blocks {
			if b.Index == 0 {
				continue
			}
			mn, mx := -1, -1
			for _, p := range b.Preds {
				if maxC[p.Index] < 0 {
					continue
				}
				if mn < 0 || minC[p.Index] < mn {
					mn = minC[p.Index]
				}
				if maxC[p.Index] > mx {
					mx = maxC[p.Index]
				}
			}
			if mx < 0 {
				continue
			}
			mn, mx = sat(mn+own[b.Index]), sat(mx+own[b.Index])
			if mn != minC[b.Index] || mx != maxC[b.Index] {
				minC[b.Index], maxC[b.Index] = mn, mx
				changed = true
			}
		}
		if !changed {
			break
		}
	}
	return
}

// ruleShortWrite (F5 = C4): the count returned by the single Write is compared
// with the length of the buffer that was written and a mismatch returns an error.
func (c *Ctx) ruleShortWrite(rule string) {
	for _, tw := range c.writeTwins(rule) {
		fn := tw.fn
		writes := c.fsCalls(fn, "Write")
		for k, w := range writes {
			construct := "File.Write"
			if k > 0 {
				construct = fmt.Sprintf("File.Write#%d", k+1)
			}
			call, ok := w.(*ssa.Call)
			if !ok || call.Parent() != fn {
				c.R.Violf(rule, name(fn), construct, c.IPos(w), "the byte count of the write must be checked", "write result is not available (deferred or inside a closure)")
				continue
			}
			buf := call.Call.Args[0]
			var cnt ssa.Value
			for _, r := range *call.Referrers() {
				if ex, ok := r.(*ssa.Extract); ok && ex.Index == 0 {
					cnt = ex
				}
			}
			good := false
			detail := "the count result of Write is never compared with len(buffer written)"
			if cnt != nil {
				for _, ce := range ir.CondEdges(fn) {
					cmp, ok := ce.Cond.(*ssa.BinOp)
					if !ok {
						continue
					}
					var other ssa.Value
					if ir.StripConv(cmp.X) == cnt {
						other = cmp.Y
					} else if ir.StripConv(cmp.Y) == cnt {
						other = cmp.X
					} else {
						continue
					}
					lc, ok := ir.StripConv(other).(*ssa.Call)
					if !ok || ir.CallID(lc) != "builtin.len" {
						detail = "the count is compared with something other than len(buffer)"
						continue
					}
					if lc.Call.Args[0] != buf {
						detail = "the count is compared with the length of a different value than the buffer passed to Write"
						continue
					}
					// mismatch edge: n != len
					op := cmp.Op
					if !ce.Truth {
						op = negate(op)
					}
					if op != token.NEQ && op != token.LSS && !(op == token.GTR && ir.StripConv(cmp.Y) == cnt) {
						continue
					}
					if (op == token.LSS) && ir.StripConv(cmp.X) != cnt {
						continue
					}
					seen, _ := ir.Reach(fn, fn.Blocks[ce.Edge.To], nil)
					allFail := true
					for _, r := range ir.Returns(fn) {
						if seen[r.Block().Index] && retClass(fn, r) != "fail" {
							allFail = false
							detail = "the short-write branch reaches a return that may report success at " + c.IPos(r)
						}
					}
					if allFail {
						good = true
					}
				}
			}
			c.R.Check(good, rule, name(fn), construct, c.IPos(w), "a short write (n != len(buf)) must return an error", detail)
		}
		if len(writes) == 0 {
			c.R.Undecf(rule, name(fn), "File.Write", "-", "the write to the variable file must be identifiable", "no Write on an afero file found in "+name(fn))
		}
	}
}

// ruleWriteShape: F1 one write, F2 flags, F3 buffer, F4 path for both twins.
func (c *Ctx) ruleWriteShape() {
	oW, _ := c.constInt("os", "O_WRONLY")
	oRW, _ := c.constInt("os", "O_RDWR")
	oC, _ := c.constInt("os", "O_CREATE")
	oE, _ := c.constInt("os", "O_EXCL")
	oA, _ := c.constInt("os", "O_APPEND")
	oT, _ := c.constInt("os", "O_TRUNC")
	_ = oT
	for _, tw := range c.writeTwins("F.anchor") {
		fn := tw.fn
		fname := name(fn)
		// ---- F1: exactly one Write on success paths, at most one anywhere
		isWrite := func(i ssa.Instruction) bool {
			call, ok := i.(ssa.CallInstruction)
			if !ok || !call.Common().IsInvoke() || dependencyKind(call.Common().Value.Type()) != "filesystem" {
				return false
			}
			switch call.Common().Method.Name() {
			case "Write", "WriteString", "WriteAt":
				return true
			}
			return false
		}
		minC, maxC := countOnPaths(fn, isWrite)
		ok1, det := true, ""
		for _, r := range ir.Returns(fn) {
			b := r.Block().Index
			if maxC[b] < 0 {
				continue // unreachable (recover block)
			}
			if maxC[b] > 1 {
				ok1, det = false, "a path to the return at "+c.IPos(r)+" performs more than one write on the variable file (each write is one SetVariable call)"
			}
			if retClass(fn, r) != "fail" && minC[b] < 1 {
				ok1, det = false, "a path to the possibly successful return at "+c.IPos(r)+" performs no write"
			}
		}
		for _, an := range fn.AnonFuncs {
			instrsOf(an, func(i ssa.Instruction) {
				if isWrite(i) {
					ok1, det = false, "write to the variable file inside a closure at "+c.IPos(i)
				}
			})
		}
		c.R.Check(ok1, "F1.onewrite", fname, "File.Write", c.Pos(fn.Pos()), "exactly one write operation on the variable file on every successful path, never more than one", det)
		// other mutating operations on the dependency
		bad := ""
		for _, call := range c.fsCalls(fn, "") {
			if fsMutators[call.Common().Method.Name()] {
				bad = call.Common().Method.Name() + " at " + c.IPos(call)
			}
		}
		c.R.Check(bad == "", "F1.onewrite", fname, "other-mutators", c.Pos(fn.Pos()), "no other mutating operation on the filesystem dependency", "found "+bad)

		// ---- F2: open flags
		opens := c.fsCalls(fn, "OpenFile")
		if len(opens) != 1 {
			c.R.Undecf("F2.flags", fname, "OpenFile", c.Pos(fn.Pos()), "the variable file is opened with exactly one OpenFile call", fmt.Sprintf("%d OpenFile calls found", len(opens)))
		} else {
			open := opens[0]
			cases, ok := c.flagCases(open.Common().Args[1], 0)
			if !ok || len(cases) == 0 {
				c.R.Undecf("F2.flags", fname, "OpenFile.flags", c.IPos(open), "open flags must be a finite set of constants", "flag expression is not a constant/phi/helper-return of constants")
			} else {
				okF, detF := true, ""
				hasAppendCase, hasPlainCase := false, false
				for _, fc := range cases {
					if fc.val&3 != oW || oRW == fc.val&3 {
						okF, detF = false, fmt.Sprintf("access mode of flag value %#x is not O_WRONLY", fc.val)
					}
					if fc.val&oC == 0 {
						okF, detF = false, fmt.Sprintf("O_CREATE missing in flag value %#x", fc.val)
					}
					if fc.val&oE != 0 {
						okF, detF = false, fmt.Sprintf("O_EXCL set in flag value %#x", fc.val)
					}
					if fc.val&oA != 0 {
						hasAppendCase = true
					} else {
						hasPlainCase = true
					}
				}
				if !hasAppendCase {
					okF, detF = false, "no flag value carries O_APPEND: append writes (EFI_VARIABLE_APPEND_WRITE) would overwrite"
				}
				if !hasPlainCase {
					okF, detF = false, "every flag value carries O_APPEND: plain writes would append"
				}
				// iff: append-bit cases originate behind the append edge, plain cases do not
				if okF {
					for _, fc := range cases {
						if fc.from == nil || fc.fn == nil {
							okF, detF = false, "cannot locate the origin of a flag value"
							break
						}
						edges := c.appendCondEdges(fc.fn)
						if len(edges) == 0 {
							okF, detF = false, "no test of attrs&EFI_VARIABLE_APPEND_WRITE found where the flags are chosen"
							break
						}
						behind := false
						for _, e := range edges {
							if fc.from.Index == e.To || ir.EdgeDominates(fc.fn, e, fc.from) {
								behind = true
							}
						}
						if fc.val&oA != 0 && !behind {
							okF, detF = false, "O_APPEND chosen on a path not guarded by the APPEND_WRITE attribute"
						}
						if fc.val&oA == 0 && behind {
							okF, detF = false, "flags without O_APPEND chosen although the APPEND_WRITE attribute is set"
						}
					}
				}
				c.R.Check(okF, "F2.flags", fname, "OpenFile.flags", c.IPos(open), "file opened write-only with create, without excl, in append mode iff the APPEND_WRITE attribute is set", detF)
			}
			// ---- F4: path
			sl := c.Slicer().Slice(open.Common().Args[0])
			var miss []string
			if !ir.HasGlobal(sl, M+"/efi/attributes.Efivars") {
				miss = append(miss, "efivars directory variable")
			}
			if len(ir.CallsIn(sl, M+"/efi/util.EFIGUID.Format")) == 0 {
				miss = append(miss, "canonical GUID text (EFIGUID.Format)")
			}
			nameP, guidP := paramByType(fn, "string"), paramByNamed(fn, M+"/efi/util.EFIGUID")
			if nameP == nil || !sl[nameP] {
				miss = append(miss, "variable name parameter")
			}
			if guidP == nil || !sl[guidP] {
				miss = append(miss, "GUID parameter")
			}
			fmtOK := false
			for v := range sl {
				if k, ok := v.(*ssa.Const); ok && k.Value != nil && k.Value.Kind() == constant.String && constant.StringVal(k.Value) == "%s-%s" {
					fmtOK = true
				}
			}
			if !fmtOK {
				miss = append(miss, `"%s-%s" name-GUID format`)
			}
			for _, bad := range ir.CallsIn(sl, "strings.ToUpper", "strings.ToLower", "strings.Title", "strings.ToTitle", "strings.Replace", "strings.ReplaceAll", "strings.TrimSpace", "strings.Trim") {
				miss = append(miss, "path passes through "+ir.CallID(bad))
			}
			c.R.Check(len(miss) == 0, "F4.path", fname, "OpenFile.name", c.IPos(open), "file name is <efivars dir>/<Name>-<canonical lower-case GUID>", "missing: "+strings.Join(miss, ", "))
		}
		// ---- F3: buffer = LE32(attrs) ++ value
		ws := c.fsCalls(fn, "Write")
		if len(ws) == 1 {
			w := ws[0]
			buf := w.Common().Args[0]
			c.judgeWriteBuffer(fn, w, buf)
		} else if len(ws) != 1 {
			c.R.Violf("F3.buffer", fname, "File.Write.arg", c.Pos(fn.Pos()), "the single write carries attributes followed by the value", fmt.Sprintf("%d Write calls found", len(ws)))
		}
	}
}

func paramByType(fn *ssa.Function, basic string) *ssa.Parameter {
	for _, p := range fn.Params {
		if b, ok := p.Type().(*types.Basic); ok && b.Name() == basic {
			return p
		}
	}
	return nil
}

func paramByNamed(fn *ssa.Function, id string) *ssa.Parameter {
	for _, p := range fn.Params {
		if ir.NamedTypeID(p.Type()) == id {
			if fn.Signature.Recv() != nil && p == fn.Params[0] {
				continue
			}
			return p
		}
	}
	return nil
}

func paramBytes(fn *ssa.Function) *ssa.Parameter {
	for _, p := range fn.Params {
		if s, ok := p.Type().Underlying().(*types.Slice); ok {
			if b, ok := s.Elem().Underlying().(*types.Basic); ok && b.Kind() == types.Uint8 {
				return p
			}
		}
	}
	return nil
}

// judgeWriteBuffer: buf is append(A, b...) with b the value parameter and A
// the 4-byte little-endian encoding of the attrs parameter, nothing else.
func (c *Ctx) judgeWriteBuffer(fn *ssa.Function, w ssa.CallInstruction, buf ssa.Value) {
	fname := name(fn)
	attrsP, valP := paramByNamed(fn, M+"/efi/attributes.Attributes"), paramBytes(fn)
	if attrsP == nil || valP == nil {
		c.R.Undecf("F3.buffer", fname, "File.Write.arg", c.IPos(w), "writer takes an attributes and a value parameter", "parameters not found")
		return
	}
	app, ok := buf.(*ssa.Call)
	if !ok || ir.CallID(app) != "builtin.append" || len(app.Call.Args) != 2 {
		c.R.Undecf("F3.buffer", fname, "File.Write.arg", c.IPos(w), "write buffer is built as append(attribute bytes, value...)", "buffer is not a direct append(...) expression; idiom not recognised")
		return
	}
	head, tail := app.Call.Args[0], app.Call.Args[1]
	var problems []string
	if tail != ssa.Value(valP) {
		problems = append(problems, "the appended tail is not the value parameter itself")
	}
	hs := c.Slicer().Slice(head)
	if !hs[attrsP] {
		problems = append(problems, "the head of the buffer does not derive from the attrs parameter")
	}
	if hs[valP] {
		problems = append(problems, "the head of the buffer also derives from the value parameter")
	}
	if !ir.HasGlobal(hs, "encoding/binary.LittleEndian") {
		problems = append(problems, "attributes are not encoded with binary.LittleEndian")
	}
	if ir.HasGlobal(hs, "encoding/binary.BigEndian") {
		problems = append(problems, "attributes pass through binary.BigEndian")
	}
	// the attrs value must reach the encoder unmodified: no arithmetic on it
	for v := range hs {
		if b, ok := v.(*ssa.BinOp); ok && v.Parent() == fn {
			if bs := c.Slicer().Slice(b); bs[attrsP] {
				switch b.Op {
				case token.AND, token.AND_NOT, token.OR, token.XOR, token.SHL, token.SHR:
					problems = append(problems, "the attribute mask is modified ("+b.Op.String()+") before it is written")
				}
			}
		}
	}
	// attrs stored/reassigned before use (attrs &^= X creates a new SSA value; the
	// head must derive from the parameter directly, not only from a modified copy)
	c.R.Check(len(problems) == 0, "F3.buffer", fname, "File.Write.arg", c.IPos(w),
		"the write buffer is the 4-byte little-endian attribute mask followed by the value, and nothing else", strings.Join(problems, "; "))
}

// ruleReadShape: F6 gate, F7 read shape, F8 argument mapping, F11 fresh buffer.
func (c *Ctx) ruleReadShape() {
	// ---- F6: attribute gate in GetVarWithAttributes
	if fn := c.Fn("F6.gate", "efivarfs.(*EFIFS).GetVarWithAttributes"); fn != nil {
		fname := name(fn)
		var unm []ssa.CallInstruction
		instrsOf(fn, func(i ssa.Instruction) {
			if call, ok := i.(ssa.CallInstruction); ok && call.Common().IsInvoke() && call.Common().Method.Name() == "Unmarshal" {
				unm = append(unm, call)
			}
		})
		if len(unm) == 0 {
			c.R.Undecf("F6.gate", fname, "Unmarshal", c.Pos(fn.Pos()), "the decode call must be identifiable", "no Unmarshal call on the caller's Unmarshallable")
		}
		vP := paramByNamed(fn, M+"/efivar.Efivar")
		for _, u := range unm {
			good, detail := false, "no dominating test required.Equal(stored)"
			for _, ce := range ir.DominatingConds(fn, u.Block()) {
				call, ok := ce.Cond.(*ssa.Call)
				if !ok || ir.CallID(call) != M+"/efi/attributes.Attributes.Equal" || !ce.Truth {
					continue
				}
				recv, arg := call.Call.Args[0], call.Call.Args[1]
				rs, as := c.Slicer().Slice(recv), c.Slicer().Slice(arg)
				recvFromDef := vP != nil && rs[vP] && ir.HasField(rs, M+"/efivar.Efivar.Attributes")
				argFromFile := len(ir.CallsIn(as, M+"/efivarfs/fswrapper.FSWrapper.ReadEfivarsWithGuid", M+"/efivarfs/fswrapper.FSWrapper.ReadEfivarsFile", M+"/efivarfs/fswrapper.FSWrapper.ParseEfivars")) > 0
				recvFromFile := len(ir.CallsIn(rs, M+"/efivarfs/fswrapper.FSWrapper.ReadEfivarsWithGuid", M+"/efivarfs/fswrapper.FSWrapper.ReadEfivarsFile")) > 0
				switch {
				case recvFromDef && argFromFile && !recvFromFile:
					good = true
				case recvFromFile:
					detail = "Equal is called with the stored mask as receiver: (stored & required) == stored accepts files lacking required attributes"
				default:
					detail = "the operands of Equal do not derive from (variable definition, stored attributes)"
				}
			}
			c.R.Check(good, "F6.gate", fname, "Unmarshal<-Equal", c.IPos(u), "decoding happens only behind required.Equal(stored) == true", detail)
		}
		// Equal itself is (a & b) == a
		if eq := c.Fn("F6.gate", "efi/attributes.(Attributes).Equal"); eq != nil {
			ok := false
			for _, r := range ir.Returns(eq) {
				if cmp, isB := r.Results[0].(*ssa.BinOp); isB && cmp.Op == token.EQL {
					and, isAnd := cmp.X.(*ssa.BinOp)
					rhs := cmp.Y
					if !isAnd {
						and, isAnd = cmp.Y.(*ssa.BinOp)
						rhs = cmp.X
					}
					if isAnd && and.Op == token.AND && rhs == ssa.Value(eq.Params[0]) &&
						(and.X == ssa.Value(eq.Params[0]) && and.Y == ssa.Value(eq.Params[1]) || and.X == ssa.Value(eq.Params[1]) && and.Y == ssa.Value(eq.Params[0])) {
						ok = true
					}
				}
			}
			c.R.Check(ok, "F6.gate", name(eq), "subset-test", c.Pos(eq.Pos()), "Attributes.Equal is the subset test (a & b) == a", "body is not (a & b) == a")
		}
		// false edge returns ErrIncorrectAttributes
		okErr := false
		for _, r := range ir.Returns(fn) {
			if len(r.Results) == 2 {
				sl := c.Slicer().Slice(r.Results[1])
				if ir.HasGlobal(sl, M+"/efivarfs.ErrIncorrectAttributes") {
					okErr = true
				}
			}
		}
		c.R.Check(okErr, "F6.gate", fname, "wrong-attributes-error", c.Pos(fn.Pos()), "a failing gate returns the wrong-attributes error", "no return carries ErrIncorrectAttributes")
	}
	// ---- F7: read shape of the ParseEfivars twins
	for _, s := range []string{"efivarfs/fswrapper.(*FSWrapper).ParseEfivars", "efi/attributes.ParseEfivars"} {
		fn := c.Fn("F7.read", s)
		if fn == nil {
			continue
		}
		fname := name(fn)
		var reads []*ssa.Call
		instrsOf(fn, func(i ssa.Instruction) {
			if call, ok := i.(*ssa.Call); ok && ir.CallID(call) == "encoding/binary.Read" {
				reads = append(reads, call)
			}
		})
		sort.SliceStable(reads, func(i, j int) bool { return reads[i].Pos() < reads[j].Pos() })
		ok, det := len(reads) == 2, fmt.Sprintf("%d binary.Read calls (want: attributes, then remainder)", len(reads))
		if ok {
			for _, rd := range reads {
				if !isGlobalLoad(rd.Call.Args[1], "encoding/binary.LittleEndian") {
					ok, det = false, "a read does not use binary.LittleEndian"
				}
			}
			p0 := boxedValues(reads[0].Call.Args[2])
			if len(p0) != 1 || ir.NamedTypeID(p0[0].Type()) != M+"/efi/attributes.Attributes" {
				ok, det = false, "first read does not fill an attributes.Attributes (4 bytes)"
			}
			// second read fills make([]byte, size - 4)
			sl := c.Slicer().Slice(reads[1].Call.Args[2])
			foundMake := false
			for v := range sl {
				if mk, isMk := v.(*ssa.MakeSlice); isMk {
					if sub, isSub := ir.StripConv(mk.Len).(*ssa.BinOp); isSub && sub.Op == token.SUB {
						ss := c.Slicer().Slice(sub.Y)
						if k, isK := evalConst(sub.Y); isK && k == 4 || ir.HasGlobal(ss, M+"/efi/attributes.SizeofAttributes") {
							foundMake = true
						}
					}
				}
			}
			if !foundMake {
				ok, det = false, "second read does not fill a buffer of size-4 bytes"
			}
			// both reads' errors gate the success return
			for _, r := range ir.Returns(fn) {
				if retClass(fn, r) == "fail" {
					continue
				}
				for _, rd := range reads {
					e, kept := errValue(rd)
					if !kept || e == nil || !successDominates(fn, e, r.Block()) {
						ok, det = false, "success return at "+c.IPos(r)+" is not behind the nil-error edge of both reads"
					}
				}
			}
		}
		c.R.Check(ok, "F7.read", fname, "attrs-then-rest", c.Pos(fn.Pos()), "reads 4 little-endian attribute bytes, then the remainder, success only if both reads succeed", det)
		// F11: returned buffer is fresh
		fresh := true
		for _, r := range ir.Returns(fn) {
			if len(r.Results) < 2 || ir.IsNilConst(r.Results[1]) {
				continue
			}
			if call, isC := r.Results[1].(*ssa.Call); !isC || ir.CallID(call) != "bytes.NewBuffer" && ir.CallID(call) != "bytes.NewBufferString" {
				fresh = false
			}
		}
		c.R.Check(fresh, "F11.fresh", fname, "returned-buffer", c.Pos(fn.Pos()), "the returned value buffer is freshly constructed on every call", "a return hands out a buffer that is not constructed in this call (shared/cached buffers are drained by the first reader)")
	}
	for _, s := range []string{"efivarfs/fswrapper.(*FSWrapper).ReadEfivarsFile", "efi/attributes.ReadEfivarsFile", "efivarfs/fswrapper.(*FSWrapper).ReadEfivarsWithGuid", "efi/attributes.ReadEfivarsWithGuid"} {
		fn := c.Fn("F11.fresh", s)
		if fn == nil {
			continue
		}
		fresh, det := true, ""
		for _, r := range ir.Returns(fn) {
			if len(r.Results) < 2 {
				continue
			}
			v := r.Results[1]
			if ir.IsNilConst(v) {
				continue
			}
			if !c.freshBufferValue(fn, r, v, 0) {
				fresh, det = false, "return at "+c.IPos(r)+" hands out a buffer that does not come from the parser's fresh result"
			}
		}
		c.R.Check(fresh, "F11.fresh", name(fn), "returned-buffer", c.Pos(fn.Pos()), "the returned value buffer is the parser's freshly constructed buffer", det)
	}
	// ---- F8: argument mapping in WriteVar
	if fn := c.Fn("F8.args", "efivarfs.(*EFIFS).WriteVar"); fn != nil {
		fname := name(fn)
		vP := paramByNamed(fn, M+"/efivar.Efivar")
		var target *ssa.Call
		instrsOf(fn, func(i ssa.Instruction) {
			if call, ok := i.(*ssa.Call); ok && ir.CallID(call) == M+"/efivarfs/fswrapper.FSWrapper.WriteEfivarsWithGuid" {
				target = call
			}
		})
		if target == nil || vP == nil {
			c.R.Undecf("F8.args", fname, "WriteEfivarsWithGuid", c.Pos(fn.Pos()), "WriteVar forwards to the filesystem writer", "call not found")
		} else {
			args := target.Call.Args // recv, name, attrs, bytes, guid
			var bad []string
			want := []struct {
				idx   int
				field string
			}{{1, "Name"}, {2, "Attributes"}, {4, "GUID"}}
			for _, w := range want {
				sl := c.Slicer().Slice(args[w.idx])
				if !sl[vP] || !ir.HasField(sl, M+"/efivar.Efivar."+w.field) {
					bad = append(bad, fmt.Sprintf("argument %d does not derive from v.%s", w.idx, w.field))
				}
				for _, o := range want {
					if o.field != w.field && ir.HasField(sl, M+"/efivar.Efivar."+o.field) {
						bad = append(bad, fmt.Sprintf("argument %d also derives from v.%s", w.idx, o.field))
					}
				}
			}
			bs := c.Slicer().Slice(args[3])
			marshalled := false
			for v := range bs {
				if call, ok := v.(*ssa.Call); ok && call.Call.IsInvoke() && call.Call.Method.Name() == "Marshal" {
					marshalled = true
				}
			}
			if !marshalled {
				// object-state: the buffer whose Bytes() is passed received e.Marshal(&b)
				for v := range bs {
					if a, ok := v.(*ssa.Alloc); ok {
						for _, r := range *a.Referrers() {
							if call, ok := r.(ssa.CallInstruction); ok && call.Common().IsInvoke() && call.Common().Method.Name() == "Marshal" {
								marshalled = true
							}
						}
					}
				}
			}
			if !marshalled {
				bad = append(bad, "value bytes do not come from e.Marshal")
			}
			c.R.Check(len(bad) == 0, "F8.args", fname, "WriteEfivarsWithGuid.args", c.IPos(target), "WriteVar passes (v.Name, v.Attributes, marshalled value, *v.GUID) to the matching parameters", strings.Join(bad, "; "))
		}
	}
}

// freshBufferValue: v is (an extract of) a call to a parser twin / reader in the
// same family, or a named-result cell fed by one.
func (c *Ctx) freshBufferValue(fn *ssa.Function, r *ssa.Return, v ssa.Value, depth int) bool {
	if depth > 4 {
		return false
	}
	if ir.IsNilConst(v) {
		return true
	}
	switch x := v.(type) {
	case *ssa.Extract:
		if call, ok := x.Tuple.(*ssa.Call); ok {
			id := ir.CallID(call)
			return strings.HasSuffix(id, ".ParseEfivars") || strings.HasSuffix(id, ".ReadEfivarsFile") || strings.HasSuffix(id, ".ReadEfivarsWithGuid")
		}
	case *ssa.Call:
		return ir.CallID(x) == "bytes.NewBuffer"
	case *ssa.Phi:
		for _, e := range x.Edges {
			if !c.freshBufferValue(fn, r, e, depth+1) {
				return false
			}
		}
		return true
	case *ssa.UnOp:
		if a, ok := x.X.(*ssa.Alloc); ok && x.Op == token.MUL {
			for _, f := range withAnon(fn) {
				okAll := true
				instrsOf(f, func(i ssa.Instruction) {
					if st, isSt := i.(*ssa.Store); isSt && (st.Addr == ssa.Value(a) || cellOf(st.Addr) == ssa.Value(a)) {
						if !c.freshBufferValue(fn, r, st.Val, depth+1) {
							okAll = false
						}
					}
				})
				if !okAll {
					return false
				}
			}
			return true
		}
	}
	return false
}
