package rules

import (
	"go/token"
	"go/types"
	"sort"
	"strings"

	"golang.org/x/tools/go/ssa"

	"verif/checker/internal/ir"
)

// Rule family C: error discipline at the boundary to caller-supplied
// dependencies (crypto.Signer, afero filesystem, image readers).

type depInfo struct {
	c *Ctx
	// parameters that receive a dependency value at some library call site
	depParams map[*ssa.Parameter]string
	// repo functions whose returned error may stem from a dependency
	fallible map[*ssa.Function]string
}

func (c *Ctx) deps() *depInfo {
	if c.depCache != nil {
		return c.depCache
	}
	d := &depInfo{c: c, depParams: map[*ssa.Parameter]string{}, fallible: map[*ssa.Function]string{}}
	fns := c.P.LibFunctions()
	// exported image-reader parameters of package authenticode
	for _, fn := range c.ExportedAPI("authenticode") {
		for _, p := range fn.Params {
			if id := ir.NamedTypeID(p.Type()); id == "io.Reader" || id == "io.ReaderAt" {
				d.depParams[p] = "image reader"
			}
		}
	}
	for changed := true; changed; {
		changed = false
		for _, fn := range fns {
			instrsOf(fn, func(i ssa.Instruction) {
				call, ok := i.(ssa.CallInstruction)
				if !ok {
					return
				}
				callee := ir.Callee(call)
				if callee == nil || !c.P.InLib(callee) {
					return
				}
				args := call.Common().Args
				for k, p := range callee.Params {
					if k >= len(args) {
						break
					}
					if _, done := d.depParams[p]; done {
						continue
					}
					if kind := d.valueKind(args[k]); kind != "" {
						d.depParams[p] = kind
						changed = true
					}
				}
			})
		}
	}
	// fallible fix-point
	for changed := true; changed; {
		changed = false
		for _, fn := range fns {
			if _, ok := d.fallible[fn]; ok {
				continue
			}
			if !hasErrorResult(fn) {
				continue
			}
			instrsOf(fn, func(i ssa.Instruction) {
				call, ok := i.(ssa.CallInstruction)
				if !ok {
					return
				}
				if kind, _ := d.siteKind(call); kind != "" {
					if _, ok := d.fallible[fn]; !ok {
						d.fallible[fn] = kind
						changed = true
					}
				}
			})
		}
	}
	c.depCache = d
	return d
}

func hasErrorResult(fn *ssa.Function) bool {
	rs := fn.Signature.Results()
	return rs.Len() > 0 && isErrorType(rs.At(rs.Len()-1).Type())
}

// valueKind reports the dependency kind a value carries ("" if none).
func (d *depInfo) valueKind(v ssa.Value) string {
	return d.valueKindSeen(v, map[*ssa.Phi]bool{})
}

func (d *depInfo) valueKindSeen(v ssa.Value, seenPhi map[*ssa.Phi]bool) string {
	for depth := 0; v != nil && depth < 8; depth++ {
		if k := dependencyKind(v.Type()); k != "" {
			return k
		}
		switch x := v.(type) {
		case *ssa.Parameter:
			return d.depParams[x]
		case *ssa.MakeInterface:
			v = x.X
		case *ssa.ChangeInterface:
			v = x.X
		case *ssa.ChangeType:
			v = x.X
		case *ssa.TypeAssert:
			v = x.X
		case *ssa.Call:
			// readers constructed over a dependency
			switch ir.CallID(x) {
			case "io.NewSectionReader", "io.LimitReader", "bufio.NewReader", "io.TeeReader":
				v = x.Call.Args[0]
			default:
				if callee := ir.Callee(x); callee != nil && d.c.P.InLib(callee) && len(callee.Params) > 0 {
					// repo constructors like makeSectionReader(at)
					for _, a := range x.Call.Args {
						if k := d.valueKind(a); k != "" && implementsReader(x.Type()) {
							return k
						}
					}
				}
				return ""
			}
		case *ssa.UnOp:
			if x.Op == token.MUL {
				// field of the receiver holding the dependency (t.fs, p.hashContent)
				if k := dependencyKind(x.Type()); k != "" {
					return k
				}
			}
			return ""
		case *ssa.Phi:
			if seenPhi[x] {
				return ""
			}
			seenPhi[x] = true
			for _, e := range x.Edges {
				if k := d.valueKindSeen(e, seenPhi); k != "" {
					return k
				}
			}
			return ""
		default:
			return ""
		}
	}
	return ""
}

var forwarders = map[string][]int{ // callee id -> indices of reader/writer args that may be the dependency
	"encoding/binary.Read": {0}, "io.Copy": {0, 1}, "io.CopyN": {0, 1}, "io.ReadAll": {0}, "io.ReadFull": {0},
	"io.ReadAtLeast": {0}, "debug/pe.NewFile": {0}, "bytes.Buffer.ReadFrom": {1}, "io.WriteString": {0},
	"encoding/binary.Write": {0},
}

// siteKind classifies a call instruction as a dependency call site: the kind
// and a short label of the callee.
func (d *depInfo) siteKind(call ssa.CallInstruction) (kind, label string) {
	cc := call.Common()
	id := ir.CallID(call)
	if cc.IsInvoke() {
		if k := d.valueKind(cc.Value); k != "" {
			// only methods that return an error are fallible sites
			if sigHasError(cc.Method.Type().(*types.Signature)) {
				return k, shortTypeName(cc.Value.Type()) + "." + cc.Method.Name()
			}
		}
		return "", ""
	}
	if idxs, ok := forwarders[id]; ok {
		for _, k := range idxs {
			if k < len(cc.Args) {
				if kind := d.valueKind(cc.Args[k]); kind != "" {
					return kind, id
				}
			}
		}
		return "", ""
	}
	if callee := ir.Callee(call); callee != nil && d.c.P.InLib(callee) {
		if k, ok := d.fallible[callee]; ok {
			return k, name(callee)
		}
	}
	return "", ""
}

func sigHasError(sig *types.Signature) bool {
	rs := sig.Results()
	return rs.Len() > 0 && isErrorType(rs.At(rs.Len()-1).Type())
}

func shortTypeName(t types.Type) string {
	s := ir.NamedTypeID(t)
	if i := strings.LastIndex(s, "/"); i >= 0 {
		s = s[i+1:]
	}
	return s
}

// errValue returns the SSA value holding the error result of a call (nil if
// the result is dropped).
func errValue(call ssa.CallInstruction) (ssa.Value, bool) {
	v, ok := call.(*ssa.Call)
	if !ok {
		return nil, false // defer / go: result dropped
	}
	var sig *types.Signature
	if v.Call.IsInvoke() {
		sig = v.Call.Method.Type().(*types.Signature)
	} else {
		sig = v.Call.Signature()
	}
	n := sig.Results().Len()
	if n == 0 {
		return nil, true
	}
	if n == 1 {
		if v.Referrers() == nil || len(*v.Referrers()) == 0 {
			return nil, false
		}
		return v, true
	}
	for _, r := range *v.Referrers() {
		if ex, ok := r.(*ssa.Extract); ok && ex.Index == n-1 {
			if ex.Referrers() != nil && len(*ex.Referrers()) > 0 {
				return ex, true
			}
		}
	}
	return nil, false
}

// isEOFTest reports whether cond tests err against io.EOF (== or errors.Is),
// returning the tested value.
func isEOFTest(cond ssa.Value) (ssa.Value, bool) {
	core, _ := ir.Peel(cond)
	switch x := core.(type) {
	case *ssa.BinOp:
		if x.Op == token.EQL || x.Op == token.NEQ {
			if isGlobalLoad(x.Y, "io.EOF") {
				return x.X, true
			}
			if isGlobalLoad(x.X, "io.EOF") {
				return x.Y, true
			}
		}
	case *ssa.Call:
		id := ir.CallID(x)
		if (id == "errors.Is" || id == "github.com/pkg/errors.Is") && len(x.Call.Args) == 2 && isGlobalLoad(x.Call.Args[1], "io.EOF") {
			return x.Call.Args[0], true
		}
	}
	return nil, false
}

func isGlobalLoad(v ssa.Value, id string) bool {
	v = ir.StripIface(v)
	u, ok := v.(*ssa.UnOp)
	if !ok || u.Op != token.MUL {
		return false
	}
	g, ok := u.X.(*ssa.Global)
	return ok && g.Pkg != nil && g.Pkg.Pkg.Path()+"."+g.Name() == id
}

// sameErr: v is e, or a load of the cell e was stored to / phi containing e.
func derivesFromErr(v, e ssa.Value, depth int) bool {
	if v == e {
		return true
	}
	if depth > 6 || v == nil {
		return false
	}
	switch x := v.(type) {
	case *ssa.Phi:
		for _, ed := range x.Edges {
			if derivesFromErr(ed, e, depth+1) {
				return true
			}
		}
	case *ssa.Call:
		// wraps: fmt.Errorf(..., e), errors.Wrap(e, ...)
		for _, a := range x.Call.Args {
			if derivesFromErr(a, e, depth+1) {
				return true
			}
		}
		if isFreshErrorCall(x) {
			return true
		}
	case *ssa.MakeInterface:
		return derivesFromErr(x.X, e, depth+1)
	case *ssa.Slice:
		return derivesFromErr(x.X, e, depth+1)
	case *ssa.UnOp:
		if x.Op == token.MUL {
			// variadic slice element / spilled cell: any store of e into the root alloc
			root := ir.RootOf(x.X)
			if a, ok := root.(*ssa.Alloc); ok {
				for _, f := range withAnon(topFn(a.Parent())) {
					found := false
					instrsOf(f, func(i ssa.Instruction) {
						if st, ok := i.(*ssa.Store); ok && ir.RootOf(st.Addr) == ssa.Value(a) && derivesFromErr(st.Val, e, depth+1) {
							found = true
						}
					})
					if found {
						return true
					}
				}
			}
		}
	case *ssa.Alloc:
		for _, f := range withAnon(topFn(x.Parent())) {
			found := false
			instrsOf(f, func(i ssa.Instruction) {
				if st, ok := i.(*ssa.Store); ok && ir.RootOf(st.Addr) == ssa.Value(x) && derivesFromErr(st.Val, e, depth+1) {
					found = true
				}
			})
			if found {
				return true
			}
		}
	}
	return false
}

func isFreshErrorCall(c *ssa.Call) bool {
	switch ir.CallID(c) {
	case "errors.New", "fmt.Errorf", "github.com/pkg/errors.New", "github.com/pkg/errors.Errorf",
		"github.com/pkg/errors.Wrap", "github.com/pkg/errors.Wrapf", "github.com/pkg/errors.WithMessage",
		"github.com/pkg/errors.WithMessagef", "github.com/pkg/errors.WithStack", "errors.Join":
		return true
	}
	return false
}

// definitelyNonNilErr: fresh error constructors, package-level Err* sentinels.
func definitelyNonNilErr(v ssa.Value, depth int) bool {
	if depth > 5 || v == nil {
		return false
	}
	switch x := v.(type) {
	case *ssa.Call:
		return isFreshErrorCall(x)
	case *ssa.MakeInterface:
		return true // &T{} / value boxed as error
	case *ssa.UnOp:
		if x.Op == token.MUL {
			if g, ok := x.X.(*ssa.Global); ok && strings.HasPrefix(g.Name(), "Err") || ok && strings.HasPrefix(g.Name(), "err") {
				return true
			}
			if g, ok := x.X.(*ssa.Global); ok && g.Pkg != nil && g.Pkg.Pkg.Path() == "io" && g.Name() == "EOF" {
				return true
			}
		}
	case *ssa.Phi:
		for _, e := range x.Edges {
			if !definitelyNonNilErr(e, depth+1) {
				return false
			}
		}
		return len(x.Edges) > 0
	}
	return false
}

// failureEdges returns the CFG edges on which error value e is known non-nil
// (excluding edges on which e is known to be io.EOF).
func failureEdges(fn *ssa.Function, e ssa.Value) (fail []ir.Edge, eofCut map[ir.Edge]bool, tested bool) {
	eofCut = map[ir.Edge]bool{}
	for _, b := range fn.Blocks {
		if len(b.Instrs) == 0 || len(b.Succs) != 2 {
			continue
		}
		ifi, ok := b.Instrs[len(b.Instrs)-1].(*ssa.If)
		if !ok {
			continue
		}
		if v, nilWhenTrue, ok := ir.NilCheck(ifi.Cond); ok && sameErrValue(v, e) {
			tested = true
			if nilWhenTrue {
				fail = append(fail, ir.Edge{From: b.Index, To: b.Succs[1].Index})
			} else {
				fail = append(fail, ir.Edge{From: b.Index, To: b.Succs[0].Index})
			}
			continue
		}
		if v, ok := isEOFTest(ifi.Cond); ok && sameErrValue(v, e) {
			_, neg := ir.Peel(ifi.Cond)
			core, _ := ir.Peel(ifi.Cond)
			isEq := true
			if bo, ok := core.(*ssa.BinOp); ok && bo.Op == token.NEQ {
				isEq = false
			}
			eofOnTrue := isEq != neg
			if eofOnTrue {
				eofCut[ir.Edge{From: b.Index, To: b.Succs[0].Index}] = true
				// the false edge of an EOF test is a failure edge only if e != nil is
				// established elsewhere; errors.Is(nil, EOF) is false, so it is not.
			} else {
				eofCut[ir.Edge{From: b.Index, To: b.Succs[1].Index}] = true
			}
		}
	}
	return
}

func sameErrValue(v, e ssa.Value) bool {
	if v == e {
		return true
	}
	// loads of the same spilled cell
	if lu, ok := v.(*ssa.UnOp); ok && lu.Op == token.MUL {
		if a, ok := lu.X.(*ssa.Alloc); ok {
			for _, r := range *a.Referrers() {
				if st, ok := r.(*ssa.Store); ok && st.Addr == a && st.Val == e {
					return true
				}
			}
		}
	}
	if ph, ok := v.(*ssa.Phi); ok {
		for _, ed := range ph.Edges {
			if ed == e {
				return true
			}
		}
	}
	return false
}

// sameErrValueAt is sameErrValue with the position taken into account: a load
// of a spilled cell stands for e only when the store of e is the last store
// to the cell that dominates the load.
func sameErrValueAt(v, e ssa.Value) bool {
	lu, ok := v.(*ssa.UnOp)
	if !ok || lu.Op != token.MUL {
		return sameErrValue(v, e)
	}
	a, ok := lu.X.(*ssa.Alloc)
	if !ok {
		return sameErrValue(v, e)
	}
	before := func(x, y ssa.Instruction) bool {
		if x.Block() == y.Block() {
			for _, i := range x.Block().Instrs {
				if i == x {
					return true
				}
				if i == y {
					return false
				}
			}
		}
		return x.Block().Dominates(y.Block())
	}
	var last *ssa.Store
	for _, r := range *a.Referrers() {
		st, ok := r.(*ssa.Store)
		if !ok || st.Addr != a || !before(st, lu) {
			continue
		}
		if last == nil || before(last, st) {
			last = st
		}
	}
	return last != nil && last.Val == e
}

// RuleC judges every dependency call site in scope.
func (c *Ctx) RuleC(in func(*ssa.Function) bool) int {
	d := c.deps()
	counts := map[string]int{}
	n := 0
	var fns []*ssa.Function
	for _, fn := range c.P.LibFunctions() {
		if in == nil || in(fn) {
			fns = append(fns, fn)
		}
	}
	sort.Slice(fns, func(i, j int) bool { return name(fns[i]) < name(fns[j]) })
	for _, fn := range fns {
		fn := fn
		var sites []ssa.CallInstruction
		instrsOf(fn, func(i ssa.Instruction) {
			if call, ok := i.(ssa.CallInstruction); ok {
				if kind, _ := d.siteKind(call); kind != "" {
					sites = append(sites, call)
				}
			}
		})
		for _, call := range sites {
			kind, label := d.siteKind(call)
			n++
			c.R.CallSites++
			base := name(fn) + ":" + shortID(label)
			key := ordinalKey(counts, base)
			construct := strings.TrimPrefix(key, name(fn)+":")
			pos := c.IPos(call)
			// does the callee return an error at all?
			var sig *types.Signature
			if call.Common().IsInvoke() {
				sig = call.Common().Method.Type().(*types.Signature)
			} else {
				sig = call.Common().Signature()
			}
			if !sigHasError(sig) {
				n--
				continue
			}
			e, kept := errValue(call)
			// the digest helpers have no error result: their failure is the "no value"
			// outcome. A helper whose failing returns hand back nil next to the error,
			// called with the error left aside and its value returned as it is, keeps that
			// outcome (rule C5 makes every caller test the value)
			if (!kept || e == nil) && c.noValueForwarded(fn, call) {
				c.R.Okf("C1.dropped", name(fn), construct, pos, "the error of "+label+" is left aside, but the nil value that comes with it is what the function returns (the 'no value' outcome)")
				continue
			}
			// C1: not dropped
			if !c.R.Check(kept && e != nil, "C1.dropped", name(fn), construct, pos,
				"error of the caller-supplied "+kind+" ("+label+") must not be dropped",
				"the error result is discarded (expression statement, blank assignment or bare defer)") {
				continue
			}
			c.judgeFailureRegion(fn, call.(*ssa.Call), e, kind, label, construct)
		}
	}
	return n
}

// noValueForwarded: fn is one of the digest functions without an error result,
// the call is to a library helper that returns (value, error) with a nil value
// on every failing return, and fn returns that value unchanged.
func (c *Ctx) noValueForwarded(fn *ssa.Function, ci ssa.CallInstruction) bool {
	call, ok := ci.(*ssa.Call)
	if !ok || hasErrorResult(fn) || fn.Signature.Results().Len() != 1 {
		return false
	}
	if !(strings.HasSuffix(name(fn), ".Hash") || fn.Object() != nil && !fn.Object().Exported() && strings.HasPrefix(name(fn), "authenticode.")) {
		return false
	}
	callee := ir.Callee(call)
	if callee == nil || !c.P.InLib(callee) || callee.Blocks == nil || callee.Signature.Results().Len() != 2 || !hasErrorResult(callee) {
		return false
	}
	for _, r := range ir.Returns(callee) {
		if len(r.Results) != 2 {
			return false
		}
		if !ir.IsNilConst(r.Results[1]) && !ir.IsNilConst(r.Results[0]) {
			return false // a failing return that hands out a value
		}
	}
	var val ssa.Value
	for _, r := range *call.Referrers() {
		if ex, isEx := r.(*ssa.Extract); isEx && ex.Index == 0 {
			val = ex
		}
	}
	if val == nil {
		return false
	}
	for _, r := range ir.Returns(fn) {
		if len(r.Results) != 1 {
			return false
		}
		if r.Results[0] != val && !ir.IsNilConst(r.Results[0]) {
			return false
		}
	}
	return true
}

// judgeFailureRegion implements C2: on every path after e != nil, each return
// carries a non-nil error (or, without an error result, the documented "no
// value" outcome).
func (c *Ctx) judgeFailureRegion(fn *ssa.Function, call *ssa.Call, e ssa.Value, kind, label, construct string) {
	pos := c.IPos(call)
	what := "failure of the caller-supplied " + kind + " (" + label + ") must surface as an error on every path"
	fail, eofCut, tested := failureEdges(fn, e)
	hasErr := hasErrorResult(fn)
	var starts []*ssa.BasicBlock
	viaEdge := map[int]ir.Edge{}
	if tested {
		for _, fe := range fail {
			starts = append(starts, fn.Blocks[fe.To])
			viaEdge[fe.To] = fe
		}
	} else {
		starts = append(starts, call.Block())
	}
	okAll := true
	detail := ""
	for _, st := range starts {
		fromPred := -1
		if fe, ok := viaEdge[st.Index]; ok && tested {
			fromPred = fe.From
		}
		// e is non-nil in the region; a merged error variable that carries e on the
		// entering edge cannot test nil afterwards
		seen, _ := ir.ReachFN(fn, st, fromPred, eofCut, map[ssa.Value]bool{e: true})
		// when starting at the call's own block (untested error), the returns
		// must carry e itself
		for _, r := range ir.Returns(fn) {
			if !seen[r.Block().Index] {
				continue
			}
			if !tested && r.Block() == call.Block() && !returnsAfter(call, r) {
				continue
			}
			if (fn.Parent() != nil || c.errOutParam(fn) != nil) && !hasErr {
				// deferred closure idiom: must store into the parent's error cell
				if !c.closureReportsError(fn, st, e) {
					okAll = false
					detail = "deferred closure does not propagate the error into the enclosing function's error result"
				}
				continue
			}
			if !hasErr {
				// no error result: accept only a nil/zero "no value" return for digest computation
				// (the digest helpers: Hash and the unexported functions it delegates to;
				// rule C5 then requires every caller to test the value)
				if isNoValueReturnIn(r, seen) && (strings.HasSuffix(name(fn), ".Hash") || fn.Object() != nil && !fn.Object().Exported() && strings.HasPrefix(name(fn), "authenticode.")) {
					continue
				}
				okAll = false
				detail = "function has no error result; the failure is mapped to an ordinary return value at " + c.IPos(r)
				continue
			}
			ev := r.Results[len(r.Results)-1]
			if !c.errOperandOK(fn, r, ev, e, seen, tested) {
				// a read-until-full loop: the return lies behind the test that the running total
				// of the counts has reached the length of the buffer - everything asked for was
				// delivered, which makes the error of the last call irrelevant (io.ReadFull)
				if fullTotalDominates(fn, call, r) {
					continue
				}
				okAll = false
				detail = "return at " + c.IPos(r) + " may report success (error operand neither derives from the failed call nor is definitely non-nil)"
			}
		}
	}
	c.R.Check(okAll, "C2.surface", name(fn), construct, pos, what, detail)
	// C2.bypass: the test of the error is not skipped on the way to a successful
	// return. A read whose count came back short is the case that matters: the
	// error is what tells a failure from the end of the input, and a return taken
	// on "short count" before the error is looked at reports a failed read as a
	// clean end. (A full count makes the error irrelevant: io.ReaderAt, io.ReadFull.)
	if tested && hasErr && okAll {
		cut := map[ir.Edge]bool{}
		for _, ce := range ir.CondEdges(fn) {
			if ce.If == nil {
				continue
			}
			uses := false
			if v, _ := errIsNil(ce.RawCond, ce.RawTruth); v != nil && sameErrValue(v, e) {
				uses = true
			}
			if ev, ok := isEOFTest(ce.RawCond); ok && (ev == e || sameErrValue(ev, e)) {
				uses = true
			}
			if uses {
				cut[ce.Edge] = true
			}
			// the count equals the length of the buffer handed in: nothing is missing
			if cmp, ok := ce.Cond.(*ssa.BinOp); ok && (fullCountEdge(call, cmp, ce.Truth) || fullTotalEdge(call, cmp, ce.Truth)) {
				cut[ce.Edge] = true
			}
		}
		seen, _ := ir.ReachF(fn, call.Block(), cut)
		for r, cl := range retClassesFrom(fn, call.Block(), -1) {
			if cl != "success" || !seen[r.Block().Index] || r.Block() == call.Block() {
				continue
			}
			// a return that hands the error of the call on is not a bypass of it
			if last := len(r.Results) - 1; last >= 0 {
				if ev := effectiveResult(fn, r, last); derivesFromErr(ev, e, 0) || sameErrValue(ev, e) {
					continue
				}
			}
			// reachable without passing any test of the error?
			if bypass, _ := ir.Reach(fn, call.Block(), cut); bypass[r.Block().Index] {
				c.R.Violf("C2.bypass", name(fn), construct, pos, "the error of the call is looked at on every path to a successful return",
					"the successful return at "+c.IPos(r)+" is reachable from the call without any test of its error (a short count is taken for the end of the input before the error is examined): a failing "+kind+" is reported as a clean end")
				return
			}
		}
		c.R.Okf("C2.bypass", name(fn), construct, pos, "every path from the call to a successful return tests its error (or has a full count)")
	}
}

// fullCountEdge: on this edge the count returned by the read call equals the
// length of the buffer it was given.
func fullCountEdge(call *ssa.Call, cmp *ssa.BinOp, truth bool) bool {
	args := ir.CallArgs(call)
	isCount := func(v ssa.Value) bool {
		ex, ok := ir.StripConv(v).(*ssa.Extract)
		return ok && ex.Tuple == ssa.Value(call) && ex.Index == 0
	}
	isBufLen := func(v ssa.Value) bool {
		lc, ok := ir.StripConv(v).(*ssa.Call)
		if !ok || ir.CallID(lc) != "builtin.len" {
			return false
		}
		for _, a := range args {
			if a == lc.Call.Args[0] || ir.AccessPath(a) != "" && ir.AccessPath(a) == ir.AccessPath(lc.Call.Args[0]) {
				return true
			}
		}
		return false
	}
	op := cmp.Op
	if !truth {
		op = negate(op)
	}
	x, y := cmp.X, cmp.Y
	if isBufLen(x) && isCount(y) {
		x, y, op = y, x, flip(op)
	}
	if !isCount(x) || !isBufLen(y) {
		return false
	}
	return op == token.EQL || op == token.GEQ
}

func returnsAfter(call *ssa.Call, r *ssa.Return) bool {
	after := false
	for _, i := range call.Block().Instrs {
		if i == ssa.Instruction(call) {
			after = true
		}
		if i == ssa.Instruction(r) {
			return after
		}
	}
	return false
}

// isNoValueReturnIn: on the paths of the region the return hands out nil/zero
// (a merged result is judged by the edges that come out of the region).
func isNoValueReturnIn(r *ssa.Return, region map[int]bool) bool {
	for _, v := range r.Results {
		ph, isPhi := v.(*ssa.Phi)
		if !isPhi || ph.Block() != r.Block() {
			if !isNoValueReturn(&ssa.Return{Results: []ssa.Value{v}}) {
				return false
			}
			continue
		}
		for k, pred := range ph.Block().Preds {
			if !region[pred.Index] {
				continue
			}
			if !isNoValueReturn(&ssa.Return{Results: []ssa.Value{ph.Edges[k]}}) {
				return false
			}
		}
	}
	return true
}

func isNoValueReturn(r *ssa.Return) bool {
	for _, v := range r.Results {
		if !ir.IsNilConst(v) {
			if c, ok := v.(*ssa.Const); ok && c.Value != nil {
				continue
			}
			return false
		}
	}
	return true
}

// errOperandOK judges the error operand of return r for a failure of e.
func (c *Ctx) errOperandOK(fn *ssa.Function, r *ssa.Return, ev, e ssa.Value, region map[int]bool, tested bool) bool {
	return c.errOperandOKSeen(fn, r, ev, e, region, tested, map[ssa.Value]bool{})
}

// errOperandOKSeen: seen holds the phis already under judgement (a loop-carried
// error variable is a cycle of phis; an edge back into it adds nothing).
func (c *Ctx) errOperandOKSeen(fn *ssa.Function, r *ssa.Return, ev, e ssa.Value, region map[int]bool, tested bool, seen map[ssa.Value]bool) bool {
	if derivesFromErr(ev, e, 0) && !isPhi(ev) {
		return true
	}
	if definitelyNonNilErr(ev, 0) {
		return true
	}
	if ph, ok := ev.(*ssa.Phi); ok {
		if seen[ph] {
			return true
		}
		seen[ph] = true
		// only the incoming edges that lie in the failure region matter
		for k, pred := range ph.Block().Preds {
			if !region[pred.Index] {
				continue
			}
			if !c.errOperandOKSeen(fn, r, ph.Edges[k], e, region, tested, seen) {
				return false
			}
		}
		return true
	}
	// error returned by a repo/stdlib call made in the failure region (e.g.
	// cleanup that itself fails) — accept only when that call's block is in the region
	if u, ok := ev.(*ssa.UnOp); ok && u.Op == token.MUL {
		// named result cell: every store reaching here from the region must be ok;
		// approximate: some store of an e-derived or fresh error exists in the region
		if a, ok := u.X.(*ssa.Alloc); ok {
			good := false
			for _, ref := range *a.Referrers() {
				if st, ok := ref.(*ssa.Store); ok && region[st.Block().Index] {
					if derivesFromErr(st.Val, e, 0) || definitelyNonNilErr(st.Val, 0) {
						good = true
					} else if !ir.IsNilConst(st.Val) {
						good = true
					} else {
						return false
					}
				}
			}
			if good {
				return true
			}
			// e itself was stored to the cell before the test (err = f()):
			for _, ref := range *a.Referrers() {
				if st, ok := ref.(*ssa.Store); ok && derivesFromErr(st.Val, e, 0) {
					return true
				}
			}
		}
	}
	// another error value (an earlier failure handed in): fine if, coming out of the
	// failure region, the return is only entered on edges where that value tested non-nil
	rb := r.Block()
	entered, all := 0, true
	for _, pred := range rb.Preds {
		if !region[pred.Index] {
			continue
		}
		entered++
		ifi, isIf := pred.Instrs[len(pred.Instrs)-1].(*ssa.If)
		if !isIf {
			all = false
			continue
		}
		v, nilWhenTrue, isNilTest := ir.NilCheck(ifi.Cond)
		if !isNilTest || v != ev {
			all = false
			continue
		}
		takenTrue := pred.Succs[0] == rb
		if takenTrue == nilWhenTrue {
			all = false // entered on the edge where it is nil
		}
	}
	return entered > 0 && all
}

func isPhi(v ssa.Value) bool { _, ok := v.(*ssa.Phi); return ok }

// closureReportsError: inside a deferred closure, every path from the failure
// start to the closure's exit stores an e-derived/fresh error into a captured
// error cell, or passes the edge on which that cell is already non-nil.
// errOutParam: fn is an unexported cleanup helper without an error result that
// reports through a parameter of type *error, and at every call site in the
// library (there is at least one) that parameter is the address of an error
// result of the caller which is read back after the deferred calls ran —
// `defer closeInto(f, &err)`.
func (c *Ctx) errOutParam(fn *ssa.Function) *ssa.Parameter {
	if fn.Parent() != nil || fn.Object() == nil || fn.Object().Exported() {
		return nil
	}
	var out *ssa.Parameter
	idx := -1
	for k, p := range fn.Params {
		if pt, ok := p.Type().Underlying().(*types.Pointer); ok && isErrorType(pt.Elem()) {
			if out != nil {
				return nil
			}
			out, idx = p, k
		}
	}
	if out == nil {
		return nil
	}
	node := c.P.CallGraph().Nodes[fn]
	if node == nil {
		return nil
	}
	sites := 0
	for _, in := range node.In {
		if in.Site == nil || !c.P.InLib(in.Caller.Func) {
			continue
		}
		if in.Caller.Func.Synthetic != "" && len(in.Caller.In) == 0 {
			continue // the pointer-receiver wrapper of the method, which nothing calls
		}
		args := ir.CallArgs(in.Site)
		if idx >= len(args) {
			return nil
		}
		switch a := args[idx].(type) {
		case *ssa.Alloc:
			// defer helper(f, &err)
			if _, isDefer := in.Site.(*ssa.Defer); !isDefer || !cellReadBackAfterDefers(a) {
				return nil
			}
		case *ssa.FreeVar:
			// called from a function literal that captured the result
			if !readBackAfterDefers(a) {
				return nil
			}
		default:
			return nil
		}
		sites++
	}
	if sites == 0 {
		return nil
	}
	return out
}

func (c *Ctx) closureReportsError(fn *ssa.Function, start *ssa.BasicBlock, e ssa.Value) bool {
	outP := c.errOutParam(fn)
	isCell := func(addr ssa.Value) bool {
		if fv, isFree := addr.(*ssa.FreeVar); isFree {
			return readBackAfterDefers(fv)
		}
		return outP != nil && addr == ssa.Value(outP)
	}
	cut := map[ir.Edge]bool{}
	storeBlocks := map[int]bool{}
	for _, b := range fn.Blocks {
		for _, i := range b.Instrs {
			if st, ok := i.(*ssa.Store); ok {
				if isErrorType(st.Val.Type()) && isCell(st.Addr) {
					if derivesFromErr(st.Val, e, 0) || definitelyNonNilErr(st.Val, 0) {
						storeBlocks[b.Index] = true
					}
				}
			}
		}
		if len(b.Succs) == 2 {
			if ifi, ok := b.Instrs[len(b.Instrs)-1].(*ssa.If); ok {
				if v, nilWhenTrue, ok := ir.NilCheck(ifi.Cond); ok && isErrorType(v.Type()) {
					if u, ok := v.(*ssa.UnOp); ok {
						if _, isFree := u.X.(*ssa.FreeVar); isFree || outP != nil && u.X == ssa.Value(outP) {
							// edge on which the captured error is non-nil
							if nilWhenTrue {
								cut[ir.Edge{From: b.Index, To: b.Succs[1].Index}] = true
							} else {
								cut[ir.Edge{From: b.Index, To: b.Succs[0].Index}] = true
							}
						}
					}
				}
			}
		}
	}
	if storeBlocks[start.Index] {
		return true
	}
	for _, b := range fn.Blocks {
		if storeBlocks[b.Index] {
			for _, s := range b.Succs {
				cut[ir.Edge{From: b.Index, To: s.Index}] = true
			}
		}
	}
	seen, _ := ir.Reach(fn, start, cut)
	for _, r := range ir.Returns(fn) {
		if seen[r.Block().Index] && !storeBlocks[r.Block().Index] {
			return false
		}
	}
	return true
}

// successEdgeDominates: target block is reached only through an edge on which
// the error of call `e` is nil.
func successDominates(fn *ssa.Function, e ssa.Value, target *ssa.BasicBlock) bool {
	for _, b := range fn.Blocks {
		if len(b.Succs) != 2 {
			continue
		}
		ifi, ok := b.Instrs[len(b.Instrs)-1].(*ssa.If)
		if !ok {
			continue
		}
		v, nilWhenTrue, ok := ir.NilCheck(ifi.Cond)
		if !ok || !sameErrValue(v, e) {
			continue
		}
		succ := b.Succs[1]
		if nilWhenTrue {
			succ = b.Succs[0]
		}
		if ir.EdgeDominates(fn, ir.Edge{From: b.Index, To: succ.Index}, target) {
			return true
		}
	}
	return false
}

// RuleC5: a repo function without an error result that maps a dependency
// failure to a nil value ("no digest") is only safe if its in-library callers
// test the value before using it.
func (c *Ctx) RuleC5(in func(*ssa.Function) bool) {
	d := c.deps()
	noValue := map[*ssa.Function]string{}
	for _, fn := range c.P.LibFunctions() {
		if hasErrorResult(fn) || fn.Signature.Results().Len() != 1 {
			continue
		}
		if c.errOutParam(fn) != nil {
			continue // reports through its *error parameter (C2 judges that), not through the value
		}
		instrsOf(fn, func(i ssa.Instruction) {
			if call, ok := i.(ssa.CallInstruction); ok {
				if kind, _ := d.siteKind(call); kind != "" {
					for _, r := range ir.Returns(fn) {
						if isNoValueReturn(r) {
							noValue[fn] = kind
						}
					}
				}
			}
		})
	}
	// a function that hands the value of such a helper straight on is one itself
	for changed := true; changed; {
		changed = false
		for _, fn := range c.P.LibFunctions() {
			if _, done := noValue[fn]; done || hasErrorResult(fn) || fn.Signature.Results().Len() != 1 {
				continue
			}
			for _, r := range ir.Returns(fn) {
				if call, ok := r.Results[0].(*ssa.Call); ok {
					if kind, isNV := noValue[ir.Callee(call)]; isNV {
						noValue[fn] = kind
						changed = true
					}
				}
			}
		}
	}
	counts := map[string]int{}
	for _, fn := range c.P.LibFunctions() {
		if in != nil && !in(fn) {
			continue
		}
		fn := fn
		instrsOf(fn, func(i ssa.Instruction) {
			call, ok := i.(*ssa.Call)
			if !ok {
				return
			}
			callee := ir.Callee(call)
			kind, isNV := noValue[callee]
			if callee == nil || !isNV {
				return
			}
			key := ordinalKey(counts, name(fn)+":"+name(callee))
			okAll, where := true, ""
			for _, u := range *call.Referrers() {
				// comparisons with nil and len() feeding a comparison are the test itself
				if b, isB := u.(*ssa.BinOp); isB && (b.Op == token.EQL || b.Op == token.NEQ) {
					continue
				}
				// handed straight on by a function that is a 'no value' function itself: its callers are judged
				if _, isRet := u.(*ssa.Return); isRet {
					if _, self := noValue[fn]; self {
						continue
					}
				}
				if lc, isC := u.(*ssa.Call); isC && ir.CallID(lc) == "builtin.len" {
					continue
				}
				guarded := false
				for _, ce := range ir.DominatingConds(fn, u.Block()) {
					if v, nilWhenTrue, ok := ir.NilCheck(ce.RawCond); ok && v == ssa.Value(call) {
						succTrue := ce.RawTruth
						if succTrue != nilWhenTrue {
							guarded = true
						}
					}
					if cmp, ok := ce.Cond.(*ssa.BinOp); ok {
						if lc, ok := ir.StripConv(cmp.X).(*ssa.Call); ok && ir.CallID(lc) == "builtin.len" && lc.Call.Args[0] == ssa.Value(call) {
							op := cmp.Op
							if !ce.Truth {
								op = negate(op)
							}
							if op == token.NEQ || op == token.GTR {
								guarded = true
							}
						}
					}
				}
				if !guarded {
					okAll, where = false, c.IPos(u)
				}
			}
			c.R.Check(okAll, "C5.novalue", name(fn), strings.TrimPrefix(key, name(fn)+":"), c.IPos(call),
				"the 'no value' outcome of "+name(callee)+" (failure of the caller-supplied "+kind+") must be tested before the value is used",
				"result used at "+where+" without a dominating nil/length test: a reader failure would be processed as an empty value")
		})
	}
}

// readBackAfterDefers: the captured variable is a result cell of the enclosing
// function — some return reads it after the deferred calls ran. A store into
// any other captured local from a deferred function comes too late: the
// return value was fixed before the defers ran.
func readBackAfterDefers(fv *ssa.FreeVar) bool {
	cell, ok := ir.FreeVarBinding(fv).(*ssa.Alloc)
	if !ok || cell == nil {
		return true // not a local of the parent (nested capture): not judged here
	}
	return cellReadBackAfterDefers(cell)
}

// cellReadBackAfterDefers: the cell is a result of its function that is read
// back after the deferred calls ran.
func cellReadBackAfterDefers(cell *ssa.Alloc) bool {
	parent := cell.Parent()
	for _, b := range parent.Blocks {
		ret, isRet := b.Instrs[len(b.Instrs)-1].(*ssa.Return)
		if !isRet {
			continue
		}
		after := false
		for _, i := range b.Instrs {
			if _, isRD := i.(*ssa.RunDefers); isRD {
				after = true
				continue
			}
			if ld, isLd := i.(*ssa.UnOp); isLd && after && ld.X == ssa.Value(cell) {
				for _, res := range ret.Results {
					if res == ssa.Value(ld) {
						return true
					}
				}
			}
		}
	}
	return false
}
