package rules

import (
	"fmt"
	"go/token"
	"go/types"
	"os"

	"golang.org/x/tools/go/ssa"

	"verif/checker/internal/ir"
)

// Evaluator helpers added while triaging the sixth round of rewrites: shapes
// the rules did not follow (not new rules, no change of any decided condition).

// instrIndex: the position of an instruction in its block (-1 if absent).
func instrIndex(i ssa.Instruction) int {
	if i == nil || i.Block() == nil {
		return -1
	}
	for k, in := range i.Block().Instrs {
		if in == i {
			return k
		}
	}
	return -1
}

// runsBefore: instruction a dominates instruction b (same function): a has
// been executed whenever b is.
func runsBefore(a, b ssa.Instruction) bool {
	if a.Parent() != b.Parent() || a.Block() == nil || b.Block() == nil {
		return false
	}
	if a.Block() == b.Block() {
		return instrIndex(a) < instrIndex(b)
	}
	return a.Block().Dominates(b.Block())
}

// canRunAfter: some execution runs instruction b after instruction a (same function).
func canRunAfter(a, b ssa.Instruction) bool {
	fn := a.Parent()
	if fn != b.Parent() {
		return true
	}
	if a.Block() == b.Block() && instrIndex(a) < instrIndex(b) {
		return true
	}
	for _, s := range a.Block().Succs {
		if seen, _ := ir.Reach(fn, s, nil); seen[b.Block().Index] {
			return true
		}
	}
	return false
}

// cellInitAt: v loads a local variable that lives in a cell because a function
// literal captures it, at a point where the cell can only hold the one value
// the enclosing function itself stored: that store dominates the load, the
// address is used for nothing but loads, stores and captures, and every other
// store sits in a function literal that is made only after the load (and from
// whose creation the load cannot be reached again). Returns the stored value,
// nil otherwise.
func cellInitAt(v ssa.Value) ssa.Value {
	ld, ok := v.(*ssa.UnOp)
	if !ok || ld.Op != token.MUL {
		return nil
	}
	a, ok := ld.X.(*ssa.Alloc)
	if !ok || a.Referrers() == nil {
		return nil
	}
	fn := ld.Parent()
	if fn == nil || a.Parent() != fn {
		return nil
	}
	for _, r := range *a.Referrers() {
		switch x := r.(type) {
		case *ssa.UnOp:
			if x.Op != token.MUL {
				return nil
			}
		case *ssa.Store:
			if x.Addr != ssa.Value(a) {
				return nil
			}
		case *ssa.MakeClosure, *ssa.DebugRef:
		default:
			return nil
		}
	}
	var init *ssa.Store
	n, bad := 0, false
	for _, f := range withAnon(fn) {
		f := f
		instrsOf(f, func(i ssa.Instruction) {
			st, isSt := i.(*ssa.Store)
			if !isSt || cellOf(st.Addr) != ssa.Value(a) {
				return
			}
			if f == fn {
				init = st
				n++
				return
			}
			// the literal (or the literal it is nested in) that fn itself makes
			g := f
			for g.Parent() != nil && g.Parent() != fn {
				g = g.Parent()
			}
			if g.Parent() != fn {
				bad = true
				return
			}
			made := 0
			instrsOf(fn, func(j ssa.Instruction) {
				if mc, isMC := j.(*ssa.MakeClosure); isMC && mc.Fn == ssa.Value(g) {
					made++
					if !runsBefore(ld, mc) || canRunAfter(mc, ld) {
						bad = true
					}
				}
			})
			if made == 0 {
				bad = true
			}
		})
	}
	if bad || n != 1 || init == nil || !runsBefore(init, ld) {
		return nil
	}
	return init.Val
}

// resolveCellAt is resolveCell that also follows a captured variable that is
// still at its initial value where it is loaded (cellInitAt).
func resolveCellAt(v ssa.Value) ssa.Value {
	for depth := 0; depth < 6; depth++ {
		r := resolveCell(v)
		if iv := cellInitAt(r); iv != nil {
			v = ir.StripConv(iv)
			continue
		}
		return r
	}
	return v
}

// unsignedZeroOnEdge decodes a comparison of x with an integer constant on an edge
// where the comparison has the given truth, for x of unsigned type: reports x
// and whether the edge implies x == 0 (x == 0, x <= 0, x < 1, 0 == x, 0 >= x,
// 1 > x and the negations of their complements).
func unsignedZeroOnEdge(cmp *ssa.BinOp, truth bool) (ssa.Value, bool) {
	x, y, op := cmp.X, cmp.Y, cmp.Op
	if _, isK := ir.ConstInt(x); isK {
		x, y = y, x
		switch op {
		case token.LSS:
			op = token.GTR
		case token.LEQ:
			op = token.GEQ
		case token.GTR:
			op = token.LSS
		case token.GEQ:
			op = token.LEQ
		}
	}
	k, isK := ir.ConstInt(y)
	if !isK {
		return nil, false
	}
	if !truth {
		op = negate(op)
	}
	b, isB := ir.StripConv(x).Type().Underlying().(*types.Basic)
	unsigned := isB && b.Info()&types.IsUnsigned != 0
	switch {
	case op == token.EQL && k == 0:
		return x, true
	case unsigned && op == token.LEQ && k == 0:
		return x, true
	case unsigned && op == token.LSS && k == 1:
		return x, true
	}
	return x, false
}

// inAnyLoop: block b lies in a natural loop of fn.
func inAnyLoop(fn *ssa.Function, b *ssa.BasicBlock) bool {
	if b == nil {
		return true
	}
	for _, l := range naturalLoops(fn) {
		if l.body[b.Index] {
			return true
		}
	}
	return false
}

// plainCopyOf: v is the named struct field as it was read: a load of the field,
// or a parameter / local / phi that was handed that field (wherever the slicer
// binds it) with no arithmetic on the way and no other field of the same
// structure mixed in - not a number computed from it.
func (c *Ctx) plainCopyOf(v ssa.Value, fieldID string) bool {
	v = ir.StripConv(v)
	if ir.FieldID(v) == fieldID {
		return true
	}
	switch x := v.(type) {
	case *ssa.Parameter, *ssa.Phi, *ssa.FreeVar:
	case *ssa.UnOp:
		if x.Op != token.MUL {
			return false
		}
	default:
		return false
	}
	sl := c.sliceOf(v)
	if !ir.HasField(sl, fieldID) {
		return false
	}
	owner := fieldID
	for k := len(owner) - 1; k >= 0; k-- {
		if owner[k] == '.' {
			owner = owner[:k+1]
			break
		}
	}
	for w := range sl {
		switch x := w.(type) {
		case *ssa.BinOp:
			switch x.Op {
			case token.ADD, token.SUB, token.MUL, token.QUO, token.REM, token.SHL, token.SHR, token.AND, token.OR, token.XOR, token.AND_NOT:
				return false
			}
		case *ssa.FieldAddr, *ssa.Field:
			if id := ir.FieldID(x.(ssa.Value)); len(id) > len(owner) && id[:len(owner)] == owner && id != fieldID {
				return false
			}
		}
	}
	return true
}

// deferredVerdict: fn defers a function literal that may clear fn's named error
// result (it stores nil into the result cell, which the return reads back after
// the deferred calls ran): the verdict of fn is then given inside that literal.
// Returns the literal and its clearing stores.
func deferredVerdict(fn *ssa.Function) (*ssa.Function, []*ssa.Store) {
	var g *ssa.Function
	var stores []*ssa.Store
	instrsOf(fn, func(i ssa.Instruction) {
		d, ok := i.(*ssa.Defer)
		if !ok || g != nil {
			return
		}
		mc, ok := d.Call.Value.(*ssa.MakeClosure)
		if !ok {
			return
		}
		lit, ok := mc.Fn.(*ssa.Function)
		if !ok || lit.Blocks == nil {
			return
		}
		for _, fv := range lit.FreeVars {
			cell, isCell := ir.FreeVarBinding(fv).(*ssa.Alloc)
			if !isCell || cell.Parent() != fn || !cellReadBackAfterDefers(cell) {
				continue
			}
			if p, isP := cell.Type().Underlying().(*types.Pointer); !isP || !isErrorType(p.Elem()) {
				continue
			}
			instrsOf(lit, func(j ssa.Instruction) {
				if st, isSt := j.(*ssa.Store); isSt && st.Addr == ssa.Value(fv) && ir.IsNilConst(st.Val) {
					stores = append(stores, st)
				}
			})
		}
		if len(stores) > 0 {
			g = lit
		}
	})
	return g, stores
}

// requireDeferred is Require for a function without an accepting return of its
// own whose deferred function literal g clears the error result: each place
// where g does so is an accepting exit, and every path of g to it must cross
// an edge (of g) that establishes the fact.
func (e *acceptEngine) requireDeferred(rule string, fn, g *ssa.Function, stores []*ssa.Store, facts []*fact) {
	for _, f := range facts {
		cut := map[ir.Edge]bool{}
		for _, ce := range ir.CondEdges(g) {
			if f.direct(e.c, g, ce) {
				cut[ce.Edge] = true
			}
		}
		ok, wit, where := true, "", ""
		seen, prev := ir.ReachF(g, g.Blocks[0], cut)
		for _, st := range stores {
			if seen[st.Block().Index] {
				ok, where = false, e.c.IPos(st)
				wit = ir.PathTo(g, prev, 0, st.Block().Index, e.c.Pos)
			}
		}
		e.c.R.Check(ok, rule+"."+f.id, name(fn), f.id, e.c.Pos(fn.Pos()),
			"every path to an accepting return establishes: "+f.what,
			"the deferred function clears the error result at "+where+" and that is reachable without it; bypass (in the deferred function): "+wit)
	}
}

// dbgE prints a development trace when VCHECK_DEBUG=devE.
func dbgE(format string, args ...interface{}) {
	if os.Getenv("VCHECK_DEBUG") == "devE" {
		fmt.Fprintf(os.Stderr, format, args...)
	}
}

// whyPerItemHelper: the reason deepLeaves gives when a packed read without a
// name of its own sits in a helper that a loop calls once per item.
const whyPerItemHelper = "a datum read by a helper that a loop calls once per item, and the loop is not one the evaluator unrolls"

// everyExitPasses: every path from block from to a return of fn goes through block via.
func everyExitPasses(fn *ssa.Function, from, via *ssa.BasicBlock) bool {
	if from == via {
		return true
	}
	cut := map[ir.Edge]bool{}
	for _, p := range via.Preds {
		cut[ir.Edge{From: p.Index, To: via.Index}] = true
	}
	seen, _ := ir.Reach(fn, from, cut)
	for _, r := range ir.Returns(fn) {
		if seen[r.Block().Index] {
			return false
		}
	}
	return true
}
