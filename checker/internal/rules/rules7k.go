package rules

import (
	"go/token"
	"go/types"
	"strings"

	"golang.org/x/tools/go/ssa"

	"verif/checker/internal/ir"
)

// Round 7, pkcs7 (developer K).
//
// T13.bytes      (C13, C14) a slice bound or index computed from the elements of a byte
//                slice that holds input needs a dominating comparison with the length of
//                the operand it bounds.
// T14.quadratic  (C13, C14) a loop whose number of rounds is not fixed and which adds to a
//                collection must not, per round, walk that collection.
// A.keyed-once   (C16, C04, C02) an attribute kept under a key taken from the input must
//                not replace one kept earlier under the same key.
// X2.unknown (c16.go) is run by C04 and C02 as well (X3.pair and A.lossless already are,
// from c02.go): what the parser drops or folds can be added to a valid blob without the
// verifier noticing.

func init() {
	for _, id := range []string{"C13", "C14"} {
		id := id
		Extras[id] = append(Extras[id], func(c *Ctx) {
			pkgs := c13Pkgs
			if id == "C14" {
				pkgs = c14Pkgs
			}
			reach, _ := c.scope(pkgs...)
			in := func(fn *ssa.Function) bool { return reach[fn] && c.P.InLib(fn) }
			c.ruleByteBounds("T13.bytes", in)
			c.ruleQuadratic("T14.quadratic", in)
		})
	}
	for _, id := range []string{"C04", "C02"} {
		Extras[id] = append(Extras[id], func(c *Ctx) {
			// X3.pair and A.lossless are run by checkC04 / checkC02 themselves (c02.go)
			c.ruleUnknownAttrs("X2.unknown")
			c.R.Floor("X2.unknown", 1)
			c.ruleKeyedOnce("A.keyed-once")
		})
	}
	Extras["C16"] = append(Extras["C16"], func(c *Ctx) { c.ruleKeyedOnce("A.keyed-once") })
}

// ---------------------------------------------------------------- T13.bytes

// inputBytes: v (a []byte, string or pointer to a byte array) is, as far as this
// function can tell, data handed in from outside: a parameter, a field, the
// result of a call. Storage made here (make, a local array, a constant) is not.
func inputBytes(v ssa.Value, seen map[ssa.Value]bool, depth int) bool {
	if v == nil || seen[v] || depth > 8 {
		return false
	}
	seen[v] = true
	switch x := v.(type) {
	case *ssa.Parameter, *ssa.FreeVar:
		return true
	case *ssa.Slice:
		return inputBytes(x.X, seen, depth+1)
	case *ssa.ChangeType:
		return inputBytes(x.X, seen, depth+1)
	case *ssa.Convert:
		return inputBytes(x.X, seen, depth+1)
	case *ssa.Phi:
		for _, e := range x.Edges {
			if inputBytes(e, seen, depth+1) {
				return true
			}
		}
	case *ssa.UnOp:
		if x.Op != token.MUL {
			return false
		}
		switch a := x.X.(type) {
		case *ssa.FieldAddr:
			return true
		case *ssa.IndexAddr:
			return inputBytes(a.X, seen, depth+1)
		case *ssa.Alloc:
			// a local variable holding the slice: what is stored into it
			for _, r := range *a.Referrers() {
				if st, ok := r.(*ssa.Store); ok && st.Addr == a && inputBytes(st.Val, seen, depth+1) {
					return true
				}
			}
			// an out-parameter of a reader (cryptobyte.String.ReadASN1(&out, ..), ReadBytes(&out, n))
			for _, r := range *a.Referrers() {
				if call, ok := r.(ssa.CallInstruction); ok {
					for _, arg := range call.Common().Args {
						if arg == ssa.Value(a) {
							return true
						}
					}
				}
			}
		case *ssa.Parameter, *ssa.FreeVar:
			return true
		}
	case *ssa.Call:
		id := ir.CallID(x)
		if id == "builtin.append" {
			for _, a := range x.Call.Args {
				if inputBytes(a, seen, depth+1) {
					return true
				}
			}
			return false
		}
		return true
	case *ssa.Extract:
		_, isCall := x.Tuple.(*ssa.Call)
		return isCall
	case *ssa.Field:
		return true
	case *ssa.Lookup:
		return true
	}
	return false
}

func isByteElem(t types.Type) bool {
	t = t.Underlying()
	if p, ok := t.(*types.Pointer); ok {
		t = p.Elem().Underlying()
	}
	var el types.Type
	switch x := t.(type) {
	case *types.Slice:
		el = x.Elem()
	case *types.Array:
		el = x.Elem()
	case *types.Basic:
		return x.Info()&types.IsString != 0
	default:
		return false
	}
	b, ok := el.Underlying().(*types.Basic)
	return ok && (b.Kind() == types.Uint8 || b.Kind() == types.Int8)
}

// byteSource: v is computed (arithmetic, conversions, joins, results of library
// helpers) from an element of a byte slice that holds input; the load is returned.
func (c *Ctx) byteSource(v ssa.Value, seen map[ssa.Value]bool, depth int) ssa.Instruction {
	if v == nil || seen[v] || depth > 12 {
		return nil
	}
	seen[v] = true
	switch x := v.(type) {
	case *ssa.Convert:
		if isNumeric(x.X.Type()) {
			return c.byteSource(x.X, seen, depth+1)
		}
	case *ssa.ChangeType:
		return c.byteSource(x.X, seen, depth+1)
	case *ssa.BinOp:
		switch x.Op {
		case token.ADD, token.SUB, token.MUL, token.QUO, token.REM, token.AND, token.OR, token.XOR, token.SHL, token.SHR, token.AND_NOT:
			if l := c.byteSource(x.X, seen, depth+1); l != nil {
				return l
			}
			if x.Op != token.SHL && x.Op != token.SHR {
				return c.byteSource(x.Y, seen, depth+1)
			}
		}
	case *ssa.Phi:
		for _, e := range x.Edges {
			if l := c.byteSource(e, seen, depth+1); l != nil {
				return l
			}
		}
	case *ssa.UnOp:
		switch x.Op {
		case token.SUB, token.XOR:
			return c.byteSource(x.X, seen, depth+1)
		case token.MUL:
			if ia, ok := x.X.(*ssa.IndexAddr); ok && isByteElem(ia.X.Type()) && inputBytes(ia.X, map[ssa.Value]bool{}, 0) {
				return x
			}
		}
	case *ssa.Index:
		if isByteElem(x.X.Type()) && inputBytes(x.X, map[ssa.Value]bool{}, 0) {
			return x
		}
	case *ssa.Call:
		callee := ir.Callee(x)
		if callee == nil || callee.Blocks == nil || !c.P.InLib(callee) || depth > 4 {
			return nil
		}
		for _, r := range ir.Returns(callee) {
			if len(r.Results) == 1 {
				if l := c.byteSource(r.Results[0], seen, depth+4); l != nil {
					return l
				}
			}
		}
	case *ssa.Extract:
		call, ok := x.Tuple.(*ssa.Call)
		if !ok {
			return nil
		}
		callee := ir.Callee(call)
		if callee == nil || callee.Blocks == nil || !c.P.InLib(callee) || depth > 4 {
			return nil
		}
		for _, r := range ir.Returns(callee) {
			if x.Index < len(r.Results) && isNumeric(r.Results[x.Index].Type()) {
				if l := c.byteSource(r.Results[x.Index], seen, depth+4); l != nil {
					return l
				}
			}
		}
	}
	return nil
}

// plainNonNeg: v cannot be negative by its own arithmetic (sums, products, masks
// and shifts of widened unsigned values, lengths and non-negative constants).
func plainNonNeg(v ssa.Value, seen map[ssa.Value]bool, depth int) bool {
	if v == nil || depth > 12 {
		return false
	}
	if seen[v] {
		return true
	}
	seen[v] = true
	if n, ok := ir.ConstInt(v); ok {
		return n >= 0
	}
	switch x := v.(type) {
	case *ssa.Convert:
		from, ok1 := x.X.Type().Underlying().(*types.Basic)
		to, ok2 := x.Type().Underlying().(*types.Basic)
		if !ok1 || !ok2 || from.Info()&types.IsInteger == 0 || to.Info()&types.IsInteger == 0 {
			return false
		}
		size := func(b *types.Basic) int {
			switch b.Kind() {
			case types.Uint8, types.Int8:
				return 1
			case types.Uint16, types.Int16:
				return 2
			case types.Uint32, types.Int32:
				return 4
			}
			return 8
		}
		if from.Info()&types.IsUnsigned != 0 {
			return size(from) < size(to) || to.Info()&types.IsUnsigned != 0 && size(from) <= size(to)
		}
		return size(from) <= size(to) && to.Info()&types.IsUnsigned == 0 && plainNonNeg(x.X, seen, depth+1)
	case *ssa.ChangeType:
		return plainNonNeg(x.X, seen, depth+1)
	case *ssa.BinOp:
		switch x.Op {
		case token.ADD, token.MUL, token.OR, token.QUO, token.REM, token.SHR, token.XOR:
			return plainNonNeg(x.X, seen, depth+1) && plainNonNeg(x.Y, seen, depth+1)
		case token.SHL:
			if k, ok := ir.ConstInt(x.Y); ok && k >= 0 && k <= 24 {
				return plainNonNeg(x.X, seen, depth+1)
			}
		case token.AND:
			return plainNonNeg(x.X, seen, depth+1) || plainNonNeg(x.Y, seen, depth+1)
		}
	case *ssa.Phi:
		for _, e := range x.Edges {
			if !plainNonNeg(e, seen, depth+1) {
				return false
			}
		}
		return true
	case *ssa.Call:
		id := ir.CallID(x)
		return id == "builtin.len" || id == "builtin.cap" || id == "builtin.min" && false
	}
	if b, ok := v.Type().Underlying().(*types.Basic); ok && b.Info()&types.IsUnsigned != 0 {
		switch b.Kind() {
		case types.Uint8, types.Uint16, types.Uint32:
			return true
		}
	}
	return false
}

func (c *Ctx) ruleByteBounds(rule string, in func(*ssa.Function) bool) int {
	t := c.taint()
	counts := map[string]int{}
	n := 0
	const what = "a slice bound or index computed from the bytes of the input needs a dominating comparison with the length of the operand it bounds"
	for _, fn := range c.P.LibFunctions() {
		if in != nil && !in(fn) {
			continue
		}
		fn := fn
		check := func(i ssa.Instruction, base, bnd ssa.Value, role string) {
			if bnd == nil {
				return
			}
			if _, isK := ir.ConstInt(bnd); isK {
				return
			}
			if t.Why(bnd) != "" {
				return // a T3 / T5 sink already
			}
			load := c.byteSource(bnd, map[ssa.Value]bool{}, 0)
			if load == nil {
				return
			}
			n++
			key := ordinalKey(counts, name(fn)+":"+role)
			construct := strings.TrimPrefix(key, name(fn)+":")
			pos := c.IPos(i)
			blk := i.Block()
			a := affineOf(bnd, 0)
			src := "computed from the input byte loaded at " + c.IPos(load)
			if !plainNonNeg(bnd, map[ssa.Value]bool{}, 0) {
				if ok, why := c.entailedHere(fn, blk, a); !ok {
					c.R.Violf(rule, name(fn), construct, pos, what, "the "+role+" value ("+src+") may be negative: "+why)
					return
				}
			}
			var lenA Affine
			if k, ok := staticLen(base); ok {
				lenA = newAffine()
				lenA.K = k
			} else {
				lenA = symAffine("len("+resolvedPath(base)+")", nil)
				if bc, isC := ir.StripConv(base).(*ssa.Call); isC && ir.CallID(bc) == "bytes.Buffer.Bytes" && len(bc.Call.Args) == 1 {
					lenA = symAffine("len("+resolvedPath(bc.Call.Args[0])+")", nil)
				}
			}
			req := lenA.add(a, -1)
			if role == "index" {
				req.K--
			}
			ok, why := c.entailedAt(fn, blk, i, req)
			if !ok {
				if ub, isB := staticUpperBound(bnd, 0); isB {
					if k, isN := staticLen(base); isN && (ub < k || role != "index" && ub <= k) {
						ok = true
					}
				}
			}
			if !ok && role != "index" {
				// a bound below the capacity is within range as well
				capA := symAffine("cap("+resolvedPath(base)+")", nil)
				if ok2, _ := c.entailedAt(fn, blk, i, capA.add(a, -1)); ok2 {
					ok = true
				}
			}
			if ok {
				c.R.Okf(rule, name(fn), construct, pos, what)
				return
			}
			c.R.Violf(rule, name(fn), construct, pos, what, "the "+role+" value ("+src+") is not bounded by the length of "+resolvedPath(base)+": "+why)
		}
		instrsOf(fn, func(i ssa.Instruction) {
			switch x := i.(type) {
			case *ssa.Slice:
				for _, bnd := range []ssa.Value{x.Low, x.High, x.Max} {
					check(i, x.X, bnd, "slice")
				}
			case *ssa.IndexAddr:
				switch deref(x.X.Type()).Underlying().(type) {
				case *types.Slice, *types.Array:
					check(i, x.X, x.Index, "index")
				}
			case *ssa.Index:
				switch x.X.Type().Underlying().(type) {
				case *types.Basic, *types.Array:
					check(i, x.X, x.Index, "index")
				}
			}
		})
	}
	return n
}

// ---------------------------------------------------------------- T14.quadratic

// collGroup: the SSA values that denote one collection (a slice that is appended
// to, a map that is updated) inside a function, and the cells it lives in.
type collGroup struct {
	vals  map[ssa.Value]bool
	paths map[string]bool
}

func isCollType(t types.Type) bool {
	switch t.Underlying().(type) {
	case *types.Slice, *types.Map:
		return true
	}
	return false
}

func collectionGroup(fn *ssa.Function, seeds ...ssa.Value) *collGroup {
	g := &collGroup{vals: map[ssa.Value]bool{}, paths: map[string]bool{}}
	add := func(v ssa.Value) bool {
		if v == nil || g.vals[v] || !isCollType(v.Type()) {
			return false
		}
		if k, ok := v.(*ssa.Const); ok && k.Value == nil {
			return false
		}
		g.vals[v] = true
		return true
	}
	for _, s := range seeds {
		add(s)
	}
	for changed, rounds := true, 0; changed && rounds < 20; rounds++ {
		changed = false
		for v := range g.vals {
			switch x := v.(type) {
			case *ssa.Phi:
				for _, e := range x.Edges {
					if add(e) {
						changed = true
					}
				}
			case *ssa.Slice:
				if add(x.X) {
					changed = true
				}
			case *ssa.ChangeType:
				if add(x.X) {
					changed = true
				}
			case *ssa.UnOp:
				if x.Op == token.MUL {
					if p := ir.AddrPath(x.X); p != "" && !g.paths[p] {
						g.paths[p] = true
						changed = true
					}
				}
			case *ssa.Call:
				if ir.CallID(x) == "builtin.append" && len(x.Call.Args) > 0 {
					if add(x.Call.Args[0]) {
						changed = true
					}
				}
			}
		}
		instrsOf(fn, func(i ssa.Instruction) {
			switch x := i.(type) {
			case *ssa.UnOp:
				if x.Op == token.MUL && isCollType(x.Type()) && g.paths[ir.AddrPath(x.X)] && add(x) {
					changed = true
				}
			case *ssa.Store:
				if isCollType(x.Val.Type()) && g.paths[ir.AddrPath(x.Addr)] && add(x.Val) {
					changed = true
				}
			case *ssa.Phi:
				for _, e := range x.Edges {
					if g.vals[e] && add(x) {
						changed = true
					}
				}
			case *ssa.Slice:
				if g.vals[x.X] && add(x) {
					changed = true
				}
			case *ssa.Call:
				if ir.CallID(x) == "builtin.append" && len(x.Call.Args) > 0 && g.vals[x.Call.Args[0]] && add(x) {
					changed = true
				}
			}
		})
	}
	return g
}

// linearIn: library functions outside the module whose running time grows with
// the length of a slice / map argument.
func linearLibrary(id string) (linear, known bool) {
	if k := strings.Index(id, "["); k >= 0 {
		id = id[:k]
	}
	switch id {
	case "builtin.len", "builtin.cap", "builtin.append", "builtin.delete", "builtin.print", "builtin.println",
		"slices.BinarySearch", "slices.BinarySearchFunc", "slices.Grow", "slices.Clip", "sort.Search":
		return false, true
	case "reflect.DeepEqual", "builtin.clear":
		return true, true
	}
	for _, p := range []string{"slices.", "sort.", "bytes.", "strings.", "maps."} {
		if strings.HasPrefix(id, p) {
			return true, true
		}
	}
	return false, false
}

func dependsOnHeaderPhi(v ssa.Value, l *natLoop, seen map[ssa.Value]bool, depth int) bool {
	if v == nil || seen[v] || depth > 8 {
		return false
	}
	seen[v] = true
	switch x := v.(type) {
	case *ssa.Phi:
		if l.body[x.Block().Index] {
			return true
		}
	case *ssa.BinOp:
		return dependsOnHeaderPhi(x.X, l, seen, depth+1) || dependsOnHeaderPhi(x.Y, l, seen, depth+1)
	case *ssa.Convert:
		return dependsOnHeaderPhi(x.X, l, seen, depth+1)
	case *ssa.ChangeType:
		return dependsOnHeaderPhi(x.X, l, seen, depth+1)
	case *ssa.Extract:
		// the key / index of a range
		if nx, ok := x.Tuple.(*ssa.Next); ok {
			return l.body[nx.Block().Index]
		}
	}
	return false
}

// walksCollection: inside the blocks `body` of fn (nil: everywhere) the
// collection g is walked: an inner loop indexes it by its loop variable or
// ranges over it, or it is handed to a function that does. Returns the
// instruction and a description; undecided names a use that could not be judged.
func (c *Ctx) walksCollection(fn *ssa.Function, g *collGroup, body map[int]bool, outer *ssa.BasicBlock, depth int) (at ssa.Instruction, how string, undecided string) {
	var inner []*natLoop
	for _, l := range naturalLoops(fn) {
		if l.header == outer {
			continue
		}
		if body != nil && !body[l.header.Index] {
			continue
		}
		inner = append(inner, l)
	}
	for _, b := range fn.Blocks {
		if body != nil && !body[b.Index] {
			continue
		}
		for _, i := range b.Instrs {
			var loopsHere []*natLoop
			for _, l := range inner {
				if l.body[b.Index] {
					loopsHere = append(loopsHere, l)
				}
			}
			switch x := i.(type) {
			case *ssa.IndexAddr, *ssa.Index:
				var base, idx ssa.Value
				if ia, ok := x.(*ssa.IndexAddr); ok {
					base, idx = ia.X, ia.Index
				} else {
					base, idx = x.(*ssa.Index).X, x.(*ssa.Index).Index
				}
				if !g.vals[base] {
					continue
				}
				for _, l := range loopsHere {
					if dependsOnHeaderPhi(idx, l, map[ssa.Value]bool{}, 0) {
						return i, "an inner loop indexes it by its loop variable", ""
					}
				}
			case *ssa.Next:
				if r, ok := x.Iter.(*ssa.Range); ok && g.vals[r.X] && len(loopsHere) > 0 {
					return i, "an inner loop ranges over it", ""
				}
			case ssa.CallInstruction:
				id := ir.CallID(x)
				args := ir.CallArgs(x)
				for k, a := range args {
					if mi, ok := a.(*ssa.MakeInterface); ok {
						a = mi.X
					}
					if !g.vals[a] {
						continue
					}
					if id == "builtin.append" && k == 0 {
						continue
					}
					if id == "builtin.append" && k > 0 {
						return i, "it is copied whole into another slice", ""
					}
					if id == "builtin.copy" {
						undecided = "it is copied with copy(); whether the copy is amortised is not worked out"
						continue
					}
					callee := ir.Callee(x)
					if callee != nil && callee.Blocks != nil && c.P.InModule(callee) {
						if depth >= 2 {
							undecided = "it is handed to " + name(callee) + " (call depth not followed)"
							continue
						}
						if k >= len(callee.Params) {
							undecided = "it is handed to " + name(callee) + " (parameter not matched)"
							continue
						}
						sub := collectionGroup(callee, callee.Params[k])
						if at2, how2, und2 := c.walksCollection(callee, sub, nil, nil, depth+1); at2 != nil {
							_ = at2
							return i, "it is handed to " + name(callee) + " where " + how2, ""
						} else if und2 != "" {
							undecided = "it is handed to " + name(callee) + " where " + und2
						}
						continue
					}
					if lin, known := linearLibrary(id); known {
						if lin {
							return i, "it is handed to " + id + ", which walks all of it", ""
						}
						continue
					}
					undecided = "it is handed to " + id + ", whose cost in the number of elements is not known"
				}
			}
		}
	}
	return nil, "", undecided
}

func (c *Ctx) ruleQuadratic(rule string, in func(*ssa.Function) bool) int {
	const what = "a loop over the input that adds to a collection must not walk that collection on every round: the work per element must not depend on the number of elements decoded so far"
	n := 0
	counts := map[string]int{}
	for _, fn := range c.P.LibFunctions() {
		if in != nil && !in(fn) {
			continue
		}
		loops := naturalLoops(fn)
		if len(loops) == 0 {
			continue
		}
		done := map[ssa.Instruction]bool{}
		for _, l := range loops {
			if _, fixed := constRangeLen(l); fixed {
				continue
			}
			for _, b := range fn.Blocks {
				if !l.body[b.Index] {
					continue
				}
				for _, i := range b.Instrs {
					var g *collGroup
					kind := ""
					switch x := i.(type) {
					case *ssa.Call:
						if ir.CallID(x) != "builtin.append" || len(x.Call.Args) == 0 {
							continue
						}
						// byte strings grow by content, not by element count of a decoded list
						if isByteElem(x.Type()) {
							continue
						}
						g = collectionGroup(fn, x)
						kind = "append"
						// the result must be carried into the next round: stored where it was loaded from, or joined at a loop header
						carried := false
						for v := range g.vals {
							if ph, ok := v.(*ssa.Phi); ok && l.body[ph.Block().Index] {
								for k, e := range ph.Edges {
									if k < len(ph.Block().Preds) && l.body[ph.Block().Preds[k].Index] && g.vals[e] && ph.Block() == l.header {
										carried = true
									}
								}
							}
						}
						for _, r := range *x.Referrers() {
							if st, ok := r.(*ssa.Store); ok && st.Val == ssa.Value(x) && g.paths[ir.AddrPath(st.Addr)] {
								carried = true
							}
						}
						if !carried {
							continue
						}
					case *ssa.MapUpdate:
						if _, isK := x.Key.(*ssa.Const); isK {
							continue
						}
						g = collectionGroup(fn, x.Map)
						kind = "mapupdate"
					default:
						continue
					}
					if done[i] {
						continue
					}
					done[i] = true
					n++
					key := ordinalKey(counts, name(fn)+":"+kind)
					construct := strings.TrimPrefix(key, name(fn)+":")
					at, how, und := c.walksCollection(fn, g, l.body, l.header, 0)
					switch {
					case at != nil:
						c.R.Violf(rule, name(fn), construct, c.IPos(i), what,
							"the collection this "+kind+" extends is walked inside the same loop at "+c.IPos(at)+": "+how+" - decoding n elements costs n*n steps")
					case und != "":
						c.R.Infof(rule, name(fn), construct, c.IPos(i), "not decided for this shape: "+what+" — "+und)
					default:
						c.R.Okf(rule, name(fn), construct, c.IPos(i), what)
					}
				}
			}
		}
	}
	return n
}

// ---------------------------------------------------------------- A.keyed-once

// sameExpr: two values are the same expression over the same operands.
func sameExpr(a, b ssa.Value, depth int) bool {
	if a == b {
		return true
	}
	if a == nil || b == nil || depth > 6 {
		return false
	}
	switch x := a.(type) {
	case *ssa.Const:
		y, ok := b.(*ssa.Const)
		return ok && x.Value != nil && y.Value != nil && x.Value.ExactString() == y.Value.ExactString() && types.Identical(x.Type(), y.Type())
	case *ssa.Call:
		y, ok := b.(*ssa.Call)
		if !ok || ir.CallID(x) != ir.CallID(y) || ir.CallID(x) == "" {
			return false
		}
		xa, ya := ir.CallArgs(x), ir.CallArgs(y)
		if len(xa) != len(ya) {
			return false
		}
		for k := range xa {
			if !sameExpr(xa[k], ya[k], depth+1) {
				return false
			}
		}
		return true
	case *ssa.UnOp:
		y, ok := b.(*ssa.UnOp)
		if !ok || x.Op != y.Op {
			return false
		}
		if x.Op == token.MUL {
			pa, pb := ir.AddrPath(x.X), ir.AddrPath(y.X)
			return pa != "" && pa == pb
		}
		return sameExpr(x.X, y.X, depth+1)
	case *ssa.Convert:
		y, ok := b.(*ssa.Convert)
		return ok && types.Identical(x.Type(), y.Type()) && sameExpr(x.X, y.X, depth+1)
	case *ssa.ChangeType:
		y, ok := b.(*ssa.ChangeType)
		return ok && sameExpr(x.X, y.X, depth+1)
	case *ssa.MakeInterface:
		y, ok := b.(*ssa.MakeInterface)
		return ok && sameExpr(x.X, y.X, depth+1)
	case *ssa.BinOp:
		y, ok := b.(*ssa.BinOp)
		return ok && x.Op == y.Op && sameExpr(x.X, y.X, depth+1) && sameExpr(x.Y, y.Y, depth+1)
	}
	return false
}

// ruleKeyedOnce: the parser keeps the elements of a repeated structure (the
// signed attributes, the certificates, the signers); what it keeps is what the
// signature is checked over, or what is looked up later. Keeping an element in
// a map under a key read from the input folds every further element with that
// key into one - the earlier one is gone without a trace - unless the key was
// tested to be absent (and the element refused or kept elsewhere otherwise).
func (c *Ctx) ruleKeyedOnce(rule string) {
	fns := c.pkcs7ParserFuncs(rule)
	const what = "an element of the signature kept under a key taken from the input must not replace an element kept earlier under the same key: the key is tested to be absent before the element is stored"
	counts := map[string]int{}
	for _, fn := range fns {
		fn := fn
		instrsOf(fn, func(i ssa.Instruction) {
			mu, ok := i.(*ssa.MapUpdate)
			if !ok {
				return
			}
			if _, isMap := mu.Map.Type().Underlying().(*types.Map); !isMap {
				return
			}
			if _, isK := mu.Key.(*ssa.Const); isK {
				return
			}
			if !inLoop(fn, i.Block()) && !c.calledFromLoop(fn, fns) {
				return
			}
			key := ordinalKey(counts, name(fn)+":mapupdate")
			construct := strings.TrimPrefix(key, name(fn)+":")
			g := collectionGroup(fn, mu.Map)
			sameMap := func(v ssa.Value) bool { return g.vals[v] || sameExpr(v, mu.Map, 0) }
			// a value accumulated under the key (m[k] = append(m[k], e), m[k] = m[k] + 1) keeps the earlier element
			var reads func(v ssa.Value, depth int) bool
			reads = func(v ssa.Value, depth int) bool {
				if v == nil || depth > 6 {
					return false
				}
				switch x := v.(type) {
				case *ssa.Lookup:
					return sameMap(x.X) && sameExpr(x.Index, mu.Key, 0)
				case *ssa.Extract:
					if lk, ok := x.Tuple.(*ssa.Lookup); ok && x.Index == 0 {
						return reads(lk, depth+1)
					}
				case *ssa.Call:
					for _, a := range x.Call.Args {
						if reads(a, depth+1) {
							return true
						}
					}
				case *ssa.BinOp:
					return reads(x.X, depth+1) || reads(x.Y, depth+1)
				case *ssa.Phi:
					for _, e := range x.Edges {
						if reads(e, depth+1) {
							return true
						}
					}
				case *ssa.Convert:
					return reads(x.X, depth+1)
				case *ssa.ChangeType:
					return reads(x.X, depth+1)
				case *ssa.MakeInterface:
					return reads(x.X, depth+1)
				}
				return false
			}
			if reads(mu.Value, 0) {
				c.R.Okf(rule, name(fn), construct, c.IPos(i), what)
				return
			}
			// a set (map[K]bool / map[K]struct{}) whose update stores a constant records presence only: nothing is lost
			if _, isK := mu.Value.(*ssa.Const); isK {
				c.R.Okf(rule, name(fn), construct, c.IPos(i), what)
				return
			}
			tested, otherLookup := false, false
			for _, ce := range ir.DominatingConds(fn, i.Block()) {
				cond := ce.Cond
				truth := ce.Truth
				var lk *ssa.Lookup
				absentWhen := false
				switch x := cond.(type) {
				case *ssa.Extract:
					if l, ok := x.Tuple.(*ssa.Lookup); ok && x.Index == 1 {
						lk, absentWhen = l, false
					}
				case *ssa.BinOp:
					if x.Op == token.EQL || x.Op == token.NEQ {
						var other ssa.Value
						if l, ok := x.X.(*ssa.Lookup); ok {
							lk, other = l, x.Y
						} else if l, ok := x.Y.(*ssa.Lookup); ok {
							lk, other = l, x.X
						} else if e, ok := x.X.(*ssa.Extract); ok && e.Index == 0 {
							if l, ok := e.Tuple.(*ssa.Lookup); ok {
								lk, other = l, x.Y
							}
						}
						if lk != nil {
							k, isK := other.(*ssa.Const)
							if !isK || !(k.Value == nil || isZeroConst(k)) {
								lk = nil
							} else {
								absentWhen = x.Op == token.EQL
							}
						}
					}
				}
				if lk == nil {
					continue
				}
				if !sameMap(lk.X) {
					continue
				}
				if !sameExpr(lk.Index, mu.Key, 0) {
					otherLookup = true
					continue
				}
				if truth == absentWhen {
					tested = true
				}
			}
			switch {
			case tested:
				c.R.Okf(rule, name(fn), construct, c.IPos(i), what)
			case otherLookup:
				c.R.Infof(rule, name(fn), construct, c.IPos(i), "not decided for this shape: "+what+" — the map is looked up ahead of the update under a key that could not be matched with the key of the update")
			default:
				c.R.Violf(rule, name(fn), construct, c.IPos(i), what,
					"the update of "+resolvedPath(mu.Map)+" is keyed by a value read from the signature and no test on the way to it finds the key absent: a second element with the same key replaces the first, so an element can be added to a valid signature (ahead of the genuine one) without the re-encoding or any later lookup showing it")
			}
		})
	}
}
