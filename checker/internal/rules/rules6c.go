package rules

import (
	"go/token"
	"go/types"
	"sort"
	"strconv"
	"strings"

	"golang.org/x/tools/go/ssa"

	"verif/checker/internal/ir"
)

// Rules of the sixth round for the efivarfs / variables / text cluster.
//
//   F1.touch      the writer's calls on the file system are the ones of the write protocol
//   F16.stateless the variable store keeps nothing about variables outside the file system
//   F15.final     on the read path the decoder's verdict is final
//   (further rules below)

func init() {
	Extras["C11"] = append(Extras["C11"], func(c *Ctx) {
		c.ruleTouch("F1.touch")
		c.R.Floor("F1.touch", 2)
		// the value handed to WriteVar is encoded without being used up (shared with C06/C12/C19)
		c.rulePure([]string{"efi/signature.(efibytes).Marshal", "efi/signature.(efibytes).Bytes", "efivarfs.(efibytes).Marshal", "efivarfs.(efibytes).Bytes", "efi/signature.(*SignatureDatabase).Marshal"})
		c.R.Floor("E.pure", 5)
		c.ruleStateless("F16.stateless")
		c.R.Floor("F16.stateless", 4)
		c.ruleFinal("F15.final")
		c.R.Floor("F15.final", 1)
	})
	for _, id := range []string{"C17", "C18"} {
		Extras[id] = append(Extras[id], func(c *Ctx) {
			c.ruleTextRefusals("A-u.refuse")
			c.ruleTextSource("A-u.source")
			c.R.Floor("A-u.refuse", 1)
			c.R.Floor("A-u.source", 1)
		})
	}
	Extras["C18"] = append(Extras["C18"], func(c *Ctx) {
		c.ruleFinal("F15.final")
		c.R.Floor("F15.final", 1)
	})
	Extras["C06"] = append(Extras["C06"], func(c *Ctx) {
		c.rulePayloadTwice("I9.samepayload")
		c.R.Floor("I9.samepayload", 1)
		// every list of the payload is encoded, by every encoder of the database
		for _, s := range []string{"efi/signature.WriteSignatureDatabase", "efi/signature.(*SignatureDatabase).Marshal", "efi/signature.(*SignatureDatabase).Bytes"} {
			c.everyIteration("G8.all", c.Fn("G8.all", s), sigPkg+".WriteSignatureList", sigPkg+".SignatureList", "the database encoder writes every list, in order")
		}
		c.everyIteration("G8.all", c.Fn("G8.all", "efi/signature.WriteSignatureList"), sigPkg+".WriteSignatureData", sigPkg+".SignatureData", "the list encoder writes every entry, in order")
		c.R.Floor("G8.all", 4)
	})
	Extras["C10"] = append(Extras["C10"], func(c *Ctx) {
		c.ruleWriterFromValue("G1.fromvalue", "efi/signature.ReadWinCertificate", "efi/signature.WriteWinCertificate", false)
		c.ruleWriterFromValue("G1.fromvalue", "efi/signature.ReadWinCertificateUEFIGUID", "efi/signature.WriteWinCertificateUEFIGUID", true)
		c.ruleWriterFromValue("G1.fromvalue", "efi/signature.ReadEFIVariableAuthencation2", "efi/signature.WriteEFIVariableAuthencation2", true)
		c.R.Floor("G1.fromvalue", 2)
	})
	Extras["C15"] = append(Extras["C15"], func(c *Ctx) {
		c.ruleFieldReaders("C1.dropped")
	})
	Extras["C19"] = append(Extras["C19"], func(c *Ctx) {
		// what a parser hands out shares no memory with its input (shared with C07/C10)
		c.ruleNoAlias("G9.copy")
	})
	Extras["C12"] = append(Extras["C12"], func(c *Ctx) {
		c.ruleStripExact("F10.exact")
		c.R.Floor("F10.exact", 1)
		c.ruleTouch("F1.touch")
		c.R.Floor("F1.touch", 2)
		c.ruleStateless("F16.stateless")
		c.R.Floor("F16.stateless", 4)
	})
}

// ---------------------------------------------------------------- cones

// libCone: the roots and every library function (of any package of the module)
// they reach through statically resolved calls, with the closures nested in them.
func (c *Ctx) libCone(roots []*ssa.Function, maxDepth int) []*ssa.Function {
	seen := map[*ssa.Function]bool{}
	var out []*ssa.Function
	var walk func(f *ssa.Function, d int)
	walk = func(f *ssa.Function, d int) {
		if f == nil || seen[f] || d > maxDepth || f.Blocks == nil || !c.P.InLib(f) {
			return
		}
		seen[f] = true
		out = append(out, f)
		for _, a := range f.AnonFuncs {
			walk(a, d)
		}
		instrsOf(f, func(i ssa.Instruction) {
			if call, ok := i.(ssa.CallInstruction); ok {
				if callee := ir.Callee(call); callee != nil {
					walk(callee, d+1)
				}
			}
		})
	}
	for _, r := range roots {
		walk(r, 0)
	}
	return out
}

// ---------------------------------------------------------------- F1.touch

// osFileOps: the functions of package os that operate on the file system.
var osFileOps = map[string]bool{"Open": true, "OpenFile": true, "Create": true, "Stat": true, "Lstat": true, "ReadFile": true, "WriteFile": true,
	"Remove": true, "RemoveAll": true, "Rename": true, "Mkdir": true, "MkdirAll": true, "Chmod": true, "Chown": true, "Lchown": true, "Chtimes": true,
	"Truncate": true, "ReadDir": true, "Readlink": true, "Symlink": true, "Link": true, "CreateTemp": true, "MkdirTemp": true, "DirFS": true,
	"SameFile": true, "CopyFS": true, "NewFile": true, "TempDir": false}

var fsPkgs = map[string]bool{"os": true, "io/ioutil": true, "io/fs": true, "github.com/spf13/afero": true, "github.com/spf13/afero/mem": true}

func isFsDepType(t types.Type) bool {
	if p, ok := t.Underlying().(*types.Pointer); ok {
		t = p.Elem()
	}
	switch ir.NamedTypeID(t) {
	case "github.com/spf13/afero.Fs", "github.com/spf13/afero.File", "io/fs.File", "io/fs.FS", "io/fs.FileInfo", "os.File", "io/fs.ReadDirFS", "io/fs.ReadFileFS", "io/fs.StatFS",
		"github.com/spf13/afero.Afero", "github.com/spf13/afero.IOFS":
		return true
	}
	return false
}

// fsTouch names the operation a call performs on the file system dependency
// ("" if it performs none): "<receiver type>.<method>" for calls on a file
// system / file value, "<package>.<function>" for package functions.
func fsTouch(call ssa.CallInstruction) string {
	cc := call.Common()
	if cc.IsInvoke() {
		if isFsDepType(cc.Value.Type()) {
			return ir.NamedTypeID(cc.Value.Type()) + "." + cc.Method.Name()
		}
		return ""
	}
	o := ir.CalleeObject(call)
	if o == nil || o.Pkg() == nil {
		return ""
	}
	sig, _ := o.Type().(*types.Signature)
	if sig == nil {
		return ""
	}
	if r := sig.Recv(); r != nil {
		if isFsDepType(r.Type()) {
			return ir.FuncID(o)
		}
		return ""
	}
	if !fsPkgs[o.Pkg().Path()] {
		return ""
	}
	if o.Pkg().Path() == "os" && osFileOps[o.Name()] {
		return ir.FuncID(o)
	}
	for i := 0; i < sig.Params().Len(); i++ {
		if isFsDepType(sig.Params().At(i).Type()) {
			return ir.FuncID(o)
		}
	}
	if o.Pkg().Path() == "io/ioutil" {
		switch o.Name() {
		case "ReadFile", "WriteFile", "ReadDir", "TempFile", "TempDir":
			return ir.FuncID(o)
		}
	}
	return ""
}

// writeProtocol: what the writers of the unchanged design do to the file
// system, by callee identity: one open for writing, the write, the close; the
// immutable-flag handling opens the file to get at its descriptor (ioctl) and
// closes it; the package-level twin asks its file system for its name.
var writeProtocol = map[string]string{
	"github.com/spf13/afero.Fs.OpenFile": "open",
	"github.com/spf13/afero.File.Write":  "write",
	"github.com/spf13/afero.File.Close":  "close",
	"github.com/spf13/afero.File.Name":   "name of the open file (no operation)",
	"github.com/spf13/afero.Fs.Name":     "name of the file system (no operation)",
	"os.OpenFile":                        "immutable flag: open",
	"os.File.Close":                      "immutable flag: close",
	"os.File.Fd":                         "immutable flag: descriptor for the ioctl",
	"os.File.Name":                       "name of the open file (no operation)",
}

// ruleTouch (F1.touch): in the call cone of the two writers every call on the
// file system dependency is one of the write protocol (open for writing, write,
// close, and the immutable-flag handling). Anything else - a second open, a
// stat, a read, an existence test, a removal - is an operation on efivarfs that
// writing a variable must not perform ("touches nothing else").
func (c *Ctx) ruleTouch(rule string) {
	what := "writing a variable touches the file system only through the write protocol (open for writing, one write, close, immutable flag)"
	for _, tw := range c.writeTwins(rule) {
		cone := c.libCone([]*ssa.Function{tw.fn}, 6)
		counts := map[string]int{}
		n := 0
		bad := map[string]bool{}
		for _, f := range cone {
			f := f
			instrsOf(f, func(i ssa.Instruction) {
				call, ok := i.(ssa.CallInstruction)
				if !ok {
					return
				}
				op := fsTouch(call)
				if op == "" {
					return
				}
				n++
				if _, ok := writeProtocol[op]; ok {
					return
				}
				key := "fs-call:" + shortID(op) + "@" + name(f)
				if bad[key] {
					return
				}
				bad[key] = true
				c.R.Violf(rule, name(tw.fn), ordinalKey(counts, key), c.IPos(i), what,
					shortID(op)+" in "+name(f)+" is reached from the writer: an operation on the variable file system beyond open-for-writing/write/close (on efivarfs every open, stat and read is a firmware call of its own, and a verdict drawn from it can fail a write that went through)")
			})
		}
		if n == 0 {
			c.R.Infof(rule, name(tw.fn), "fs-calls", c.Pos(tw.fn.Pos()), "not decided for this shape: no call on the file system dependency found in the writer's static call cone")
			continue
		}
		if len(bad) == 0 {
			c.R.Okf(rule, name(tw.fn), "fs-calls", c.Pos(tw.fn.Pos()), what)
		}
	}
}

// ---------------------------------------------------------------- F16.stateless

// storeTypes: the types that make up the variable store and its wrapper.
func isStoreType(t types.Type) bool {
	for {
		p, ok := t.Underlying().(*types.Pointer)
		if !ok {
			break
		}
		t = p.Elem()
	}
	id := ir.NamedTypeID(t)
	if !strings.HasPrefix(id, M+"/efivarfs") {
		return false
	}
	_, isStruct := t.Underlying().(*types.Struct)
	return isStruct
}

// storeRoots: the operations on variables of the store, the wrapper and the
// package-level twins: WriteVar, GetVar*, WriteEfivars*, ReadEfivars*, ParseEfivars.
func (c *Ctx) storeRoots() []*ssa.Function {
	var out []*ssa.Function
	for _, fn := range c.ExportedAPI("efivarfs", "efivarfs/testfs", "efivarfs/fswrapper", "efi/attributes") {
		n := fn.Name()
		for _, p := range []string{"WriteVar", "GetVar", "WriteEfivars", "ReadEfivars", "ParseEfivars"} {
			if strings.HasPrefix(n, p) {
				out = append(out, fn)
				break
			}
		}
	}
	return out
}

// persistentBase: the object an address or value is part of outlives the call:
// it is reached from a parameter / receiver, a free variable, a package-level
// variable or through a pointer loaded from such an object. Objects built in
// the function itself (Alloc, MakeMap, composite literals) do not.
func persistentBase(v ssa.Value, depth int) (ssa.Value, bool) {
	if depth > 12 || v == nil {
		return nil, false
	}
	switch x := v.(type) {
	case *ssa.Parameter, *ssa.FreeVar, *ssa.Global:
		return x, true
	case *ssa.FieldAddr:
		return persistentBase(x.X, depth+1)
	case *ssa.IndexAddr:
		return persistentBase(x.X, depth+1)
	case *ssa.Field:
		return persistentBase(x.X, depth+1)
	case *ssa.ChangeType:
		return persistentBase(x.X, depth+1)
	case *ssa.Slice:
		return persistentBase(x.X, depth+1)
	case *ssa.UnOp:
		if x.Op == token.MUL {
			return persistentBase(x.X, depth+1)
		}
	case *ssa.Phi:
		for _, e := range x.Edges {
			if b, ok := persistentBase(e, depth+1); ok {
				return b, true
			}
		}
	}
	return nil, false
}

// storeStateOf: v (an address or a map value) is a field of the store / wrapper
// types, or a package-level variable of a library package; returns its name.
func (c *Ctx) storeStateOf(v ssa.Value, depth int) string {
	if depth > 12 || v == nil {
		return ""
	}
	switch x := v.(type) {
	case *ssa.Global:
		if x.Pkg != nil && c.P.Lib[x.Pkg.Pkg.Path()] {
			return "package variable " + shortID(x.Pkg.Pkg.Path()) + "." + x.Name()
		}
	case *ssa.FieldAddr:
		if isStoreType(x.X.Type()) {
			if _, ok := persistentBase(x.X, 0); ok {
				return "field " + shortID(ir.FieldID(x))
			}
			return ""
		}
		return c.storeStateOf(x.X, depth+1)
	case *ssa.Field:
		if isStoreType(x.X.Type()) {
			if _, ok := persistentBase(x.X, 0); ok {
				return "field " + shortID(ir.FieldID(x))
			}
			return ""
		}
		return c.storeStateOf(x.X, depth+1)
	case *ssa.IndexAddr:
		return c.storeStateOf(x.X, depth+1)
	case *ssa.ChangeType:
		return c.storeStateOf(x.X, depth+1)
	case *ssa.Slice:
		return c.storeStateOf(x.X, depth+1)
	case *ssa.UnOp:
		if x.Op == token.MUL {
			return c.storeStateOf(x.X, depth+1)
		}
	case *ssa.Phi:
		for _, e := range x.Edges {
			if s := c.storeStateOf(e, depth+1); s != "" {
				return s
			}
		}
	}
	return ""
}

// ruleStateless (F16.stateless): in the call cones of the operations on
// variables nothing is recorded in the store or wrapper objects, nor in
// package-level variables: no store into a field of the store types, no update
// or deletion in a map kept there. What a variable holds is what its file
// holds; anything remembered beside the file system goes stale when the file
// system is replaced (Open/SetFS), is shared between variables that share the
// key, and is not there in a store that was pre-populated. The file system
// handle itself (a field of file-system type) is the exception.
func (c *Ctx) ruleStateless(rule string) {
	roots := c.storeRoots()
	if len(roots) < 4 {
		c.R.Infof(rule, "-", "roots", "-", "not decided for this shape: fewer than four operations on variables found among the exported API of the store packages")
		return
	}
	c.ruleStatelessRoots(rule, roots)
}

// ruleStatelessRoots: the rule over the call cones of the given operations.
func (c *Ctx) ruleStatelessRoots(rule string, roots []*ssa.Function) {
	what := "the operations on variables record nothing in the store / wrapper objects or in package-level variables (the state of a variable is its file)"
	for _, root := range roots {
		counts := map[string]int{}
		bad := 0
		seenKey := map[string]bool{}
		for _, f := range c.libCone([]*ssa.Function{root}, 6) {
			if f.Name() == "init" {
				continue
			}
			f := f
			report := func(i ssa.Instruction, kind, state string) {
				key := kind + ":" + strings.TrimPrefix(strings.TrimPrefix(state, "field "), "package variable ") + "@" + name(f)
				if seenKey[key] {
					return
				}
				seenKey[key] = true
				bad++
				c.R.Violf(rule, name(root), ordinalKey(counts, key), c.IPos(i), what,
					kind+" of "+state+" in "+name(f)+": a record about variables kept outside the file system (it survives a replaced file system, is absent for pre-populated files, and is shared by every variable that maps to the same key)")
			}
			instrsOf(f, func(i ssa.Instruction) {
				switch x := i.(type) {
				case *ssa.Store:
					st := c.storeStateOf(x.Addr, 0)
					if st == "" {
						return
					}
					// the file system handle is set by SetFS / constructors
					if p, ok := x.Addr.Type().Underlying().(*types.Pointer); ok && dependencyKind(p.Elem()) == "filesystem" {
						return
					}
					report(i, "store", st)
				case *ssa.MapUpdate:
					if st := c.storeStateOf(x.Map, 0); st != "" {
						report(i, "map update", st)
					}
				case ssa.CallInstruction:
					id := ir.CallID(x)
					if id == "builtin.delete" || id == "builtin.clear" {
						if args := x.Common().Args; len(args) > 0 {
							if st := c.storeStateOf(args[0], 0); st != "" {
								report(i, id[len("builtin."):], st)
							}
						}
					}
				}
			})
		}
		if bad == 0 {
			c.R.Okf(rule, name(root), "state", c.Pos(root.Pos()), what)
		}
	}
}

// ---------------------------------------------------------------- F15.final

// ruleFinal (F15.final): in a function of the store that hands the bytes of a
// variable to the caller's decoder (Unmarshallable.Unmarshal), no failing
// return is reachable once the decoder has accepted: the decoder's verdict is
// final. Whether a value accounts for the whole variable is the decoder's
// business (several decoders of the library leave optional or padding bytes
// unread by design); a second verdict of the store over what the decoder left
// or produced refuses variables that read fine before.
func (c *Ctx) ruleFinal(rule string) {
	what := "after the caller's decoder accepted the variable the read operation cannot fail (the decoder's verdict is final)"
	n := 0
	for _, fn := range c.P.LibFunctions() {
		if !strings.HasPrefix(ir_pkgPath(fn), M+"/efivarfs") || !hasErrorResult(fn) {
			continue
		}
		var calls []*ssa.Call
		instrsOf(fn, func(i ssa.Instruction) {
			call, ok := i.(*ssa.Call)
			if !ok || !call.Call.IsInvoke() || call.Call.Method.Name() != "Unmarshal" {
				return
			}
			if ir.NamedTypeID(call.Call.Value.Type()) != M+"/efivar.Unmarshallable" || !isErrorType(call.Type()) {
				return
			}
			// the buffer handed over is the one the store read (not a scratch copy made for a probe)
			calls = append(calls, call)
		})
		counts := map[string]int{}
		for _, call := range calls {
			n++
			key := ordinalKey(counts, "Unmarshal")
			var succ []ir.CondEdge
			for _, ce := range ir.CondEdges(fn) {
				e, nilWhenTrue, ok := ir.NilCheck(ce.RawCond)
				if !ok || !sameErrValue(e, call) {
					continue
				}
				if ce.RawTruth == nilWhenTrue {
					succ = append(succ, ce)
				}
			}
			if len(succ) == 0 {
				// the verdict is handed on as it is: every return behind the call returns it
				seen, _ := ir.Reach(fn, call.Block(), nil)
				ok := true
				for _, r := range liveReturns(fn) {
					if !seen[r.Block().Index] || len(r.Results) == 0 {
						continue
					}
					if !sameErrValue(r.Results[len(r.Results)-1], call) {
						ok = false
					}
				}
				if ok {
					c.R.Okf(rule, name(fn), key, c.IPos(call), what)
				} else {
					c.R.Infof(rule, name(fn), key, c.IPos(call), "not decided for this shape: the decoder's error is neither tested against nil nor returned as it is")
				}
				continue
			}
			bad, undec := "", ""
			for _, ce := range succ {
				seen, prev := ir.Reach(fn, fn.Blocks[ce.Edge.To], nil)
				for _, r := range liveReturns(fn) {
					if !seen[r.Block().Index] || len(r.Results) == 0 {
						continue
					}
					ev := r.Results[len(r.Results)-1]
					switch cl := retClass(fn, r); {
					case cl == "success" || sameErrValue(ev, call):
					case cl == "fail":
						bad = "the failing return at " + c.IPos(r) + " is reachable after the decoder accepted (" + ir.PathTo(fn, prev, ce.Edge.To, r.Block().Index, c.Pos) + ")"
					default:
						undec = "the return at " + c.IPos(r) + " behind the accepting decoder hands back an error of unknown origin"
					}
				}
			}
			switch {
			case bad != "":
				c.R.Violf(rule, name(fn), key, c.IPos(call), what, bad+": a variable whose decoder leaves bytes unread or yields a value the store dislikes is refused although it decoded")
			case undec != "":
				c.R.Infof(rule, name(fn), key, c.IPos(call), "not decided for this shape: "+undec)
			default:
				c.R.Okf(rule, name(fn), key, c.IPos(call), what)
			}
		}
	}
	if n == 0 {
		c.R.Infof(rule, "-", "Unmarshal", "-", "not decided for this shape: no call of the caller's decoder with an error result found in the store packages")
	}
}

func ir_pkgPath(fn *ssa.Function) string {
	for f := fn; f != nil; f = f.Parent() {
		if f.Pkg != nil && f.Pkg.Pkg != nil {
			return f.Pkg.Pkg.Path()
		}
	}
	return ""
}

// ---------------------------------------------------------------- I9.samepayload

// rulePayloadTwice (I9.samepayload): SignEFIVariable encodes the caller's value
// twice - once into the buffer that is signed and once behind the descriptor
// it hands back. Both encodings come from the same method of the value: the
// Marshallable interface has two encoders (Marshal, Bytes) and nothing makes
// their outputs equal for every implementation, so a signature made over one
// and sent with the other does not cover what the firmware receives.
func (c *Ctx) rulePayloadTwice(rule string) {
	what := "the payload that is signed and the payload that is emitted behind the descriptor are produced by the same encoder of the caller's value"
	fn := c.Fn(rule, "efi/signature.SignEFIVariable")
	if fn == nil {
		return
	}
	fname := name(fn)
	var sign *ssa.Call
	nSign := 0
	var payload []*ssa.Call
	for _, f := range c.cone(fn) {
		for _, g := range withAnon(f) {
			instrsOf(g, func(i ssa.Instruction) {
				call, ok := i.(*ssa.Call)
				if !ok {
					return
				}
				if ir.CallID(call) == M+"/pkcs7.SignPKCS7" && len(call.Call.Args) == 4 {
					sign = call
					nSign++
				}
				if call.Call.IsInvoke() && ir.NamedTypeID(call.Call.Value.Type()) == M+"/efivar.Marshallable" {
					payload = append(payload, call)
				}
			})
		}
	}
	if nSign != 1 || len(payload) == 0 {
		c.R.Infof(rule, fname, "payload", c.Pos(fn.Pos()), "not decided for this shape: the signing call or the encoding of the caller's value is not found in the function's call cone")
		return
	}
	if sign.Parent() != fn {
		c.R.Infof(rule, fname, "payload", c.IPos(sign), "not decided for this shape: the signing call is made in a helper")
		return
	}
	var outs []ssa.Value
	for _, r := range liveReturns(fn) {
		for _, v := range r.Results {
			if ir.NamedTypeID(v.Type()) == M+"/efivar.Marshallable" && !ir.IsNilConst(v) {
				outs = append(outs, v)
			}
		}
	}
	if len(outs) == 0 {
		c.R.Infof(rule, fname, "payload", c.Pos(fn.Pos()), "not decided for this shape: no prepared update is returned")
		return
	}
	// the producers of payload bytes in fn: an encoder call on the caller's value, or a
	// helper that is handed the value (its encoders are the ones its cone invokes)
	type producer struct {
		call    *ssa.Call
		methods map[string]bool
	}
	var prods []producer
	instrsOf(fn, func(i ssa.Instruction) {
		call, ok := i.(*ssa.Call)
		if !ok || call == sign {
			return
		}
		if call.Call.IsInvoke() {
			if ir.NamedTypeID(call.Call.Value.Type()) == M+"/efivar.Marshallable" {
				prods = append(prods, producer{call, map[string]bool{call.Call.Method.Name(): true}})
			}
			return
		}
		callee := ir.Callee(call)
		if callee == nil || !c.P.InLib(callee) {
			return
		}
		hands := false
		for _, a := range call.Call.Args {
			if ir.NamedTypeID(a.Type()) == M+"/efivar.Marshallable" {
				hands = true
			}
		}
		if !hands {
			return
		}
		ms := map[string]bool{}
		for _, f := range c.libCone([]*ssa.Function{callee}, 4) {
			instrsOf(f, func(j ssa.Instruction) {
				if cj, ok := j.(*ssa.Call); ok && cj.Call.IsInvoke() && ir.NamedTypeID(cj.Call.Value.Type()) == M+"/efivar.Marshallable" {
					ms[cj.Call.Method.Name()] = true
				}
			})
		}
		if len(ms) > 0 {
			prods = append(prods, producer{call, ms})
		}
	})
	mS, mE := map[string]bool{}, map[string]bool{}
	for _, p := range prods {
		t := forwardFlow(fn, p.call, sign)
		if t[sign.Call.Args[3]] {
			for m := range p.methods {
				mS[m] = true
			}
		}
		for _, o := range outs {
			if t[o] {
				for m := range p.methods {
					mE[m] = true
				}
			}
		}
	}
	if len(mS) == 0 || len(mE) == 0 {
		c.R.Infof(rule, fname, "payload", c.IPos(sign), "not decided for this shape: the encoding of the caller's value is not traced into both the signed buffer and the returned update")
		return
	}
	if len(mS) > 1 || len(mE) > 1 {
		if strings.Join(sortedSet(mS), "+") != strings.Join(sortedSet(mE), "+") {
			c.R.Infof(rule, fname, "payload", c.IPos(sign), "not decided for this shape: several encoders of the caller's value reach the signed buffer or the returned update")
			return
		}
	}
	a, b := strings.Join(sortedSet(mS), "+"), strings.Join(sortedSet(mE), "+")
	c.R.Check(a == b, rule, fname, "payload", c.IPos(sign), what,
		"the signed buffer takes the value's "+a+"() while the returned update carries its "+b+"(): for a value whose two encoders differ (a database with a list that one of them leaves out) the signature does not cover the bytes that are sent")
}

// forwardFlow: the values and local objects of fn that (may) carry bytes
// produced by the call `from`: its result, the local objects it is handed the
// address of, and everything computed from or filled with those. Flow through
// the call `stop` (its result) is not followed.
func forwardFlow(fn *ssa.Function, from *ssa.Call, stop *ssa.Call) map[ssa.Value]bool {
	t := map[ssa.Value]bool{}
	var work []ssa.Value
	add := func(v ssa.Value) {
		if v == nil || t[v] {
			return
		}
		switch v.(type) {
		case *ssa.Const, *ssa.Function, *ssa.Builtin, *ssa.Global:
			return
		}
		t[v] = true
		work = append(work, v)
	}
	// the object an address argument denotes
	objOf := func(v ssa.Value) ssa.Value {
		for {
			switch x := v.(type) {
			case *ssa.ChangeType:
				v = x.X
			case *ssa.MakeInterface:
				v = x.X
			case *ssa.FieldAddr:
				v = x.X
			case *ssa.IndexAddr:
				v = x.X
			case *ssa.Slice:
				v = x.X
			default:
				return v
			}
		}
	}
	pointerish := func(v ssa.Value) bool {
		switch v.Type().Underlying().(type) {
		case *types.Pointer, *types.Interface:
			return true
		}
		return false
	}
	filled := func(call ssa.CallInstruction, except ssa.Value) {
		for _, a := range ir.CallArgs(call) {
			if a == except || !pointerish(a) || !writerLike(a.Type()) {
				continue
			}
			o := objOf(a)
			if _, isParam := o.(*ssa.Parameter); isParam {
				continue
			}
			if _, isAlloc := o.(*ssa.Alloc); isAlloc {
				add(o)
			} else if _, isCall := o.(*ssa.Call); isCall && pointerish(o) {
				add(o)
			}
		}
	}
	if from.Type() != nil {
		if tup, ok := from.Type().(*types.Tuple); !ok || tup.Len() > 0 {
			add(from)
		}
	}
	filled(from, nil)
	if from.Call.IsInvoke() {
		// the receiver is the source, not a sink
		delete(t, objOf(from.Call.Value))
	}
	for len(work) > 0 {
		v := work[len(work)-1]
		work = work[:len(work)-1]
		refs := v.Referrers()
		if refs == nil {
			continue
		}
		for _, r := range *refs {
			switch x := r.(type) {
			case *ssa.Store:
				if x.Val == v {
					add(objOf(x.Addr))
				}
			case *ssa.MapUpdate:
				if x.Value == v || x.Key == v {
					add(objOf(x.Map))
				}
			case ssa.CallInstruction:
				if cv, ok := x.(*ssa.Call); ok {
					if cv == stop {
						continue
					}
					add(cv)
				}
				filled(x, v)
			case *ssa.Return, *ssa.If, *ssa.Jump, *ssa.Panic:
			case ssa.Value:
				add(x)
			}
		}
	}
	return t
}

// writerLike: a value of type t can be written into (it has a Write method).
func writerLike(t types.Type) bool {
	ms := types.NewMethodSet(t)
	for i := 0; i < ms.Len(); i++ {
		if ms.At(i).Obj().Name() == "Write" {
			return true
		}
	}
	return false
}

// ---------------------------------------------------------------- A-u.refuse / A-u.source

func isTextType(t types.Type) bool {
	switch u := t.Underlying().(type) {
	case *types.Basic:
		return u.Info()&types.IsString != 0
	case *types.Slice:
		b, ok := u.Elem().Underlying().(*types.Basic)
		return ok && (b.Kind() == types.Byte || b.Kind() == types.Uint8 || b.Kind() == types.Uint16 || b.Kind() == types.Rune)
	}
	return false
}

// refusalCondKind classifies a condition that guards a refusal of the string
// decoder: "error" (an error value tested against nil / a sentinel), "terminator"
// (the text is empty, or its last element is compared with 0, or a NUL suffix
// test), "content" (anything else computed from the text), "" (unknown).
func (c *Ctx) refusalCondKind(cond ssa.Value) string {
	if e, _, ok := ir.NilCheck(cond); ok && isErrorType(e.Type()) {
		return "error"
	}
	if _, ok := isEOFTest(cond); ok {
		return "error"
	}
	if _, ok := isErrTest(cond); ok {
		return "error"
	}
	switch x := cond.(type) {
	case *ssa.BinOp:
		switch x.Op {
		case token.EQL, token.NEQ, token.LSS, token.LEQ, token.GTR, token.GEQ:
		default:
			return ""
		}
		for _, pair := range [][2]ssa.Value{{x.X, x.Y}, {x.Y, x.X}} {
			k, isK := ir.ConstInt(pair[1])
			if !isK {
				continue
			}
			v := ir.StripConv(pair[0])
			// len(text) against a small constant: the empty / too short text
			if call, ok := v.(*ssa.Call); ok && ir.CallID(call) == "builtin.len" && k >= 0 && k <= 2 {
				return "terminator"
			}
			a := affineOf(v, 0)
			if len(a.T) == 1 && a.K >= -2 && a.K <= 2 && k >= -2 && k <= 2 {
				for sym, cf := range a.T {
					if strings.HasPrefix(sym, "len(") && cf == 1 {
						return "terminator"
					}
				}
			}
			// the last element against 0
			var index ssa.Value
			switch y := v.(type) {
			case *ssa.UnOp:
				if ia, ok := y.X.(*ssa.IndexAddr); ok && y.Op == token.MUL {
					index = ia.Index
				}
			case *ssa.Lookup:
				if _, isMap := y.X.Type().Underlying().(*types.Map); !isMap {
					index = y.Index
				}
			case *ssa.Index:
				index = y.Index
			}
			if index != nil {
				ia := affineOf(index, 0)
				last := false
				for sym, cf := range ia.T {
					if strings.HasPrefix(sym, "len(") && cf == 1 && len(ia.T) == 1 && (ia.K == -1 || ia.K == -2) {
						last = true
					}
				}
				if last && k == 0 && (x.Op == token.EQL || x.Op == token.NEQ) {
					return "terminator"
				}
				return "content"
			}
		}
		// a comparison over something read from the text
		for v := range c.sliceOfLocal(x) {
			switch y := v.(type) {
			case *ssa.Lookup, *ssa.Index, *ssa.Next:
				return "content"
			case *ssa.UnOp:
				if _, ok := y.X.(*ssa.IndexAddr); ok && y.Op == token.MUL {
					return "content"
				}
			case *ssa.Call:
				if !c.P.InModule(calleeOrNil(y)) && y.Common().StaticCallee() != nil && ir.CallID(y) != "builtin.len" {
					for _, a := range y.Call.Args {
						if isTextType(a.Type()) {
							return "content"
						}
					}
				}
			}
		}
	case *ssa.Call:
		id := ir.CallID(x)
		callee := x.Common().StaticCallee()
		if callee == nil || c.P.InModule(callee) {
			return ""
		}
		text := false
		for _, a := range x.Call.Args {
			if isTextType(a.Type()) {
				text = true
			}
		}
		if !text {
			return ""
		}
		if id == "bytes.HasSuffix" || id == "strings.HasSuffix" {
			if constBytesEqual(x.Call.Args[1], "\x00") {
				return "terminator"
			}
			if k, ok := x.Call.Args[1].(*ssa.Const); ok && k.Value != nil && k.Value.ExactString() == `"\x00"` {
				return "terminator"
			}
			if elems, isLit := variadicElems(x.Call.Args[1]); isLit && len(elems) == 1 {
				if k, isK := ir.ConstInt(elems[0]); isK && k == 0 {
					return "terminator"
				}
			}
			if elems, isLit := literalElems(x.Call.Args[1]); isLit && len(elems) == 1 {
				if k, isK := ir.ConstInt(elems[0]); isK && k == 0 {
					return "terminator"
				}
			}
			return ""
		}
		return "content"
	}
	return ""
}

func calleeOrNil(call *ssa.Call) *ssa.Function { return call.Common().StaticCallee() }

// ruleTextRefusals (A-u.refuse): the string decoder refuses a value only for
// the reader's / decoder's error or for the missing terminator. The x/text
// decoder maps every sequence of code units to text (ill-formed ones to
// U+FFFD, as the firmware's own consumers do); a refusal computed from the
// decoded text otherwise turns a variable that read fine into an error.
func (c *Ctx) ruleTextRefusals(rule string) {
	what := "the string decoder refuses a value only for the reader's error or the missing NUL terminator, never for what the decoded text contains otherwise"
	fn := c.Fn(rule, "efi/util.ParseUtf16Var")
	if fn == nil {
		return
	}
	counts := map[string]int{}
	n := 0
	for _, r := range liveReturns(fn) {
		if retClass(fn, r) != "fail" {
			continue
		}
		n++
		bad, undec := "", ""
		for _, ce := range ir.DominatingConds(fn, r.Block()) {
			switch c.refusalCondKind(ce.Cond) {
			case "error", "terminator":
			case "content":
				bad = "the refusal at " + c.IPos(r) + " is taken on a condition over the decoded text (" + c.IPos(ce.If) + ") that is neither the decoder's error nor the terminator test"
			default:
				undec = "condition at " + c.IPos(ce.If) + " is of a kind the rule does not classify"
			}
		}
		key := ordinalKey(counts, "refusal")
		switch {
		case bad != "":
			c.R.Violf(rule, name(fn), key, c.IPos(r), what, bad+": values that decoded (boot entry descriptions, loader strings) are refused")
		case undec != "":
			c.R.Infof(rule, name(fn), key, c.IPos(r), "not decided for this shape: "+undec)
		default:
			c.R.Okf(rule, name(fn), key, c.IPos(r), what)
		}
	}
	if n == 0 {
		c.R.Infof(rule, name(fn), "refusal", c.Pos(fn.Pos()), "not decided for this shape: no failing return found in the decoder itself")
	}
}

// textOrigins: where the text v was produced: "decoder" (read from a reader
// that x/text's transform.NewReader built, or handed out by an x/text decoder),
// "const", or "other:<what>" for any other producer (the raw input, a helper
// over the raw input, a parameter).
func (c *Ctx) textOrigins(v ssa.Value, out map[string]bool, seen map[ssa.Value]bool, depth int) {
	if v == nil || seen[v] {
		return
	}
	seen[v] = true
	if depth > 10 {
		out["?"] = true
		return
	}
	viaDecoder := func(r ssa.Value) bool {
		for x := range c.sliceOfLocal(r) {
			if call, ok := x.(*ssa.Call); ok {
				id := ir.CallID(call)
				if id == "golang.org/x/text/transform.NewReader" || strings.HasPrefix(id, "golang.org/x/text/encoding.Decoder.") {
					return true
				}
			}
		}
		return false
	}
	switch x := v.(type) {
	case *ssa.Const:
		out["const"] = true
	case *ssa.Parameter:
		out["other:parameter "+x.Name()] = true
	case *ssa.Convert:
		c.textOrigins(x.X, out, seen, depth+1)
	case *ssa.ChangeType:
		c.textOrigins(x.X, out, seen, depth+1)
	case *ssa.Slice:
		c.textOrigins(x.X, out, seen, depth+1)
	case *ssa.Extract:
		c.textOrigins(x.Tuple, out, seen, depth+1)
	case *ssa.Phi:
		for _, e := range x.Edges {
			c.textOrigins(e, out, seen, depth+1)
		}
	case *ssa.UnOp:
		if a, ok := x.X.(*ssa.Alloc); ok && x.Op == token.MUL {
			n := 0
			for _, r := range *a.Referrers() {
				if st, ok := r.(*ssa.Store); ok && st.Addr == ssa.Value(a) {
					n++
					c.textOrigins(st.Val, out, seen, depth+1)
				}
			}
			if n > 0 {
				return
			}
		}
		out["?"] = true
	case *ssa.BinOp:
		c.textOrigins(x.X, out, seen, depth+1)
		c.textOrigins(x.Y, out, seen, depth+1)
	case *ssa.Call:
		id := ir.CallID(x)
		args := ir.CallArgs(x)
		switch {
		case id == "io.ReadAll" || id == "io/ioutil.ReadAll":
			if viaDecoder(args[0]) {
				out["decoder"] = true
			} else {
				out["other:"+id+" of a reader that is not the decoder's"] = true
			}
			return
		case strings.HasPrefix(id, "golang.org/x/text/encoding.Decoder.") || id == "golang.org/x/text/transform.Bytes" || id == "golang.org/x/text/transform.String":
			out["decoder"] = true
			return
		case id == "bytes.Buffer.Bytes" || id == "bytes.Buffer.String" || id == "bytes.Buffer.Next" || id == "strings.Builder.String":
			// a buffer filled from the decoder's reader, or the raw input
			obj := ir.RootOf(args[0])
			if _, isParam := obj.(*ssa.Parameter); isParam {
				out["other:"+shortID(id)+" of the input"] = true
				return
			}
			dec := false
			if refs := obj.Referrers(); refs != nil {
				for _, r := range *refs {
					if call, ok := r.(*ssa.Call); ok {
						switch ir.CallID(call) {
						case "bytes.Buffer.ReadFrom", "io.Copy", "io.CopyN", "strings.Builder.ReadFrom":
							for _, a := range ir.CallArgs(call) {
								if a != args[0] && viaDecoder(a) {
									dec = true
								}
							}
						}
					}
				}
			}
			if dec {
				out["decoder"] = true
			} else {
				out["?"] = true
			}
			return
		}
		callee := x.Common().StaticCallee()
		if callee != nil && c.P.InModule(callee) && callee.Blocks != nil {
			// a helper: its text arguments are where its result comes from; a helper without
			// text arguments is looked into
			hasText := false
			for _, a := range args {
				if isTextType(a.Type()) {
					hasText = true
					c.textOrigins(a, out, seen, depth+1)
				}
			}
			if !hasText {
				for _, r := range ir.Returns(callee) {
					for _, rv := range r.Results {
						if isTextType(rv.Type()) {
							c.textOrigins(rv, out, seen, depth+1)
						}
					}
				}
			}
			return
		}
		// a standard-library transformation of text (Trim, TrimRight, ToValidUTF8, append ...)
		hasText := false
		for _, a := range args {
			if isTextType(a.Type()) {
				if k, isK := a.(*ssa.Const); isK && k != nil {
					continue
				}
				hasText = true
				c.textOrigins(a, out, seen, depth+1)
			}
		}
		if !hasText {
			out["?"] = true
		}
	default:
		out["?"] = true
	}
}

// ruleTextSource (A-u.source): the text a successful return of the string
// decoder hands back was produced by the x/text UTF-16 decoder and by nothing
// else: a second producer (a fast path over the raw input, a hand-written
// narrowing) decodes some inputs differently from the decoder.
func (c *Ctx) ruleTextSource(rule string) {
	what := "the text handed back on success is produced by the x/text UTF-16 decoder, on every path"
	fn := c.Fn(rule, "efi/util.ParseUtf16Var")
	if fn == nil {
		return
	}
	counts := map[string]int{}
	n := 0
	for _, r := range liveReturns(fn) {
		if retClass(fn, r) == "fail" || len(r.Results) == 0 || !isTextType(r.Results[0].Type()) {
			continue
		}
		n++
		out := map[string]bool{}
		c.textOrigins(r.Results[0], out, map[ssa.Value]bool{}, 0)
		key := ordinalKey(counts, "text")
		var others []string
		for o := range out {
			if strings.HasPrefix(o, "other:") {
				others = append(others, strings.TrimPrefix(o, "other:"))
			}
		}
		sort.Strings(others)
		switch {
		case len(others) > 0:
			c.R.Violf(rule, name(fn), key, c.IPos(r), what, "the returned text (also) comes from "+strings.Join(others, ", ")+": code units that path takes are not decoded by the UTF-16 decoder (U+0080..U+00FF, surrogates and byte order marks come out differently)")
		case out["?"] || !out["decoder"]:
			c.R.Infof(rule, name(fn), key, c.IPos(r), "not decided for this shape: the producer of the returned text is not identified")
		default:
			c.R.Okf(rule, name(fn), key, c.IPos(r), what)
		}
	}
	if n == 0 {
		c.R.Infof(rule, name(fn), "text", c.Pos(fn.Pos()), "not decided for this shape: no successful return of text found")
	}
}

// ---------------------------------------------------------------- F10.exact

// ruleStripExact (F10.exact): what the in-memory store keeps for a signed
// update is the rest of the update behind the descriptor: the object the
// payload decoder filled from those bytes (or the bytes themselves), handed on
// as decoded. A value that library code builds anew from the decoded payload
// (entry by entry through the database's own mutators, through a filter, a
// normaliser) is a different value whenever that builder is not the identity
// (merged lists, dropped duplicates, recomputed sizes), and then a signed
// write stores something else than the plain write of the same payload.
func (c *Ctx) ruleStripExact(rule string) {
	what := "the value stored for a signed update is the payload as decoded from the bytes behind the descriptor, not a value rebuilt from it"
	fn := c.Fn(rule, "efivarfs/testfs.(*TestFS).WriteVar")
	if fn == nil {
		return
	}
	fname := name(fn)
	tP := paramByNamed(fn, M+"/efivar.Marshallable")
	var stores []*ssa.Call
	instrsOf(fn, func(i ssa.Instruction) {
		call, ok := i.(*ssa.Call)
		if !ok {
			return
		}
		if call.Call.IsInvoke() && call.Call.Method.Name() == "WriteVar" {
			stores = append(stores, call)
		} else if cal := ir.Callee(call); cal != nil && cal != fn && cal.Name() == "WriteVar" {
			stores = append(stores, call)
		}
	})
	if tP == nil || len(stores) == 0 {
		c.R.Infof(rule, fname, "stored-value", c.Pos(fn.Pos()), "not decided for this shape: the call that hands the value to the store is not found in "+fname)
		return
	}
	payDec := map[string]bool{M + "/efi/signature.SignatureDatabase.Unmarshal": true, M + "/efi/signature.ReadSignatureDatabase": true,
		M + "/efi/signature.SignatureList.Unmarshal": true, M + "/efi/signature.ReadSignatureList": true}
	strip := func(v ssa.Value) ssa.Value {
		for {
			switch x := v.(type) {
			case *ssa.MakeInterface:
				v = x.X
			case *ssa.ChangeType:
				v = x.X
			case *ssa.ChangeInterface:
				v = x.X
			case *ssa.Convert:
				v = x.X
			default:
				return v
			}
		}
	}
	var leaves []ssa.Value
	seen := map[ssa.Value]bool{}
	var walk func(v ssa.Value, d int)
	walk = func(v ssa.Value, d int) {
		v = strip(v)
		if seen[v] || d > 8 {
			return
		}
		seen[v] = true
		if ph, ok := v.(*ssa.Phi); ok {
			for _, e := range ph.Edges {
				walk(e, d+1)
			}
			return
		}
		leaves = append(leaves, v)
	}
	for _, st := range stores {
		args := st.Call.Args
		walk(args[len(args)-1], 0)
	}
	counts := map[string]int{}
	n := 0
	for _, leaf := range leaves {
		if leaf == ssa.Value(tP) {
			continue
		}
		n++
		key := ordinalKey(counts, "stored-value")
		pos := c.Pos(leaf.Pos())
		if ex, ok := leaf.(*ssa.Extract); ok {
			pos = c.Pos(ex.Tuple.Pos())
		}
		// the object the payload decoder filled
		obj := leaf
		if ex, ok := obj.(*ssa.Extract); ok {
			obj = ex.Tuple
		}
		if ld, ok := obj.(*ssa.UnOp); ok && ld.Op == token.MUL {
			obj = ld.X
		}
		switch x := obj.(type) {
		case *ssa.Alloc:
			decoded, others := false, ""
			for _, r := range *x.Referrers() {
				call, ok := r.(ssa.CallInstruction)
				if !ok {
					continue
				}
				id := ir.CallID(call)
				if payDec[id] {
					decoded = true
					continue
				}
				if callee := ir.Callee(call); callee != nil && c.P.InLib(callee) && len(call.Common().Args) > 0 && call.Common().Args[0] == ssa.Value(x) && callee.Signature.Recv() != nil {
					if c.isMutator(callee, 0) {
						others = shortID(id)
					}
				}
			}
			switch {
			case decoded && others == "":
				c.R.Okf(rule, fname, key, pos, what)
			case decoded:
				c.R.Violf(rule, fname, key, pos, what, "the decoded payload is changed through "+others+" before it is stored")
			default:
				c.R.Infof(rule, fname, key, pos, "not decided for this shape: the stored object is a local that the payload decoder is not seen to fill")
			}
		case *ssa.Call:
			id := ir.CallID(x)
			callee := ir.Callee(x)
			switch {
			case payDec[id]:
				c.R.Okf(rule, fname, key, pos, what)
			case id == "bytes.Buffer.Bytes" || id == "bytes.Buffer.Next" || id == "bytes.NewBuffer" || id == "bytes.NewReader":
				c.R.Okf(rule, fname, key, pos, what)
			case callee != nil && c.P.InLib(callee):
				// a library function builds the value: from the decoded payload?
				from := ""
				for _, a := range x.Call.Args {
					r := ir.RootOf(a)
					if al, ok := r.(*ssa.Alloc); ok {
						for _, rr := range *al.Referrers() {
							if call, ok := rr.(ssa.CallInstruction); ok && payDec[ir.CallID(call)] {
								from = "the decoded payload"
							}
						}
					}
					if cl, ok := strip(r).(*ssa.Call); ok && payDec[ir.CallID(cl)] {
						from = "the decoded payload"
					}
					if ex, ok := r.(*ssa.Extract); ok {
						if cl, ok := ex.Tuple.(*ssa.Call); ok && payDec[ir.CallID(cl)] {
							from = "the decoded payload"
						}
					}
				}
				if from != "" {
					c.R.Violf(rule, fname, key, pos, what, "the stored value is the result of "+shortID(name(callee))+" over "+from+": whatever that function merges, drops, reorders or recomputes makes a signed write store another value than a plain write of the same payload")
				} else {
					c.R.Infof(rule, fname, key, pos, "not decided for this shape: the stored value is built by "+shortID(name(callee)))
				}
			default:
				c.R.Infof(rule, fname, key, pos, "not decided for this shape: the stored value is the result of a call the rule does not know")
			}
		default:
			c.R.Infof(rule, fname, key, pos, "not decided for this shape: the origin of the stored value is not identified")
		}
	}
	if n == 0 {
		c.R.Infof(rule, fname, "stored-value", c.Pos(fn.Pos()), "not decided for this shape: no value other than the caller's reaches the store in "+fname)
	}
}

// ---------------------------------------------------------------- G1.fromvalue

// ruleWriterFromValue (G1.fromvalue): at every wire position where the reader
// keeps what it read in a field of the decoded value, the writer emits a datum
// taken from the value it is given - not a constant or a package-level
// variable. A writer that stamps a fixed value there re-encodes every decoded
// value whose field differs (whatever else the reader lets through: another
// revision, another type) to other bytes than were read.
func (c *Ctx) ruleWriterFromValue(rule, reader, writer string, uefiBody bool) {
	r, w := c.Fn(rule, reader), c.Fn(rule, writer)
	if r == nil || w == nil {
		return
	}
	what := "where the reader keeps the field it read, the writer emits that field of the value it is given (no constant or package variable in its place)"
	key := "pair:" + shortID(name(w))
	_ = uefiBody
	rt, wt := c.codecTable(r, true), c.codecTable(w, false)
	var rr []codecEntry
	for _, e := range rt {
		if !e.alias {
			rr = append(rr, e)
		}
	}
	if len(rr) == 0 || len(rr) != len(wt) {
		c.R.Infof(rule, name(r), key, c.Pos(r.Pos()), "not decided for this shape: reader and writer do not list the same number of data in their own bodies (judged by G1.pair)")
		return
	}
	bad := ""
	for k := range wt {
		a, b := rr[k], wt[k]
		if a.field == nil || b.field != nil || b.val == nil || b.width < 0 || a.width != b.width {
			continue
		}
		// the writer's datum: from its parameters, or fixed?
		fromParam := false
		fixed := false
		v := ir.StripConv(b.val)
		if mi, ok := v.(*ssa.MakeInterface); ok {
			v = ir.StripConv(mi.X)
		}
		switch y := v.(type) {
		case *ssa.Const:
			fixed = true
		case *ssa.UnOp:
			if _, isG := y.X.(*ssa.Global); isG && y.Op == token.MUL {
				fixed = true
			}
		}
		if !fixed {
			for x := range c.sliceOfLocal(v) {
				if _, ok := x.(*ssa.Parameter); ok {
					fromParam = true
				}
			}
			if !fromParam {
				continue // a local of unknown origin: not decided here
			}
			continue
		}
		bad = "position " + itoa(k+1) + ": the reader keeps " + shortID(strings.TrimPrefix(a.what, "field:")) + ", the writer emits a fixed value (" + v.String() + ") instead of that field: a decoded value whose field differs is written back as other bytes"
	}
	c.R.Check(bad == "", rule, name(r), key, c.Pos(w.Pos()), what, bad)
}

func itoa(n int) string { return strconv.Itoa(n) }

// ---------------------------------------------------------------- C1.dropped over readers kept in fields

// ruleFieldReaders (C1.dropped): a reader built over the caller's image reader
// and kept in a field of a library object (the section readers of a parsed
// image) is still the caller's dependency when it is read later: the error of
// a read that is fed from such a field must not be dropped. (The dependency
// classifier of C1/C2 follows parameters and values of the dependency's own
// type; a *io.SectionReader loaded from a field is not one of them, so a read
// deferred from Parse to an accessor without an error result escaped it.)
func (c *Ctx) ruleFieldReaders(rule string) {
	d := c.deps()
	depFields := map[string]string{}
	for _, fn := range c.P.LibFunctions() {
		instrsOf(fn, func(i ssa.Instruction) {
			st, ok := i.(*ssa.Store)
			if !ok {
				return
			}
			fa, ok := st.Addr.(*ssa.FieldAddr)
			if !ok || dependencyKind(st.Val.Type()) != "" {
				return
			}
			if k := d.valueKind(st.Val); k != "" {
				depFields[ir.FieldID(fa)] = k
			}
		})
	}
	reach, _ := c.Reachable(c.c15Roots())
	var fieldOf func(v ssa.Value, depth int) string
	fieldOf = func(v ssa.Value, depth int) string {
		if depth > 6 || v == nil {
			return ""
		}
		switch x := v.(type) {
		case *ssa.MakeInterface:
			return fieldOf(x.X, depth+1)
		case *ssa.ChangeInterface:
			return fieldOf(x.X, depth+1)
		case *ssa.ChangeType:
			return fieldOf(x.X, depth+1)
		case *ssa.UnOp:
			if fa, ok := x.X.(*ssa.FieldAddr); ok && x.Op == token.MUL {
				if _, ok := depFields[ir.FieldID(fa)]; ok {
					return ir.FieldID(fa)
				}
			}
		case *ssa.Call:
			id := ir.CallID(x)
			callee := ir.Callee(x)
			if id == "io.NewSectionReader" || id == "io.LimitReader" || id == "bufio.NewReader" || id == "io.TeeReader" || callee != nil && c.P.InLib(callee) && implementsReader(x.Type()) {
				for _, a := range x.Call.Args {
					if f := fieldOf(a, depth+1); f != "" {
						return f
					}
				}
			}
		}
		return ""
	}
	counts := map[string]int{}
	n := 0
	var fns []*ssa.Function
	for _, fn := range c.P.LibFunctions() {
		if reach[fn] {
			fns = append(fns, fn)
		}
	}
	sort.Slice(fns, func(i, j int) bool { return name(fns[i]) < name(fns[j]) })
	for _, fn := range fns {
		fn := fn
		instrsOf(fn, func(i ssa.Instruction) {
			call, ok := i.(ssa.CallInstruction)
			if !ok {
				return
			}
			id := ir.CallID(call)
			idx, isFwd := forwarders[id]
			if !isFwd {
				return
			}
			if k, _ := d.siteKind(call); k != "" {
				return // judged by the dependency rule itself
			}
			args := ir.CallArgs(call)
			field := ""
			for _, k := range idx {
				if k < len(args) {
					if f := fieldOf(args[k], 0); f != "" {
						field = f
					}
				}
			}
			if field == "" || !sigHasError(call.Common().Signature()) {
				return
			}
			n++
			key := ordinalKey(counts, name(fn)+":"+shortID(id)+"<-"+shortID(field))
			e, kept := errValue(call)
			c.R.Check(kept && e != nil, rule, name(fn), strings.TrimPrefix(key, name(fn)+":"), c.IPos(i),
				"the error of a read from a reader kept over the caller-supplied "+depFields[field]+" ("+shortID(field)+") must not be dropped",
				"the error result of "+shortID(id)+" is discarded: a failing or short read of the caller's reader yields a truncated value and the operation goes on as if it had succeeded")
		})
	}
	if n == 0 {
		c.R.Okf(rule, "-", "field-readers", "-", "no read from a reader kept in a field over a caller-supplied dependency drops its error in the scope of the property's operations ("+itoa(len(depFields))+" such fields)")
	}
}

// liveReturns: the returns of fn that the entry block reaches (the synthetic
// return of the recover block of a function with defers is not one of them).
func liveReturns(fn *ssa.Function) []*ssa.Return {
	if len(fn.Blocks) == 0 {
		return nil
	}
	seen, _ := ir.Reach(fn, fn.Blocks[0], nil)
	var out []*ssa.Return
	for _, r := range ir.Returns(fn) {
		if r.Block() == fn.Recover || !seen[r.Block().Index] {
			continue
		}
		out = append(out, r)
	}
	return out
}

var _ = sort.Strings
