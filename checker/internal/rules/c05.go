package rules

import (
	"fmt"
	"go/token"
	"strings"

	"golang.org/x/tools/go/ssa"

	"verif/checker/internal/ir"
)

func init() { Registry["C05"] = checkC05 }

const (
	pkcsPkg = M + "/pkcs7"
	cbPkg   = "golang.org/x/crypto/cryptobyte"
)

// hashInputs: for a hash.Hash value h (result of a constructor call), the
// arguments of all Write calls / io.Copy sources that feed it.
func hashInputs(fn *ssa.Function, h ssa.Value) (writes []ssa.Value, copies []ssa.Value) {
	for _, f := range withAnon(fn) {
		instrsOf(f, func(i ssa.Instruction) {
			call, ok := i.(ssa.CallInstruction)
			if !ok {
				return
			}
			cc := call.Common()
			if cc.IsInvoke() && resolveCell(cc.Value) == h && cc.Method.Name() == "Write" {
				writes = append(writes, resolveCell(cc.Args[0]))
			}
			if id := ir.CallID(call); (id == "io.Copy" || id == "io.CopyN") && resolveCell(ir.StripIface(cc.Args[0])) == h {
				copies = append(copies, resolveCell(cc.Args[1]))
			}
		})
	}
	return
}

// sha256SumOf: v is h.Sum(nil) of a SHA-256 hash; returns the hash value.
func (c *Ctx) sha256SumOf(v ssa.Value) (h ssa.Value, ok bool, why string) {
	v = resolveCell(v)
	call, isC := v.(*ssa.Call)
	if !isC {
		return nil, false, "not the result of a Sum call"
	}
	if id := ir.CallID(call); id == "crypto/sha256.Sum256" {
		return nil, false, "sha256.Sum256 form"
	}
	if !call.Call.IsInvoke() || call.Call.Method.Name() != "Sum" {
		return nil, false, "not hash.Hash.Sum"
	}
	if !ir.IsNilConst(call.Call.Args[0]) {
		return nil, false, "Sum is given a non-nil prefix"
	}
	h = resolveCell(call.Call.Value)
	// h may be a phi / reassigned variable: resolve through the constructor
	ctor, isCtor := h.(*ssa.Call)
	if !isCtor {
		return h, false, "the hash is not a directly constructed value"
	}
	switch ir.CallID(ctor) {
	case "crypto/sha256.New":
		return h, true, ""
	case "crypto.Hash.New":
		k, isK := ir.ConstInt(ctor.Call.Args[0])
		want, _ := c.constInt("crypto", "SHA256")
		if isK && k == want {
			return h, true, ""
		}
		// hash chosen by a parameter: acceptable only if the caller passes SHA-256; reported by the caller's rule
		if _, isParam := ctor.Call.Args[0].(*ssa.Parameter); isParam {
			return h, true, "param"
		}
		return h, false, "hash algorithm is not SHA-256"
	}
	return h, false, "unknown hash constructor " + ir.CallID(ctor)
}

// resolveCell follows loads of single-assignment local cells (parameters and
// locals spilled because closures capture them) to the value stored.
func resolveCell(v ssa.Value) ssa.Value {
	for depth := 0; depth < 6; depth++ {
		ld, ok := v.(*ssa.UnOp)
		if !ok || ld.Op != token.MUL {
			return v
		}
		cell := cellOf(ld.X)
		a, ok := cell.(*ssa.Alloc)
		if !ok {
			return v
		}
		var stored []ssa.Value
		for _, f := range withAnon(topFn(a.Parent())) {
			instrsOf(f, func(i ssa.Instruction) {
				if st, ok := i.(*ssa.Store); ok && cellOf(st.Addr) == ssa.Value(a) {
					stored = append(stored, st.Val)
				}
			})
		}
		if len(stored) != 1 {
			return v
		}
		v = stored[0]
	}
	return v
}

// tagValue evaluates asn1.Tag expressions: constants and the
// ContextSpecific()/Constructed() methods.
func tagValue(v ssa.Value) (int64, bool) {
	if n, ok := evalConst(v); ok {
		return n, true
	}
	if call, ok := v.(*ssa.Call); ok {
		switch ir.CallID(call) {
		case cbPkg + "/asn1.Tag.ContextSpecific":
			n, ok := tagValue(call.Call.Args[0])
			return n | 0x80, ok
		case cbPkg + "/asn1.Tag.Constructed":
			n, ok := tagValue(call.Call.Args[0])
			return n | 0x20, ok
		}
	}
	return 0, false
}

// builderShape renders the nesting of cryptobyte builder calls made on builder
// parameter/variable b inside fn (a closure or the top-level function).
func (c *Ctx) builderShape(fn *ssa.Function, b ssa.Value, depth int) string {
	if depth > 12 {
		return "…"
	}
	type item struct {
		pos  token.Pos
		text string
	}
	var items []item
	instrsOf(fn, func(i ssa.Instruction) {
		call, ok := i.(*ssa.Call)
		if !ok || len(call.Call.Args) == 0 || call.Call.Args[0] != b {
			return
		}
		id := ir.CallID(call)
		if !strings.HasPrefix(id, cbPkg+".Builder.") {
			return
		}
		m := strings.TrimPrefix(id, cbPkg+".Builder.")
		cond := ""
		if depth > 0 && len(ir.DominatingConds(fn, call.Block())) > 0 {
			cond = "?"
		}
		switch m {
		case "Bytes", "BytesOrPanic", "SetError":
			return // finalisers are not part of the emitted structure
		}
		var text string
		switch m {
		case "AddASN1":
			tag, okT := tagValue(call.Call.Args[1])
			inner := "?"
			if mc, ok := ir.StripConv(call.Call.Args[2]).(*ssa.MakeClosure); ok {
				if f, ok := mc.Fn.(*ssa.Function); ok && len(f.Params) == 1 {
					inner = c.builderShape(f, f.Params[0], depth+1)
				}
			} else if f, ok := ir.StripConv(call.Call.Args[2]).(*ssa.Function); ok && len(f.Params) == 1 {
				inner = c.builderShape(f, f.Params[0], depth+1)
			}
			t := "?"
			if okT {
				t = fmt.Sprintf("%#x", tag)
			}
			text = fmt.Sprintf("T%s{%s}", t, inner)
		case "AddASN1ObjectIdentifier":
			text = "OID(" + c.describeValue(call.Call.Args[1]) + ")"
		case "AddASN1Int64":
			n, _ := evalConst(call.Call.Args[1])
			text = fmt.Sprintf("INT(%d)", n)
		case "AddASN1NULL":
			text = "NULL"
		case "AddASN1BigInt":
			text = "BIGINT(" + c.describeValue(call.Call.Args[1]) + ")"
		case "AddASN1OctetString":
			text = "OCTET(" + c.describeValue(call.Call.Args[1]) + ")"
		case "AddBytes":
			text = "BYTES(" + c.describeValue(call.Call.Args[1]) + ")"
		case "AddASN1UTCTime":
			text = "UTCTIME"
		case "AddASN1BitString":
			text = "BITSTRING"
		default:
			text = m
		}
		items = append(items, item{call.Pos(), cond + text})
	})
	for i := 1; i < len(items); i++ {
		for j := i; j > 0 && items[j].pos < items[j-1].pos; j-- {
			items[j], items[j-1] = items[j-1], items[j]
		}
	}
	var p []string
	for _, it := range items {
		p = append(p, it.text)
	}
	return strings.Join(p, " ")
}

// describeValue names a value by the global / parameter / field it is loaded from.
func (c *Ctx) describeValue(v ssa.Value) string {
	v = ir.StripConv(v)
	if r := resolveCell(v); r != v {
		if p, ok := r.(*ssa.Parameter); ok {
			return p.Name()
		}
	}
	if ld, ok := v.(*ssa.UnOp); ok && ld.Op == token.MUL {
		if g, ok := ld.X.(*ssa.Global); ok {
			return g.Name()
		}
		if id := ir.FieldID(ld.X); id != "" {
			return id[strings.LastIndex(id, ".")+1:]
		}
		if fv, ok := ld.X.(*ssa.FreeVar); ok {
			return fv.Name()
		}
	}
	switch x := v.(type) {
	case *ssa.Parameter:
		return x.Name()
	case *ssa.FreeVar:
		return x.Name()
	}
	return "·"
}

func checkC05(c *Ctx) {
	fn := c.Fn("L", "pkcs7.SignPKCS7")
	if fn == nil {
		return
	}
	fname := name(fn)
	contentP := paramBytes(fn)
	oidP := paramByNamed(fn, "encoding/asn1.ObjectIdentifier")
	certP := certParam(fn)
	// ---- L1: attributes
	var attrsObj ssa.Value
	var bad []string
	instrsOf(fn, func(i ssa.Instruction) {
		st, ok := i.(*ssa.Store)
		if !ok {
			return
		}
		switch ir.FieldID(st.Addr) {
		case pkcsPkg + ".Attributes.MessageDigest":
			attrsObj = st.Addr.(*ssa.FieldAddr).X
			h, ok, why := c.sha256SumOf(st.Val)
			if !ok || why == "param" {
				bad = append(bad, "messageDigest is not a SHA-256 Sum(nil): "+why)
				return
			}
			ws, cps := hashInputs(fn, h)
			if len(cps) != 0 || len(ws) != 1 || ws[0] != ssa.Value(contentP) {
				bad = append(bad, "the hash behind messageDigest is not fed with exactly the content parameter, unsliced")
			}
		case pkcsPkg + ".Attributes.ContentType":
			if resolveCell(st.Val) != ssa.Value(oidP) {
				bad = append(bad, "the contentType attribute is not the oid parameter")
			}
		case pkcsPkg + ".Attributes.SigningTime":
			sl := c.Slicer().Slice(st.Val)
			if len(ir.CallsIn(sl, "time.Time.UTC")) == 0 {
				bad = append(bad, "signingTime is not a UTC time")
			}
		}
	})
	if attrsObj == nil {
		bad = append(bad, "no Attributes value with a messageDigest is built")
	}
	c.R.Check(len(bad) == 0, "L1.attrs", fname, "signed-attributes", c.Pos(fn.Pos()), "signed attributes carry contentType = oid and messageDigest = SHA-256(content)", strings.Join(bad, "; "))

	// ---- L2: what is signed
	bad = nil
	var signCall ssa.CallInstruction
	var attributes ssa.Value
	for _, f := range withAnon(fn) {
		instrsOf(f, func(i ssa.Instruction) {
			if call, ok := i.(ssa.CallInstruction); ok && call.Common().IsInvoke() && dependencyKind(call.Common().Value.Type()) == "signer" && call.Common().Method.Name() == "Sign" {
				signCall = call
			}
		})
	}
	if signCall == nil {
		// a helper may wrap the signer call
		instrsOf(fn, func(i ssa.Instruction) {
			if call, ok := i.(*ssa.Call); ok {
				if callee := ir.Callee(call); callee != nil && c.P.InLib(callee) && c.reachesSigner(callee) {
					signCall = call
				}
			}
		})
	}
	var sigVal ssa.Value
	if signCall == nil {
		bad = append(bad, "no call of the caller's signer found")
	} else {
		args := signCall.Common().Args
		var digest, opts ssa.Value
		if signCall.Common().IsInvoke() && len(args) == 3 {
			digest, opts = args[1], args[2]
		} else {
			// helper: find the digest-typed argument
			for _, a := range args {
				if _, isSum := a.(*ssa.Call); isSum && digest == nil {
					if _, ok2, _ := c.sha256SumOf(a); ok2 {
						digest = a
					}
				}
			}
		}
		if v, ok := signCall.(*ssa.Call); ok {
			for _, r := range *v.Referrers() {
				if ex, ok := r.(*ssa.Extract); ok && ex.Index == 0 {
					sigVal = ex
				}
			}
		}
		if digest == nil {
			bad = append(bad, "the digest handed to the signer is not identifiable")
		} else if h, ok, why := c.sha256SumOf(digest); !ok || why == "param" {
			bad = append(bad, "the signer is not given a SHA-256 Sum(nil): "+why)
		} else {
			ws, cps := hashInputs(fn, h)
			if len(cps) != 0 || len(ws) != 1 {
				bad = append(bad, "the signed hash has more than one input")
			} else {
				attributes = ws[0]
				mc, isCall := attributes.(*ssa.Call)
				if !isCall || ir.CallID(mc) != pkcsPkg+".Attributes.Marshal" {
					bad = append(bad, "the signed hash is not computed over the attribute encoder's output (Attributes.Marshal)")
				} else if attrsObj != nil && ir.StripConv(mc.Call.Args[0]) != ir.StripConv(attrsObj) {
					bad = append(bad, "the attributes that are signed are not the ones that carry the messageDigest")
				}
			}
		}
		if opts != nil {
			mi := ir.StripIface(opts)
			k, isK := ir.ConstInt(mi)
			want, _ := c.constInt("crypto", "SHA256")
			if !isK || k != want {
				bad = append(bad, "SignerOpts is not crypto.SHA256")
			}
		}
	}
	c.R.Check(len(bad) == 0, "L2.signed", fname, "signer-input", c.Pos(fn.Pos()), "the signer signs SHA-256 over the DER SET of exactly those attributes, with opts = crypto.SHA256", strings.Join(bad, "; "))

	// ---- L3/L4: what is embedded
	bad = nil
	var addBytes []*ssa.Call
	var octets []*ssa.Call
	var bigints []*ssa.Call
	for _, f := range withAnon(fn) {
		instrsOf(f, func(i ssa.Instruction) {
			if call, ok := i.(*ssa.Call); ok {
				switch ir.CallID(call) {
				case cbPkg + ".Builder.AddBytes":
					addBytes = append(addBytes, call)
				case cbPkg + ".Builder.AddASN1OctetString":
					octets = append(octets, call)
				case cbPkg + ".Builder.AddASN1BigInt":
					bigints = append(bigints, call)
				}
			}
		})
	}
	sl := func(v ssa.Value) map[ssa.Value]bool { s := c.Slicer(); return s.Slice(v) }
	foundAttrs, foundIssuer, foundRaw, foundContent := false, false, false, false
	for _, ab := range addBytes {
		s := sl(ab.Call.Args[1])
		switch {
		case attributes != nil && s[attributes]:
			foundAttrs = true
			// must go through a parse of the SET, not through a constant slice offset
			parsed := false
			for v := range s {
				if call, ok := v.(*ssa.Call); ok && strings.HasPrefix(ir.CallID(call), cbPkg+".String.ReadASN1") {
					parsed = true
				}
			}
			for v := range s {
				if sx, ok := v.(*ssa.Slice); ok && (sx.Low != nil || sx.High != nil) && s[attributes] {
					if sx.X == attributes || ir.StripConv(sx.X) == attributes {
						parsed = false
						bad = append(bad, "the SET header of the encoded attributes is stripped by slicing a fixed number of bytes (wrong for lengths >= 128)")
					}
				}
			}
			if !parsed {
				bad = append(bad, "the bytes under [0] authenticatedAttributes are not obtained by parsing the encoded SET")
			}
		case certP != nil && s[certP] && ir.HasField(s, "crypto/x509.Certificate.RawIssuer"):
			foundIssuer = true
		case certP != nil && s[certP] && ir.HasField(s, "crypto/x509.Certificate.Raw"):
			foundRaw = true
		case contentP != nil && s[contentP]:
			foundContent = true
		}
		if ir.HasField(s, "crypto/x509.Certificate.RawSubject") {
			bad = append(bad, "the signer is named by the certificate's subject instead of its issuer")
		}
	}
	if !foundAttrs {
		bad = append(bad, "the signed attribute bytes are not embedded (the bytes under [0] do not derive from the encoder result that was hashed)")
	}
	if !foundIssuer {
		bad = append(bad, "issuerAndSerialNumber does not carry cert.RawIssuer")
	}
	if !foundRaw {
		bad = append(bad, "the certificate (cert.Raw) is not embedded")
	}
	if !foundContent {
		bad = append(bad, "the content is not embedded for non-detached signatures")
	}
	okSerial := false
	for _, bi := range bigints {
		s := sl(bi.Call.Args[1])
		if certP != nil && s[certP] && ir.HasField(s, "crypto/x509.Certificate.SerialNumber") {
			okSerial = true
		}
	}
	if !okSerial {
		bad = append(bad, "the serial number is not encoded with AddASN1BigInt(cert.SerialNumber)")
	}
	okSig := false
	for _, oc := range octets {
		if sigVal != nil && sl(oc.Call.Args[1])[sigVal] {
			okSig = true
		}
	}
	if !okSig {
		bad = append(bad, "encryptedDigest is not the signer's result")
	}
	c.R.Check(len(bad) == 0, "L3.embedded", fname, "embedded-values", c.Pos(fn.Pos()), "the blob embeds the hashed attribute bytes, cert.RawIssuer + serial, cert.Raw, the content and the signature", strings.Join(bad, "; "))

	// ---- L5: emitter schema
	var top ssa.Value
	instrsOf(fn, func(i ssa.Instruction) {
		if call, ok := i.(*ssa.Call); ok && ir.CallID(call) == cbPkg+".Builder.AddASN1" && call.Parent() == fn {
			top = call.Call.Args[0]
		}
	})
	shape := ""
	if top != nil {
		shape = c.builderShape(fn, top, 0)
	}
	const alg = "T0x30{OID(OIDDigestAlgorithmSHA256) NULL}"
	want := "T0x30{OID(OIDSignedData) T0xa0{T0x30{INT(1) T0x31{" + alg + "} T0x30{OID(oid) ?T0xa0{T0x30{BYTES(content)}}} T0xa0{BYTES(Raw)} " +
		"T0x31{T0x30{INT(1) T0x30{BYTES(RawIssuer) BIGINT(SerialNumber)} " + alg + " T0xa0{BYTES(·)} T0x30{OID(OIDEncryptionAlgorithmRSA) NULL} OCTET(sig)}}}}}"
	c.R.Check(shape == want, "L5.schema", fname, "SignedData-shape", c.Pos(fn.Pos()), "the emitter nests ContentInfo / SignedData / SignerInfo as RFC 2315 defines (tags, order, SHA-256 and RSA OIDs, version 1)",
		"emitter shape is\n      "+shape+"\n   want\n      "+want)

	// ---- the attribute encoder
	if m := c.Fn("L5.schema", "pkcs7.(*Attributes).Marshal"); m != nil {
		var b ssa.Value
		instrsOf(m, func(i ssa.Instruction) {
			if call, ok := i.(*ssa.Call); ok && ir.CallID(call) == cbPkg+".Builder.AddASN1" && call.Parent() == m {
				b = call.Call.Args[0]
			}
		})
		shape := ""
		if b != nil {
			shape = c.builderShape(m, b, 0)
		}
		wantA := "T0x31{T0x30{OID(OIDAttributeContentType) T0x31{OID(ContentType)}} ?T0x30{OID(OIDAttributeSigningTime) T0x31{UTCTIME}} T0x30{OID(OIDAttributeMessageDigest) T0x31{OCTET(MessageDigest)}} ?T0x30{OID(Type) T0x31{BYTES(Bytes)}}}"
		c.R.Check(shape == wantA, "L5.schema", name(m), "Attributes-shape", c.Pos(m.Pos()), "the attribute encoder emits SET{contentType, [signingTime], messageDigest, others...}",
			"encoder shape is\n      "+shape+"\n   want\n      "+wantA)
	}

	// ---- L6: Authenticode content
	if sa := c.Fn("L6.spc", "authenticode.SignAuthenticode"); sa != nil {
		var bad []string
		var call *ssa.Call
		instrsOf(sa, func(i ssa.Instruction) {
			if cl, ok := i.(*ssa.Call); ok && ir.CallID(cl) == pkcsPkg+".SignPKCS7" {
				call = cl
			}
		})
		if call == nil {
			bad = append(bad, "SignPKCS7 is not called")
		} else {
			if !isGlobalLoad(call.Call.Args[2], M+"/authenticode.OIDSpcIndirectDataContent") {
				bad = append(bad, "content type is not SpcIndirectDataContent")
			}
			s := c.Slicer().Slice(call.Call.Args[3])
			spc := ir.CallsIn(s, M+"/authenticode.CreateSpcIndirectDataContent")
			if len(spc) == 0 {
				bad = append(bad, "content is not built by CreateSpcIndirectDataContent")
			} else {
				h, ok, _ := c.sha256SumOf(spc[0].Call.Args[0])
				if !ok {
					bad = append(bad, "the digest placed in SpcIndirectDataContent is not a Sum(nil) of the constructed hash")
				} else {
					ws, cps := hashInputs(sa, h)
					rd := paramByNamed(sa, "io.Reader")
					if len(ws) != 0 || len(cps) != 1 || rd == nil || cps[0] != ssa.Value(rd) {
						bad = append(bad, "the hash is not fed by io.Copy from the digest reader parameter only")
					}
				}
			}
			if cp := certParam(sa); cp == nil || resolveCell(call.Call.Args[1]) != ssa.Value(cp) {
				bad = append(bad, "the certificate is not passed through")
			}
		}
		c.R.Check(len(bad) == 0, "L6.spc", name(sa), "authenticode-content", c.Pos(sa.Pos()), "the Authenticode content is SpcIndirectDataContent over the hash of the image reader, signed with the given certificate", strings.Join(bad, "; "))
	}
	// the digest OID inside SpcIndirectDataContent is SHA-256 and the digest parameter is what is embedded
	if sp := c.Fn("L6.spc", "authenticode.CreateSpcIndirectDataContent"); sp != nil {
		var b ssa.Value
		instrsOf(sp, func(i ssa.Instruction) {
			if call, ok := i.(*ssa.Call); ok && ir.CallID(call) == cbPkg+".Builder.AddASN1" && call.Parent() == sp {
				b = call.Call.Args[0]
			}
		})
		shape := ""
		if b != nil {
			shape = c.builderShape(sp, b, 0)
		}
		ok := strings.HasSuffix(shape, "T0x30{T0x30{OID(OIDDigestAlgorithmSHA256) NULL} OCTET(digest)}") && strings.HasPrefix(shape, "T0x30{OID(OIDSpcPEImageDataObjID) ")
		c.R.Check(ok, "L6.spc", name(sp), "DigestInfo-shape", c.Pos(sp.Pos()), "SpcIndirectDataContent is SpcPeImageData followed by DigestInfo{sha256, NULL, digest parameter}", "shape is "+shape)
	}
	// a failing signer never yields a blob (shared with C15): error discipline in the signing cone
	reach, _ := c.Reachable([]*ssa.Function{fn})
	c.RuleC(func(f *ssa.Function) bool {
		return reach[f] && c.P.InLib(f) && strings.HasPrefix(name(f), "pkcs7.") || reach[f] && c.P.InLib(f) && strings.HasPrefix(name(f), "(*pkcs7.")
	})
	c.R.Floor("L5.schema", 2)
	c.R.Floor("L6.spc", 2)
	c.R.Floor("C2.surface", 1)
}
