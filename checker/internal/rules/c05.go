package rules

import (
	"fmt"
	"go/token"
	"strings"

	"golang.org/x/tools/go/ssa"

	"verif/checker/internal/ir"
)

func init() { Registry["C05"] = checkC05 }

const (
	pkcsPkg = M + "/pkcs7"
	cbPkg   = "golang.org/x/crypto/cryptobyte"
)

// resolveCell follows loads of single-assignment local cells (parameters and
// locals spilled because closures capture them) to the value stored.
func resolveCell(v ssa.Value) ssa.Value {
	for depth := 0; depth < 6; depth++ {
		ld, ok := v.(*ssa.UnOp)
		if !ok || ld.Op != token.MUL {
			return v
		}
		cell := cellOf(ld.X)
		a, ok := cell.(*ssa.Alloc)
		if !ok {
			return v
		}
		var stored []ssa.Value
		for _, f := range withAnon(topFn(a.Parent())) {
			instrsOf(f, func(i ssa.Instruction) {
				if st, ok := i.(*ssa.Store); ok && cellOf(st.Addr) == ssa.Value(a) {
					stored = append(stored, st.Val)
				}
			})
		}
		if len(stored) != 1 {
			return v
		}
		v = stored[0]
	}
	return v
}

// hashInputs (single function form, used by C01/J4): Write arguments and
// io.Copy sources feeding hash value h inside fn.
func hashInputs(fn *ssa.Function, h ssa.Value) (writes []ssa.Value, copies []ssa.Value) {
	for _, f := range withAnon(fn) {
		instrsOf(f, func(i ssa.Instruction) {
			call, ok := i.(ssa.CallInstruction)
			if !ok {
				return
			}
			cc := call.Common()
			if cc.IsInvoke() && resolveCell(cc.Value) == h && cc.Method.Name() == "Write" {
				writes = append(writes, resolveCell(cc.Args[0]))
			}
			if id := ir.CallID(call); (id == "io.Copy" || id == "io.CopyN") && resolveCell(ir.StripIface(cc.Args[0])) == h {
				copies = append(copies, resolveCell(cc.Args[1]))
			}
		})
	}
	return
}

// digestInfo describes a digest value found in a deep view: which hash, and the
// (resolved) inputs that were fed to it.
type digestInfo struct {
	ok     bool
	why    string
	sha256 bool
	byParm bool // algorithm chosen by a parameter
	algo   dval
	inputs []dval
	copies []dval
}

// digestOf resolves a value to a digest computation: h.Sum(nil) of a
// constructed hash (inputs = all Write/io.Copy feeding that hash anywhere in
// the view), or sha256.Sum256(x) (possibly sliced).
func (d *deepView) digestOf(v ssa.Value, fr *frame) digestInfo {
	r := d.resolve(v, fr)
	val := r.v
	// d[:] of an array filled by Sum256
	if sl, ok := val.(*ssa.Slice); ok {
		if a, ok := sl.X.(*ssa.Alloc); ok {
			var stored ssa.Value
			n := 0
			d.eachStoreTo(a, r.fr, func(st *ssa.Store, f *frame) { stored, n = st.Val, n+1 })
			if n == 1 {
				val = stored
			}
		}
	}
	call, isC := val.(*ssa.Call)
	if !isC {
		return digestInfo{why: "not the result of a hash computation"}
	}
	switch ir.CallID(call) {
	case "crypto/sha256.Sum256":
		return digestInfo{ok: true, sha256: true, inputs: []dval{d.resolve(call.Call.Args[0], r.fr)}}
	}
	if !call.Call.IsInvoke() || call.Call.Method.Name() != "Sum" {
		return digestInfo{why: "not hash.Hash.Sum / sha256.Sum256"}
	}
	if !ir.IsNilConst(call.Call.Args[0]) {
		// an empty slice with spare capacity is the same as nil for the result
		empty := false
		if mk, isMk := d.resolveConv(call.Call.Args[0], r.fr).v.(*ssa.MakeSlice); isMk {
			if k, isK := ir.ConstInt(mk.Len); isK && k == 0 {
				empty = true
			}
		}
		if segs, ok := d.byteSeq(call.Call.Args[0], r.fr, 0); !empty && (!ok || len(segs) != 0) {
			return digestInfo{why: "Sum is given a non-nil prefix"}
		}
	}
	h := d.resolve(call.Call.Value, r.fr)
	ctor, isCtor := h.v.(*ssa.Call)
	if ta, isTA := h.v.(*ssa.TypeAssert); isTA && !isCtor {
		// a state taken from a pool of reset states stands for what the pool's New constructs
		if get, isGet := ta.X.(*ssa.Call); isGet && ir.CallID(get) == "sync.Pool.Get" {
			pc, why := d.c.pooledCtor(get)
			if pc == nil {
				return digestInfo{why: "the hash is taken from a pool: " + why}
			}
			ctor, isCtor = pc, true
		}
	}
	if !isCtor {
		return digestInfo{why: "the hash is not a directly constructed value"}
	}
	out := digestInfo{ok: true}
	switch ir.CallID(ctor) {
	case "crypto/sha256.New":
		out.sha256 = true
	case "crypto.Hash.New":
		out.algo = d.resolve(ctor.Call.Args[0], h.fr)
		k, isK := ir.ConstInt(out.algo.v)
		want, _ := d.c.constInt("crypto", "SHA256")
		switch {
		case isK && k == want:
			out.sha256 = true
		case isK:
			return digestInfo{why: "hash algorithm is not SHA-256"}
		default:
			out.byParm = true
		}
	default:
		return digestInfo{why: "unknown hash constructor " + ir.CallID(ctor)}
	}
	// everything fed to that hash object — since its last Reset before this Sum, and
	// before this Sum (one hash state reused for several digests)
	sumSeq, lastReset := -1, -1
	for _, di := range d.order {
		if di.i == ssa.Instruction(call) && di.fr == r.fr {
			sumSeq = di.seq
		}
	}
	windowed := d.hasReset(h)
	for _, di := range d.order {
		if rc, ok := di.i.(ssa.CallInstruction); ok && rc.Common().IsInvoke() && rc.Common().Method.Name() == "Reset" && d.resolve(rc.Common().Value, di.fr).same(h) {
			if sumSeq >= 0 && di.seq < sumSeq && di.seq > lastReset {
				lastReset = di.seq
			}
		}
	}
	for _, di := range d.order {
		call, ok := di.i.(ssa.CallInstruction)
		if !ok {
			continue
		}
		if windowed && sumSeq >= 0 && (di.seq > sumSeq || di.seq < lastReset) {
			continue
		}
		cc := call.Common()
		if cc.IsInvoke() && cc.Method.Name() == "Write" && d.resolve(cc.Value, di.fr).same(h) {
			out.inputs = append(out.inputs, d.resolve(cc.Args[0], di.fr))
		}
		if id := ir.CallID(call); id == "io.Copy" || id == "io.CopyN" || id == "io.CopyBuffer" {
			if d.resolve(ir.StripIface(cc.Args[0]), di.fr).same(h) {
				out.copies = append(out.copies, d.resolve(ir.StripIface(cc.Args[1]), di.fr))
			} else if d.objectOf(cc.Args[0], di.fr).same(h) {
				// the copy made by a helper that is handed the hash as a writer
				out.copies = append(out.copies, d.objectOf(cc.Args[1], di.fr))
			}
		}
	}
	return out
}

// tagValue evaluates asn1.Tag expressions: constants, the
// ContextSpecific()/Constructed() methods and package-level tag variables.
func (c *Ctx) tagValue(v ssa.Value, depth int) (int64, bool) {
	if depth > 6 {
		return 0, false
	}
	if n, ok := evalConst(v); ok {
		return n, true
	}
	switch x := v.(type) {
	case *ssa.Call:
		switch ir.CallID(x) {
		case cbPkg + "/asn1.Tag.ContextSpecific":
			n, ok := c.tagValue(x.Call.Args[0], depth+1)
			return n | 0x80, ok
		case cbPkg + "/asn1.Tag.Constructed":
			n, ok := c.tagValue(x.Call.Args[0], depth+1)
			return n | 0x20, ok
		}
	case *ssa.UnOp:
		if g, ok := x.X.(*ssa.Global); ok && x.Op == token.MUL && g.Pkg != nil {
			var val ssa.Value
			stores := map[*ssa.Store]bool{}
			fns := append([]*ssa.Function{}, c.P.LibFunctions()...)
			if init := g.Pkg.Func("init"); init != nil {
				fns = append(fns, init)
			}
			for _, f := range fns {
				if f.Pkg != g.Pkg {
					continue
				}
				instrsOf(f, func(i ssa.Instruction) {
					if st, ok := i.(*ssa.Store); ok && st.Addr == ssa.Value(g) {
						val = st.Val
						stores[st] = true
					}
				})
			}
			if len(stores) == 1 {
				return c.tagValue(val, depth+1)
			}
		}
	case *ssa.Convert:
		return c.tagValue(x.X, depth+1)
	}
	return 0, false
}

// builderShape renders the nesting of cryptobyte builder calls made on builder
// value b (in frame fr): closures handed to AddASN1 and library helpers that
// receive the builder are expanded in place.
func (d *deepView) builderShape(fr *frame, b ssa.Value, depth int) string {
	if depth > 14 || fr == nil {
		return unknownShape
	}
	type item struct {
		pos  token.Pos
		text string
	}
	var items []item
	instrsOf(fr.fn, func(i ssa.Instruction) {
		call, ok := i.(*ssa.Call)
		if !ok {
			return
		}
		cond := ""
		if depth > 0 && len(ir.DominatingConds(fr.fn, call.Block())) > 0 && !d.onlySourceConds(call, fr) {
			cond = "?"
		}
		id := ir.CallID(call)
		if !strings.HasPrefix(id, cbPkg+".Builder.") {
			// a library helper that receives the builder: expand it
			if child := d.frameOfCall(fr, call); child != nil {
				for k, a := range call.Call.Args {
					if a == b && k < len(child.fn.Params) {
						inner := d.builderShape(child, child.fn.Params[k], depth+1)
						if inner != "" {
							if cond != "" {
								inner = cond + inner
							}
							items = append(items, item{call.Pos(), inner})
						}
					}
				}
			}
			return
		}
		if len(call.Call.Args) == 0 || call.Call.Args[0] != b {
			return
		}
		m := strings.TrimPrefix(id, cbPkg+".Builder.")
		var text string
		switch m {
		case "Bytes", "BytesOrPanic", "SetError":
			return
		case "AddASN1":
			tag, okT := d.c.tagValue(d.resolve(call.Call.Args[1], fr).v, 0)
			inner := unknownShape
			if cf := d.closureFrameOf(call.Call.Args[2], fr); cf != nil && len(cf.fn.Params) == 1 {
				inner = d.builderShape(cf, cf.fn.Params[0], depth+1)
			}
			t := unknownShape
			if okT {
				t = fmt.Sprintf("%#x", tag)
			}
			text = fmt.Sprintf("T%s{%s}", t, inner)
			// an explicitly framed OCTET STRING is the same encoding as AddASN1OctetString
			if okT && tag == 4 && strings.HasPrefix(inner, "BYTES(") && strings.HasSuffix(inner, ")") && !strings.Contains(inner, " ") {
				text = "OCTET(" + strings.TrimSuffix(strings.TrimPrefix(inner, "BYTES("), ")") + ")"
			}
		case "AddASN1ObjectIdentifier":
			text = "OID(" + d.describe(call.Call.Args[1], fr) + ")"
		case "AddASN1Int64", "AddASN1Uint64", "AddASN1Enum":
			if n, ok := evalConst(d.resolve(call.Call.Args[1], fr).v); ok {
				text = fmt.Sprintf("INT(%d)", n)
				if m == "AddASN1Enum" {
					text = fmt.Sprintf("ENUM(%d)", n)
				}
			} else {
				text = "INT(" + unknownShape + ")"
			}
		case "AddASN1NULL":
			text = "NULL"
		case "AddASN1BigInt":
			text = "BIGINT(" + d.describe(call.Call.Args[1], fr) + ")"
		case "AddASN1OctetString":
			text = "OCTET(" + d.describe(call.Call.Args[1], fr) + ")"
		case "AddBytes":
			text = "BYTES(" + d.describe(call.Call.Args[1], fr) + ")"
			// the finished bytes of another builder: that builder's shape, in place
			r := d.resolve(ir.StripConv(call.Call.Args[1]), fr)
			rv := r.v
			if ex, ok := rv.(*ssa.Extract); ok && ex.Index == 0 {
				rv = ex.Tuple
			}
			if bc, ok := rv.(*ssa.Call); ok {
				if bid := ir.CallID(bc); bid == cbPkg+".Builder.Bytes" || bid == cbPkg+".Builder.BytesOrPanic" {
					if inner := d.objectShape(d.objectOf(bc.Call.Args[0], r.fr), depth+1); inner != "" {
						text = inner
					}
				}
			}
		case "AddASN1UTCTime":
			text = "UTCTIME"
		case "AddASN1GeneralizedTime":
			text = "GENTIME"
		case "AddASN1BitString":
			text = "BITSTRING"
		default:
			text = m + unknownShape
		}
		items = append(items, item{call.Pos(), cond + text})
	})
	for i := 1; i < len(items); i++ {
		for j := i; j > 0 && items[j].pos < items[j-1].pos; j-- {
			items[j], items[j-1] = items[j-1], items[j]
		}
	}
	var p []string
	for _, it := range items {
		p = append(p, it.text)
	}
	return strings.Join(p, " ")
}

// describe names a value by the global / root parameter / field it resolves to.
func (d *deepView) describe(v ssa.Value, fr *frame) string {
	r := d.resolve(ir.StripConv(v), fr)
	x := ir.StripConv(r.v)
	if ld, ok := x.(*ssa.UnOp); ok && ld.Op == token.MUL {
		if g, ok := ld.X.(*ssa.Global); ok {
			return g.Name()
		}
		if id := ir.FieldID(ld.X); id != "" {
			if fa, ok := ld.X.(*ssa.FieldAddr); ok {
				if _, local := d.resolve(fa.X, r.fr).v.(*ssa.Alloc); local {
					return "·" // a field of a locally built value, not of an input
				}
			}
			return id[strings.LastIndex(id, ".")+1:]
		}
	}
	if p, ok := x.(*ssa.Parameter); ok && r.fr == d.root {
		return p.Name()
	}
	if f, ok := x.(*ssa.Field); ok {
		id := ir.FieldID(f)
		return id[strings.LastIndex(id, ".")+1:]
	}
	return "·"
}

func checkC05(c *Ctx) {
	fn := c.Fn("L", "pkcs7.SignPKCS7")
	if fn == nil {
		return
	}
	c.ruleDetachedData("L7.detached")
	c.ruleSetOrder("L6.setorder")
	// the digest that is signed is the digest of the whole content: a reader that fails
	// while the image is hashed makes signing fail (C1/C2, shared with C15)
	if sa := c.FnOpt("authenticode.SignAuthenticode"); sa != nil {
		cone := map[*ssa.Function]bool{}
		for _, g := range c.cone(sa) {
			for _, f := range withAnon(g) {
				cone[f] = true
			}
		}
		c.RuleC(func(f *ssa.Function) bool { return cone[f] })
	}
	fname := name(fn)
	dv := c.deepViewOf(fn, 6)
	dv.throughFields = true
	dv.stopAt = map[string]bool{pkcsPkg + ".Attributes.Marshal": true}
	contentP := paramBytes(fn)
	oidP := paramByNamed(fn, "encoding/asn1.ObjectIdentifier")
	certP := certParam(fn)
	isRoot := func(r dval, p *ssa.Parameter) bool {
		return p != nil && r.fr == dv.root && ir.StripConv(r.v) == ssa.Value(p)
	}

	// ---- L1: attributes
	var bad []string
	var attrsObj dval
	haveAttrs := false
	for _, di := range dv.storesToField(pkcsPkg + ".Attributes.MessageDigest") {
		st := di.i.(*ssa.Store)
		attrsObj, haveAttrs = dv.resolve(st.Addr.(*ssa.FieldAddr).X, di.fr), true
		dg := dv.digestOf(st.Val, di.fr)
		switch {
		case !dg.ok:
			bad = append(bad, "messageDigest is not a SHA-256 digest: "+dg.why)
		case !dg.sha256:
			bad = append(bad, "messageDigest is not computed with SHA-256")
		case len(dg.copies) != 0 || len(dg.inputs) != 1 || !isRoot(dg.inputs[0], contentP):
			bad = append(bad, "the hash behind messageDigest is not fed with exactly the content parameter, unsliced")
		}
	}
	for _, di := range dv.storesToField(pkcsPkg + ".Attributes.ContentType") {
		if !isRoot(dv.resolve(di.i.(*ssa.Store).Val, di.fr), oidP) {
			bad = append(bad, "the contentType attribute is not the oid parameter")
		}
	}
	for _, di := range dv.storesToField(pkcsPkg + ".Attributes.SigningTime") {
		sl := dv.sliceDeep(di.i.(*ssa.Store).Val, di.fr)
		if len(ir.CallsIn(sl, "time.Time.UTC")) == 0 {
			bad = append(bad, "signingTime is not a UTC time")
		}
	}
	if !haveAttrs {
		bad = append(bad, "no Attributes value with a messageDigest is built")
	}
	c.R.Check(len(bad) == 0, "L1.attrs", fname, "signed-attributes", c.Pos(fn.Pos()), "signed attributes carry contentType = oid and messageDigest = SHA-256(content)", strings.Join(bad, "; "))

	// ---- L2: what is signed
	bad = nil
	var signCall ssa.CallInstruction
	var signFr *frame
	for _, di := range dv.order {
		if call, ok := di.i.(ssa.CallInstruction); ok && call.Common().IsInvoke() && dependencyKind(call.Common().Value.Type()) == "signer" && call.Common().Method.Name() == "Sign" {
			signCall, signFr = call, di.fr
		}
	}
	var attributes dval
	haveAttrBytes := false
	var sigVal dval
	haveSig := false
	if signCall == nil {
		bad = append(bad, "no call of the caller's signer found")
	} else {
		args := signCall.Common().Args
		dg := dv.digestOf(args[1], signFr)
		switch {
		case !dg.ok:
			bad = append(bad, "the signer is not given a digest: "+dg.why)
		case !dg.sha256:
			bad = append(bad, "the signer is not given a SHA-256 digest")
		case len(dg.copies) != 0 || len(dg.inputs) != 1:
			bad = append(bad, "the signed hash has more than one input")
		default:
			attributes, haveAttrBytes = dg.inputs[0], true
			mc, isCall := attributes.v.(*ssa.Call)
			if !isCall || ir.CallID(mc) != pkcsPkg+".Attributes.Marshal" {
				bad = append(bad, "the signed hash is not computed over the attribute encoder's output (Attributes.Marshal)")
			} else if haveAttrs {
				recv := dv.resolve(ir.StripConv(mc.Call.Args[0]), attributes.fr)
				if !recv.same(attrsObj) && ir.StripConv(recv.v) != ir.StripConv(attrsObj.v) {
					bad = append(bad, "the attributes that are signed are not the ones that carry the messageDigest")
				}
			}
		}
		k, isK := ir.ConstInt(ir.StripIface(dv.resolve(ir.StripIface(args[2]), signFr).v))
		want, _ := c.constInt("crypto", "SHA256")
		if !isK || k != want {
			bad = append(bad, "SignerOpts is not crypto.SHA256")
		}
		if v, ok := signCall.(*ssa.Call); ok {
			for _, r := range *v.Referrers() {
				if ex, ok := r.(*ssa.Extract); ok && ex.Index == 0 {
					sigVal, haveSig = dval{ex, signFr}, true
				}
			}
		}
	}
	c.R.Check(len(bad) == 0, "L2.signed", fname, "signer-input", c.Pos(fn.Pos()), "the signer signs SHA-256 over the DER SET of exactly those attributes, with opts = crypto.SHA256", strings.Join(bad, "; "))

	// ---- L3: what is embedded
	bad = nil
	foundAttrs, foundIssuer, foundRaw, foundContent, okSerial, okSig := false, false, false, false, false, false
	l3Undecided := ""
	for _, di := range dv.order {
		call, ok := di.i.(*ssa.Call)
		if !ok {
			continue
		}
		id := ir.CallID(call)
		if !strings.HasPrefix(id, cbPkg+".Builder.") || len(call.Call.Args) < 2 || dv.underStop(di.fr) {
			continue
		}
		arg := call.Call.Args[1]
		s := dv.sliceDeep(arg, di.fr)
		// the argument named by where it comes from (fields of locally built
		// carrier structs are followed to what was stored in them)
		pn := strings.TrimSuffix(dv.pathName(arg, di.fr, 0), "[:]")
		certPath := "param:?"
		if certP != nil {
			certPath = "param:" + certP.Name()
		}
		if id == cbPkg+".Builder.AddBytes" && contentP != nil && pn == "param:"+contentP.Name() {
			foundContent = true
			continue
		}
		if strings.HasPrefix(pn, certPath+".") {
			switch {
			case id == cbPkg+".Builder.AddBytes" && pn == certPath+".RawIssuer":
				foundIssuer = true
			case id == cbPkg+".Builder.AddBytes" && pn == certPath+".Raw":
				foundRaw = true
			case id == cbPkg+".Builder.AddBytes" && pn == certPath+".RawSubject":
				bad = append(bad, "the signer is named by the certificate's subject instead of its issuer")
			case id == cbPkg+".Builder.AddASN1BigInt" && pn == certPath+".SerialNumber":
				okSerial = true
			}
			continue
		}
		switch id {
		case cbPkg + ".Builder.AddBytes":
			if ir.HasField(s, "crypto/x509.Certificate.RawSubject") {
				bad = append(bad, "the signer is named by the certificate's subject instead of its issuer")
			}
			if haveSig && ir.StripConv(dv.resolveConv(arg, di.fr).v) == sigVal.v {
				// the signature placed under an explicitly framed OCTET STRING
				okSig = true
				continue
			}
			switch {
			case haveAttrBytes && s[attributes.v]:
				foundAttrs = true
				// what is embedded is what was signed, byte for byte: elements that are
				// taken apart and put together again (sorted, joined) on the way are
				// other bytes whenever the order changes
				for v := range s {
					if cl, ok := v.(*ssa.Call); ok {
						switch id2 := ir.CallID(cl); {
						case strings.HasPrefix(id2, "sort."), strings.HasPrefix(id2, "slices.Sort"), id2 == "bytes.Join", strings.HasPrefix(id2, "slices.Reverse"):
							bad = append(bad, "the attribute bytes that are embedded are rearranged ("+id2+") after the signature was made over them: what a verifier hashes is not what was signed when the order changes")
						}
					}
				}
				parsed := false
				handCut := false
				for v := range s {
					if cl, ok := v.(*ssa.Call); ok && strings.HasPrefix(ir.CallID(cl), cbPkg+".String.ReadASN1") {
						parsed = true
					}
					// encoding/asn1.Unmarshal into a RawValue, whose Bytes are the contents
					if cl, ok := v.(*ssa.Call); ok && ir.CallID(cl) == "encoding/asn1.Unmarshal" && ir.HasField(s, "encoding/asn1.RawValue.Bytes") {
						parsed = true
					}
				}
				for v := range s {
					if sx, ok := v.(*ssa.Slice); ok && (sx.Low != nil || sx.High != nil) {
						if base := ir.StripConv(resolveCell(sx.X)); base == attributes.v {
							if _, isK := ir.ConstInt(sx.Low); sx.Low != nil && !isK {
								// the header length is computed by hand: whether the arithmetic is right is not evaluated
								handCut = true
								continue
							}
							parsed = false
							bad = append(bad, "the SET header of the encoded attributes is stripped by slicing a fixed number of bytes (wrong for lengths >= 128)")
						}
					}
				}
				if !parsed && !handCut {
					// the header skipped inside a helper: a slice at a computed offset anywhere on the way
					for v := range s {
						if sx, ok := v.(*ssa.Slice); ok && sx.Low != nil {
							if _, isK := ir.ConstInt(sx.Low); !isK {
								handCut = true
							}
						}
					}
				}
				if !parsed && handCut {
					l3Undecided = "the SET header of the encoded attributes is skipped with a hand-computed header length"
				} else if !parsed {
					bad = append(bad, "the bytes under [0] authenticatedAttributes are not obtained by parsing the encoded SET")
				}
			case certP != nil && s[certP] && ir.HasField(s, "crypto/x509.Certificate.RawIssuer"):
				foundIssuer = true
			case certP != nil && s[certP] && ir.HasField(s, "crypto/x509.Certificate.Raw"):
				foundRaw = true
			case contentP != nil && s[contentP]:
				foundContent = true
			}
		case cbPkg + ".Builder.AddASN1BigInt":
			if certP != nil && s[certP] && ir.HasField(s, "crypto/x509.Certificate.SerialNumber") {
				okSerial = true
			}
		case cbPkg + ".Builder.AddASN1OctetString":
			if haveSig && s[sigVal.v] {
				okSig = true
				// exactly the signer's bytes: nothing prepended, padded or cut
				if exact, decided := dv.exactBytes(arg, di.fr, sigVal, 0); decided && !exact {
					okSig = false
					bad = append(bad, "encryptedDigest is built from the signer's result but is not exactly it (bytes are added or removed)")
				}
			}
		}
	}
	if !foundAttrs && haveAttrBytes {
		// the encoded attributes handed to a general-purpose decoder whose output the
		// evaluator does not connect with the bytes embedded afterwards
		for _, di := range dv.order {
			if call, ok := di.i.(*ssa.Call); ok && ir.CallID(call) == "encoding/asn1.Unmarshal" {
				if dv.sliceDeep(call.Call.Args[0], di.fr)[attributes.v] {
					l3Undecided = "the encoded attributes are taken apart with encoding/asn1.Unmarshal; which of its outputs is embedded is not followed"
					foundAttrs = true
				}
			}
		}
	}
	if !foundAttrs {
		bad = append(bad, "the signed attribute bytes are not embedded (the bytes under [0] do not derive from the encoder result that was hashed)")
	}
	if !foundIssuer {
		bad = append(bad, "issuerAndSerialNumber does not carry cert.RawIssuer")
	}
	if !foundRaw {
		bad = append(bad, "the certificate (cert.Raw) is not embedded")
	}
	if !foundContent {
		bad = append(bad, "the content is not embedded for non-detached signatures")
	}
	if !okSerial {
		bad = append(bad, "the serial number is not encoded with AddASN1BigInt(cert.SerialNumber)")
	}
	if !okSig {
		bad = append(bad, "encryptedDigest is not the signer's result")
	}
	if len(bad) == 0 && l3Undecided != "" {
		c.R.Infof("L3.embedded", fname, "embedded-values", c.Pos(fn.Pos()), "not decided for this shape: "+l3Undecided)
	} else {
		c.R.Check(len(bad) == 0, "L3.embedded", fname, "embedded-values", c.Pos(fn.Pos()), "the blob embeds the hashed attribute bytes, cert.RawIssuer + serial, cert.Raw, the content and the signature", strings.Join(bad, "; "))
	}

	// ---- L5: emitter schema
	shape := normaliseShape(c.topBuilderShape(dv))
	const alg = "T0x30{OID(OIDDigestAlgorithmSHA256) NULL}"
	want := "T0x30{OID(OIDSignedData) T0xa0{T0x30{INT(1) T0x31{" + alg + "} T0x30{OID(oid) ?T0xa0{T0x30{BYTES(content)}}} T0xa0{BYTES(Raw)} " +
		"T0x31{T0x30{INT(1) T0x30{BYTES(RawIssuer) BIGINT(SerialNumber)} " + alg + " T0xa0{BYTES(·)} T0x30{OID(OIDEncryptionAlgorithmRSA) NULL} OCTET(·)}}}}}"
	c.shapeCheck(shape, shape == want, "L5.schema", fname, "SignedData-shape", c.Pos(fn.Pos()), "the emitter nests ContentInfo / SignedData / SignerInfo as RFC 2315 defines (tags, order, SHA-256 and RSA OIDs, version 1)",
		"emitter shape is\n      "+shape+"\n   want\n      "+want)

	// ---- the attribute encoder
	if m := c.Fn("L5.schema", "pkcs7.(*Attributes).Marshal"); m != nil {
		dm := c.deepViewOf(m, 5)
		shape := normaliseShape(c.topBuilderShape(dm))
		wantA := "T0x31{T0x30{OID(OIDAttributeContentType) T0x31{OID(ContentType)}} ?T0x30{OID(OIDAttributeSigningTime) T0x31{UTCTIME}} T0x30{OID(OIDAttributeMessageDigest) T0x31{OCTET(MessageDigest)}} ?T0x30{OID(Type) T0x31{BYTES(Bytes)}}}"
		c.shapeCheck(shape, shape == wantA, "L5.schema", name(m), "Attributes-shape", c.Pos(m.Pos()), "the attribute encoder emits SET{contentType, [signingTime], messageDigest, others...}",
			"encoder shape is\n      "+shape+"\n   want\n      "+wantA)
	}

	// ---- L6: Authenticode content
	if sa := c.Fn("L6.spc", "authenticode.SignAuthenticode"); sa != nil {
		ds := c.deepViewOf(sa, 2)
		var bad []string
		calls := ds.callsTo(pkcsPkg + ".SignPKCS7")
		if len(calls) != 1 {
			bad = append(bad, "SignPKCS7 is not called exactly once")
		} else {
			call, cfr := calls[0].i.(*ssa.Call), calls[0].fr
			if !isGlobalLoad(ds.resolve(call.Call.Args[2], cfr).v, M+"/authenticode.OIDSpcIndirectDataContent") {
				bad = append(bad, "content type is not SpcIndirectDataContent")
			}
			var spc *ssa.Call
			var spcFr *frame
			for _, di := range ds.callsTo(M + "/authenticode.CreateSpcIndirectDataContent") {
				spc, spcFr = di.i.(*ssa.Call), di.fr
			}
			if spc == nil {
				bad = append(bad, "content is not built by CreateSpcIndirectDataContent")
			} else {
				content := ds.resolve(call.Call.Args[3], cfr)
				if s := ds.sliceDeep(content.v, content.fr); !s[spc] {
					// the content may be the resolved return value inside the constructor's frame
					if content.fr == nil || !strings.Contains(content.fr.id, "CreateSpcIndirectDataContent") {
						bad = append(bad, "the content passed to SignPKCS7 does not come from CreateSpcIndirectDataContent")
					}
				}
				dg := ds.digestOf(spc.Call.Args[0], spcFr)
				rd := paramByNamed(sa, "io.Reader")
				switch {
				case !dg.ok:
					bad = append(bad, "the digest placed in SpcIndirectDataContent is not a hash result: "+dg.why)
				case len(dg.inputs) != 0 || len(dg.copies) != 1 || rd == nil || !(dg.copies[0].fr == ds.root && dg.copies[0].v == ssa.Value(rd)):
					bad = append(bad, "the hash is not fed by io.Copy from the digest reader parameter only")
				case dg.why != "":
					bad = append(bad, "the hash is "+dg.why)
				}
			}
			if cp := certParam(sa); cp == nil || !(ds.resolve(call.Call.Args[1], cfr).v == ssa.Value(cp)) {
				bad = append(bad, "the certificate is not passed through")
			}
		}
		c.R.Check(len(bad) == 0, "L6.spc", name(sa), "authenticode-content", c.Pos(sa.Pos()), "the Authenticode content is SpcIndirectDataContent over the hash of the image reader, signed with the given certificate", strings.Join(bad, "; "))
	}
	if sp := c.Fn("L6.spc", "authenticode.CreateSpcIndirectDataContent"); sp != nil {
		dp := c.deepViewOf(sp, 5)
		shape := normaliseShape(c.topBuilderShape(dp))
		ok := strings.HasSuffix(shape, "T0x30{T0x30{OID(OIDDigestAlgorithmSHA256) NULL} OCTET(digest)}") && strings.HasPrefix(shape, "T0x30{OID(OIDSpcPEImageDataObjID) ")
		c.shapeCheck(shape, ok, "L6.spc", name(sp), "DigestInfo-shape", c.Pos(sp.Pos()), "SpcIndirectDataContent is SpcPeImageData followed by DigestInfo{sha256, NULL, digest parameter}", "shape is "+shape)
	}
	// a failing signer never yields a blob (shared with C15): error discipline in the signing cone
	reach, _ := c.Reachable([]*ssa.Function{fn})
	c.RuleC(func(f *ssa.Function) bool {
		return reach[f] && c.P.InLib(f) && strings.HasPrefix(name(f), "pkcs7.") || reach[f] && c.P.InLib(f) && strings.HasPrefix(name(f), "(*pkcs7.")
	})
	c.R.Floor("L5.schema", 2)
	c.R.Floor("L6.spc", 2)
	c.R.Floor("C2.surface", 1)
	// the producers keep nothing in package-level memory between calls
	c.rulePureAs("E.state", []string{"pkcs7.SignPKCS7", "authenticode.SignAuthenticode", "authenticode.CreateSpcIndirectDataContent"})
	c.R.Floor("E.state", 3)
	c.ruleRecycle("P.recycle", func(f *ssa.Function) bool {
		return strings.Contains(name(f), "authenticode.") || strings.Contains(name(f), "pkcs7.") || strings.Contains(name(f), "efi/signature.")
	})
}

// topBuilderShape: the shape emitted on the builder that the anchor function
// finalises (the one whose Bytes/BytesOrPanic result it returns), wherever in
// the view that builder is filled.
func (c *Ctx) topBuilderShape(dv *deepView) string {
	var b dval
	found, inRoot := false, false
	for _, di := range dv.order {
		if call, ok := di.i.(*ssa.Call); ok {
			id := ir.CallID(call)
			if id == cbPkg+".Builder.Bytes" || id == cbPkg+".Builder.BytesOrPanic" {
				// the builder the function itself finishes; one finished in a helper (a
				// re-encoding step behind it, say) only if there is no such
				if di.fr == dv.root {
					b, found, inRoot = dv.objectOf(call.Call.Args[0], di.fr), true, true
				} else if !inRoot {
					b, found = dv.objectOf(call.Call.Args[0], di.fr), true
				}
			}
		}
	}
	if !found {
		return ""
	}
	return dv.objectShape(b, 0)
}

// unknownShape marks a part of a builder shape that the evaluator does not
// resolve (a continuation that is not a known function, a tag that is not a
// constant, a builder method that is not modelled).
const unknownShape = "⊥"

// objectShape: everything emitted on builder object b, in view order.
func (dv *deepView) objectShape(b dval, depth int) string {
	var parts []string
	for _, fr := range dv.framesInOrder() {
		if fr.site == nil && fr != dv.root {
			continue // closures are expanded through AddASN1
		}
		if fr.parent != nil && fr.site != nil {
			// helper frames are expanded from their caller when they receive the builder;
			// only frames that own the builder (or the root) start a shape
			owns := false
			if a, ok := b.v.(*ssa.Alloc); ok && a.Parent() == fr.fn && b.fr == fr {
				owns = true
			}
			if cl, ok := b.v.(*ssa.Call); ok && cl.Parent() == fr.fn && b.fr == fr {
				owns = true
			}
			if !owns {
				continue
			}
		}
		seen := map[ssa.Value]bool{}
		instrsOf(fr.fn, func(i ssa.Instruction) {
			call, ok := i.(*ssa.Call)
			if !ok || len(call.Call.Args) == 0 {
				return
			}
			id := ir.CallID(call)
			isBuilderCall := strings.HasPrefix(id, cbPkg+".Builder.")
			passes := false
			var bv ssa.Value
			if isBuilderCall {
				bv = call.Call.Args[0]
			} else if child := dv.frameOfCall(fr, call); child != nil {
				for _, a := range call.Call.Args {
					if ir.NamedTypeID(a.Type()) == cbPkg+".Builder" && dv.objectOf(a, fr).same(b) {
						bv, passes = a, true
					}
				}
			}
			if bv == nil || seen[bv] || !dv.objectOf(bv, fr).same(b) {
				return
			}
			_ = passes
			seen[bv] = true
			if sh := dv.builderShape(fr, bv, depth); sh != "" {
				parts = append(parts, sh)
			}
		})
	}
	return strings.Join(parts, " ")
}

// underStop: the frame belongs to the activation of a stopAt callee.
func (d *deepView) underStop(fr *frame) bool {
	for f := fr; f != nil; f = f.parent {
		if f.site != nil && d.stopAt[ir.CallID(f.site)] {
			return true
		}
	}
	return false
}

func (d *deepView) framesInOrder() []*frame {
	seen := map[*frame]bool{}
	var out []*frame
	for _, di := range d.order {
		if !seen[di.fr] {
			seen[di.fr] = true
			out = append(out, di.fr)
		}
	}
	return out
}

// normaliseShape names the signature byte source uniformly.
func normaliseShape(s string) string {
	for _, n := range []string{"sig", "signature", "encryptedDigest"} {
		s = strings.ReplaceAll(s, "OCTET("+n+")", "OCTET(·)")
	}
	return s
}

// onlySourceConds: every condition that guards the builder call is the success
// of obtaining the bytes it adds (the ok result / nil error of a parse whose
// output the call's arguments derive from). Such an element is emitted
// whenever its source exists; it is not an optional member of the structure.
func (d *deepView) onlySourceConds(call *ssa.Call, fr *frame) bool {
	if len(call.Call.Args) < 2 {
		return false
	}
	src := map[ssa.Value]bool{}
	for _, a := range call.Call.Args[1:] {
		for v := range d.sliceDeep(a, fr) {
			src[v] = true
		}
	}
	conds := ir.DominatingConds(fr.fn, call.Block())
	if len(conds) == 0 {
		return false
	}
	for _, ce := range conds {
		okCond := false
		// ok-result observed true
		if core, neg := ir.Peel(ce.RawCond); isBoolType(core.Type()) && ce.RawTruth != neg {
			if c := callOf(core); c != nil && src[c] {
				okCond = true
			}
		}
		// error observed nil
		if ev, isNil := errIsNil(ce.RawCond, ce.RawTruth); ev != nil && isNil {
			if c := callOf(ev); c != nil && src[c] {
				okCond = true
			}
		}
		if !okCond {
			return false
		}
	}
	return true
}

// shapeCheck: a shape that is fully resolved is compared; one with unresolved
// parts (a continuation taken from a table, a computed tag) is not decided.
func (c *Ctx) shapeCheck(shape string, ok bool, rule, fn, construct, pos, what, detail string) {
	if !ok && (strings.Contains(shape, unknownShape) || strings.Contains(shape, "{}") || shape == "" || strings.HasPrefix(shape, "BYTES(")) {
		c.R.Infof(rule, fn, construct, pos, what+" -- not decided for this shape: parts of the emitted structure are not resolved ("+shape+")")
		return
	}
	// elements handed to the builder as already-encoded bytes of unknown origin
	// (encoding/asn1.Marshal of a struct, a helper's output): the rest of the
	// structure is compared, those elements are not decided
	if !ok {
		if i := strings.Index(detail, "want\n"); i >= 0 {
			want := strings.TrimSpace(detail[i+5:])
			if n, same := shapeMatchOpaque(parseShape(shape), parseShape(want)); same && n > 0 {
				c.R.Infof(rule, fn, construct, pos, fmt.Sprintf("%s -- not decided for this shape: %d element(s) are added as pre-encoded bytes whose content the evaluator does not resolve; the remaining structure agrees (%s)", what, n, shape))
				return
			}
		}
	}
	c.R.Check(ok, rule, fn, construct, pos, what, detail)
}

type shapeNode struct {
	head string // text up to '{' (or the whole atom)
	kids []shapeNode
	comp bool
}

func parseShape(s string) []shapeNode {
	var parse func(i int) ([]shapeNode, int)
	parse = func(i int) ([]shapeNode, int) {
		var out []shapeNode
		for i < len(s) {
			switch s[i] {
			case ' ':
				i++
				continue
			case '}':
				return out, i + 1
			}
			j := i
			depthParen := 0
			for j < len(s) && !(depthParen == 0 && (s[j] == ' ' || s[j] == '{' || s[j] == '}')) {
				if s[j] == '(' {
					depthParen++
				} else if s[j] == ')' {
					depthParen--
				}
				j++
			}
			n := shapeNode{head: s[i:j]}
			if j < len(s) && s[j] == '{' {
				n.comp = true
				n.kids, j = parse(j + 1)
			}
			out = append(out, n)
			i = j
		}
		return out, i
	}
	out, _ := parse(0)
	return out
}

// shapeMatchOpaque compares two shapes; an opaque BYTES(·) on the emitted side
// stands for any one element of the wanted side. Returns how many were used.
func shapeMatchOpaque(got, want []shapeNode) (int, bool) {
	if len(got) != len(want) {
		return 0, false
	}
	n := 0
	for k := range got {
		g, w := got[k], want[k]
		if g.head == "BYTES(·)" && !g.comp && (w.head != g.head || w.comp) {
			n++
			continue
		}
		if g.head != w.head || g.comp != w.comp {
			return 0, false
		}
		m, ok := shapeMatchOpaque(g.kids, w.kids)
		if !ok {
			return 0, false
		}
		n += m
	}
	return n, true
}

// hasReset: the hash state h is reset somewhere in the view.
func (d *deepView) hasReset(h dval) bool {
	for _, di := range d.order {
		if rc, ok := di.i.(ssa.CallInstruction); ok && rc.Common().IsInvoke() && rc.Common().Method.Name() == "Reset" && d.resolve(rc.Common().Value, di.fr).same(h) {
			return true
		}
	}
	return false
}

// ruleSetOrder (L6.setorder): the SET OF attributes that is signed (and
// re-encoded to verify) is in DER order for every content type. The
// contentType attribute is as long as the caller's OID is, so no fixed order
// of emission is the ascending order of the encodings for all inputs: the
// encoder has to order the encoded elements. Decided by provenance: what
// Marshal returns passes through a sorting step over the elements (sort.* /
// slices.Sort*; a hand-written ordering with bytes.Compare is not judged).
func (c *Ctx) ruleSetOrder(rule string) {
	fn := c.FnOpt("pkcs7.(*Attributes).Marshal")
	if fn == nil {
		fn = c.FnOpt("pkcs7.(Attributes).Marshal")
	}
	if fn == nil {
		c.R.Undecf(rule, "pkcs7.(*Attributes).Marshal", "anchor", "-", "the attribute SET encoder must resolve", "method not found")
		return
	}
	sorts, compares := "", false
	for _, g := range c.cone(fn) {
		for _, f := range withAnon(g) {
			instrsOf(f, func(i ssa.Instruction) {
				call, ok := i.(ssa.CallInstruction)
				if !ok {
					return
				}
				switch id := ir.CallID(call); {
				case id == "sort.Slice", id == "sort.SliceStable", id == "sort.Sort", id == "sort.Stable", strings.HasPrefix(id, "slices.Sort"):
					sorts = id
				case id == "bytes.Compare":
					compares = true
				}
			})
		}
	}
	what := "the signed attributes are a DER SET OF: its elements are in ascending order of their encodings, whatever the content type"
	switch {
	case sorts != "":
		c.R.Okf(rule, name(fn), "set-of-order", c.Pos(fn.Pos()), "the encoder orders the encoded attributes ("+sorts+")")
	case compares:
		c.R.Infof(rule, name(fn), "set-of-order", c.Pos(fn.Pos()), "not decided for this shape: the encoder compares encodings (bytes.Compare) but no sorting call is found; a hand-written ordering is not evaluated")
	default:
		c.R.Violf(rule, name(fn), "set-of-order", c.Pos(fn.Pos()), what,
			"the attributes are emitted in a fixed order (contentType, signingTime, messageDigest, others) and nothing orders the encoded elements: a content type whose OID encodes to 14 octets or more makes the contentType attribute longer than signingTime, so the SET is not in DER order and verifiers that re-encode it (go.mozilla.org/pkcs7) reject the signature")
	}
}
