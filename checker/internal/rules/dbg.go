package rules

import (
	"fmt"
	"os"
	"strings"
)

func init() { Registry["DBG"] = dbg }

// dbg prints codec tables and string languages for functions named in
// VCHECK_FUNCS (comma separated specs); a development aid, not a check.
func dbg(c *Ctx) {
	for _, s := range strings.Split(os.Getenv("VCHECK_FUNCS"), ",") {
		fn := c.FnOpt(s)
		if fn == nil {
			fmt.Println("not found:", s)
			continue
		}
		fmt.Printf("%s\n  read : %s\n  write: %s\n", s, tableString(c.codecTable(fn, true)), tableString(c.codecTable(fn, false)))
		if os.Getenv("VCHECK_SSA") != "" {
			fn.WriteTo(os.Stdout)
		}
		if dl, okD, whyD := c.deepLeaves(fn, true); true {
			fmt.Printf("  deep read : %s ok=%v (%s)\n", leavesString(dl), okD, whyD)
		}
		if rl, why := c.wireLeaves(fn, true); true {
			fmt.Printf("  wire read : %s (%s)\n", leavesString(rl), why)
		}
		if wl, why := c.wireLeaves(fn, false); true {
			fmt.Printf("  wire write: %s (%s)\n", leavesString(wl), why)
		}
	}
}
