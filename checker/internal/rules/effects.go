package rules

import (
	"fmt"
	"go/token"
	"go/types"
	"os"
	"sort"
	"strings"

	"golang.org/x/tools/go/ssa"

	"verif/checker/internal/ir"
)

// Rule family E (C19): read-only API methods write no memory reachable from
// their receiver or from package-level state, and advance no shared cursor.

func init() { Registry["C19"] = checkC19 }

type loc uint8

const (
	locFresh  loc = 1 << iota // allocated in this call tree / constructor result
	locRecv                   // reachable from the receiver of the read-only method
	locGlobal                 // reachable from a package-level variable
	locOut                    // an explicit output parameter (declared sink)
	locArg                    // another caller-supplied argument (read-only by convention)
)

func (l loc) String() string {
	var p []string
	for _, x := range []struct {
		b loc
		s string
	}{{locFresh, "fresh"}, {locRecv, "receiver"}, {locGlobal, "global"}, {locOut, "out-param"}, {locArg, "argument"}} {
		if l&x.b != 0 {
			p = append(p, x.s)
		}
	}
	return strings.Join(p, "|")
}

type effFinding struct {
	fn     *ssa.Function
	instr  ssa.Instruction
	what   string
	detail string
}

type effAnalysis struct {
	c        *Ctx
	findings []effFinding
	unknown  map[string]string // unknown external callees receiving shared objects
	visited  map[string]bool
	instrs   int
	funcs    map[*ssa.Function]bool
}

type effCtx struct {
	fn     *ssa.Function
	params []loc
	// content: for a pointer parameter that denotes a local cell of the caller,
	// where the value kept in that cell points (a fresh copy of a slice of
	// pointers still leads to the objects the original pointed to)
	content map[*ssa.Parameter]loc
	free    map[*ssa.FreeVar]loc
	memo    map[ssa.Value]loc
	busy    map[ssa.Value]bool
}

var freshConstructors = map[string]bool{
	"io.NewSectionReader": true, "bytes.NewReader": true, "bytes.NewBuffer": true, "bytes.NewBufferString": true, "io.MultiReader": true,
	"crypto.Hash.New": true, "crypto/sha256.New": true, "io.LimitReader": true, "golang.org/x/crypto/cryptobyte.NewBuilder": true,
	"strings.NewReader": true, "bufio.NewReader": true, "io.TeeReader": true,
}

// aliasResults: library accessors whose result aliases their receiver's storage.
var aliasResults = map[string]bool{"bytes.Buffer.Bytes": true, "bytes.Buffer.Next": true, "bytes.Buffer.String": false}

// mutatingCalls: callee id -> indices (into receiver+args) of the objects whose
// cursor or storage the call changes.
var mutatingCalls = map[string][]int{
	"bytes.Buffer.Read": {0}, "bytes.Buffer.ReadByte": {0}, "bytes.Buffer.ReadRune": {0}, "bytes.Buffer.ReadBytes": {0}, "bytes.Buffer.ReadString": {0},
	"bytes.Buffer.Next": {0}, "bytes.Buffer.Write": {0}, "bytes.Buffer.WriteByte": {0}, "bytes.Buffer.WriteString": {0}, "bytes.Buffer.WriteRune": {0},
	"bytes.Buffer.Truncate": {0}, "bytes.Buffer.Reset": {0}, "bytes.Buffer.Grow": {0}, "bytes.Buffer.ReadFrom": {0, 1}, "bytes.Buffer.WriteTo": {0, 1},
	"bytes.Buffer.UnreadByte": {0}, "bytes.Buffer.UnreadRune": {0},
	"bytes.Reader.Read": {0}, "bytes.Reader.ReadByte": {0}, "bytes.Reader.Seek": {0}, "bytes.Reader.WriteTo": {0, 1}, "bytes.Reader.Reset": {0},
	"bytes.Reader.UnreadByte": {0}, "bytes.Reader.ReadRune": {0},
	"io.SectionReader.Read": {0}, "io.SectionReader.Seek": {0},
	"io.Copy": {0, 1}, "io.CopyN": {0, 1}, "io.CopyBuffer": {0, 1, 2}, "io.ReadAll": {0}, "io.ReadFull": {0, 1}, "io.ReadAtLeast": {0, 1},
	"sort.Slice": {0}, "sort.SliceStable": {0}, "sort.Sort": {0}, "sort.Stable": {0}, "slices.Sort": {0}, "slices.SortFunc": {0}, "slices.SortStableFunc": {0}, "slices.Reverse": {0},
	"builtin.copy": {0}, "encoding/asn1.Unmarshal": {1}, "encoding/binary.Read": {0, 2}, "encoding/binary.Write": {0}, "crypto/rand.Read": {0},
	"encoding/binary.littleEndian.PutUint16": {1}, "encoding/binary.littleEndian.PutUint32": {1}, "encoding/binary.littleEndian.PutUint64": {1},
	"encoding/binary.bigEndian.PutUint16": {1}, "encoding/binary.bigEndian.PutUint32": {1}, "encoding/binary.bigEndian.PutUint64": {1},
}

// mutatingInvokes: interface methods that change the object they are invoked on.
var mutatingInvokes = map[string]bool{"Read": true, "Write": true, "Seek": true, "Close": true, "ReadFrom": true, "WriteTo": true, "ReadByte": true, "WriteString": true, "Reset": true}

// pureCalls: library callees that do not modify the objects handed to them
// (beyond objects that are fresh anyway).
var purePrefixes = []string{"fmt.", "errors.", "github.com/pkg/errors.", "strings.", "bytes.Equal", "bytes.Compare", "bytes.Trim", "bytes.Index", "bytes.Contains", "bytes.HasPrefix",
	"crypto/subtle.", "crypto/hmac.Equal", "encoding/asn1.Marshal", "math/big.Int.Cmp", "encoding/asn1.ObjectIdentifier.", "crypto/x509.Certificate.CheckSignature", "crypto/x509.Certificate.CheckSignatureFrom",
	"crypto/x509.Certificate.Equal", "reflect.DeepEqual", "encoding/hex.EncodeToString", "time.", "builtin.len", "builtin.cap", "builtin.append", "builtin.min", "builtin.max", "builtin.print",
	"bytes.Buffer.Bytes", "bytes.Buffer.Len", "bytes.Buffer.Cap", "bytes.Buffer.String", "bytes.Buffer.Available", "bytes.Reader.Len", "bytes.Reader.Size", "bytes.Reader.ReadAt",
	"io.SectionReader.ReadAt", "io.SectionReader.Size", "io.ReaderAt.ReadAt", M + "/authenticode.SizeReaderAt.ReadAt", M + "/authenticode.SizeReaderAt.Size",
	"hash.Hash.", "crypto.Hash.", "crypto/sha256.", "golang.org/x/crypto/cryptobyte.", "sort.Search", "encoding/pem.Decode", "crypto/x509.Parse", "unicode/utf16.", "log.Print", "log.Printf", "log.Println",
	"encoding/binary.littleEndian.Uint", "encoding/binary.bigEndian.Uint", "encoding/binary.Size", "sync.Pool.", "path.Join", "path/filepath.", "math/big.Int.", "debug/pe."}

func isPureCall(id string) bool {
	for _, p := range purePrefixes {
		if strings.HasPrefix(id, p) {
			return true
		}
	}
	return freshConstructors[id]
}

func (a *effAnalysis) newCtx(fn *ssa.Function, params []loc, free map[*ssa.FreeVar]loc) *effCtx {
	return &effCtx{fn: fn, params: params, free: free, memo: map[ssa.Value]loc{}, busy: map[ssa.Value]bool{}}
}

func pointerLike(t types.Type) bool {
	switch t.Underlying().(type) {
	case *types.Pointer, *types.Slice, *types.Map, *types.Interface, *types.Chan, *types.Signature:
		return true
	case *types.Struct, *types.Array:
		return true // may contain pointers
	}
	return false
}

// locOf computes where the object v denotes (or points into) lives.
func (a *effAnalysis) locOf(x *effCtx, v ssa.Value) loc {
	if v == nil {
		return locFresh
	}
	if l, ok := x.memo[v]; ok {
		return l
	}
	if x.busy[v] {
		return 0
	}
	x.busy[v] = true
	defer delete(x.busy, v)
	var l loc
	switch y := v.(type) {
	case *ssa.Parameter:
		for i, p := range x.fn.Params {
			if p == y && i < len(x.params) {
				l = x.params[i]
			}
		}
		if l == 0 {
			l = locArg
		}
	case *ssa.FreeVar:
		l = x.free[y]
		if l == 0 {
			l = locFresh
		}
	case *ssa.Global:
		l = locGlobal
		if y.Pkg != nil && y.Pkg.Pkg.Path() == "io" && y.Name() == "Discard" {
			l = locFresh // a stateless sink, not shared mutable state
		}
	case *ssa.Const, *ssa.Function, *ssa.Builtin:
		l = locFresh
	case *ssa.Alloc, *ssa.MakeSlice, *ssa.MakeMap, *ssa.MakeChan:
		l = locFresh
	case *ssa.MakeClosure:
		l = locFresh
	case *ssa.FieldAddr:
		l = a.locOf(x, y.X)
	case *ssa.IndexAddr:
		l = a.locOf(x, y.X)
	case *ssa.Field:
		l = a.locOf(x, y.X)
	case *ssa.Index:
		l = a.locOf(x, y.X)
	case *ssa.Lookup:
		l = a.locOf(x, y.X)
	case *ssa.Slice:
		l = a.locOf(x, y.X)
	case *ssa.Convert:
		l = a.locOf(x, y.X)
	case *ssa.ChangeType:
		l = a.locOf(x, y.X)
	case *ssa.ChangeInterface:
		l = a.locOf(x, y.X)
	case *ssa.MakeInterface:
		l = a.locOf(x, y.X)
	case *ssa.TypeAssert:
		l = a.locOf(x, y.X)
	case *ssa.SliceToArrayPointer:
		l = a.locOf(x, y.X)
	case *ssa.Phi:
		for _, e := range y.Edges {
			l |= a.locOf(x, e)
		}
	case *ssa.Extract:
		if call, isCall := y.Tuple.(*ssa.Call); isCall {
			l = a.callResultLocIdx(x, call, y.Index)
		} else {
			l = a.locOf(x, y.Tuple)
		}
	case *ssa.Next:
		l = a.locOf(x, y.Iter)
	case *ssa.Range:
		l = a.locOf(x, y.X)
	case *ssa.BinOp:
		l = locFresh
	case *ssa.UnOp:
		if y.Op != token.MUL {
			l = locFresh
			break
		}
		if !pointerLike(y.Type()) {
			l = locFresh
			break
		}
		if p, isP := y.X.(*ssa.Parameter); isP && x.content[p] != 0 {
			l = x.content[p]
			break
		}
		base := a.locOf(x, y.X)
		if root, isAlloc := ir.RootOf(y.X).(*ssa.Alloc); isAlloc {
			// local cell: what was stored into it
			found := false
			for _, f := range withAnon(topFn(root.Parent())) {
				instrsOf(f, func(i ssa.Instruction) {
					if st, ok := i.(*ssa.Store); ok && ir.RootOf(st.Addr) == ssa.Value(root) && f == x.fn {
						if sameFieldPath(st.Addr, y.X) {
							found = true
							l |= a.locOf(x, st.Val)
						}
					}
				})
			}
			if !found {
				l = locFresh
			}
		} else {
			l = base
		}
	case *ssa.Call:
		l = a.callResultLoc(x, y)
	default:
		l = locFresh
	}
	if l == 0 {
		l = locFresh
	}
	if os.Getenv("VCHECK_DEBUG") == "loc" && l&locGlobal != 0 {
		fmt.Fprintf(os.Stderr, "loc %s %s = %s  (%T)\n", x.fn.Name(), v.Name(), l.String(), v)
	}
	x.memo[v] = l
	return l
}

// sameFieldPath: store address and load address denote overlapping locations
// (same field chain, or one is the whole object).
func sameFieldPath(st, ld ssa.Value) bool {
	if st == ld {
		return true
	}
	ps, pl := ir.AccessPath(derefPath(st)), ir.AccessPath(derefPath(ld))
	_ = ps
	_ = pl
	a, b := fieldChain(st), fieldChain(ld)
	n := len(a)
	if len(b) < n {
		n = len(b)
	}
	for i := 0; i < n; i++ {
		if a[i] != b[i] {
			return false
		}
	}
	return true
}

func derefPath(v ssa.Value) ssa.Value { return v }

func fieldChain(v ssa.Value) []string {
	var rev []string
	for {
		switch x := v.(type) {
		case *ssa.FieldAddr:
			rev = append(rev, fmt.Sprintf("f%d", x.Field))
			v = x.X
			continue
		case *ssa.IndexAddr:
			rev = append(rev, "[]")
			v = x.X
			continue
		}
		break
	}
	for i, j := 0, len(rev)-1; i < j; i, j = i+1, j-1 {
		rev[i], rev[j] = rev[j], rev[i]
	}
	return rev
}

func (a *effAnalysis) callResultLoc(x *effCtx, call *ssa.Call) loc {
	return a.callResultLocIdx(x, call, -1)
}

// callResultLocIdx: where result idx of the call lives (idx < 0: any result).
func (a *effAnalysis) callResultLocIdx(x *effCtx, call *ssa.Call, idx int) loc {
	id := ir.CallID(call)
	if freshConstructors[id] {
		return locFresh
	}
	args := ir.CallArgs(call)
	if aliasResults[id] && len(args) > 0 {
		return a.locOf(x, args[0])
	}
	if id == "builtin.append" && len(args) > 0 {
		// the result continues the first operand's storage; elements that are references
		// still point where the appended elements point
		l := a.locOf(x, args[0])
		if len(args) > 1 {
			if sl, ok := args[1].Type().Underlying().(*types.Slice); ok && pointerLike(sl.Elem()) {
				if _, isBasic := sl.Elem().Underlying().(*types.Basic); !isBasic {
					l |= a.locOf(x, args[1])
				}
			}
		}
		return l
	}
	callee := calleeOrClosure(call)
	if callee != nil && a.c.P.InLib(callee) && callee.Blocks != nil {
		sub := a.calleeCtx(x, call, callee)
		var l loc
		for _, r := range ir.Returns(callee) {
			for k, res := range r.Results {
				if idx >= 0 && k != idx {
					continue
				}
				if pointerLike(res.Type()) {
					l |= a.locOf(sub, res)
				}
			}
		}
		if l == 0 {
			l = locFresh
		}
		return l
	}
	// library accessor returning part of its receiver (x.Field-like getters): conservative alias
	if len(args) > 0 && (strings.HasSuffix(id, ".Bytes") || strings.HasSuffix(id, ".Next")) {
		return a.locOf(x, args[0])
	}
	return locFresh
}

func (a *effAnalysis) calleeCtx(x *effCtx, call ssa.CallInstruction, callee *ssa.Function) *effCtx {
	args := ir.CallArgs(call)
	if _, isClosure := call.Common().Value.(*ssa.MakeClosure); isClosure || callee.Parent() != nil && !call.Common().IsInvoke() && call.Common().StaticCallee() == nil {
		args = call.Common().Args
	}
	params := make([]loc, len(callee.Params))
	for i := range callee.Params {
		if i < len(args) {
			params[i] = a.locOf(x, args[i])
		} else {
			params[i] = locArg
		}
	}
	free := map[*ssa.FreeVar]loc{}
	if mc, ok := call.Common().Value.(*ssa.MakeClosure); ok {
		for i, fv := range callee.FreeVars {
			if i < len(mc.Bindings) {
				free[fv] = a.locOf(x, mc.Bindings[i])
			}
		}
	}
	sub := a.newCtx(callee, params, free)
	for i := range callee.Params {
		if i >= len(args) {
			break
		}
		cell, isCell := ir.StripConv(args[i]).(*ssa.Alloc)
		if !isCell || cell.Referrers() == nil {
			continue
		}
		var l loc
		for _, r := range *cell.Referrers() {
			if st, ok := r.(*ssa.Store); ok && st.Addr == ssa.Value(cell) && pointerLike(st.Val.Type()) {
				l |= a.locOf(x, st.Val)
			}
		}
		if shared(l) {
			if sub.content == nil {
				sub.content = map[*ssa.Parameter]loc{}
			}
			sub.content[callee.Params[i]] = l
		}
	}
	return sub
}

func shared(l loc) bool { return l&(locRecv|locGlobal) != 0 }

func (a *effAnalysis) report(fn *ssa.Function, i ssa.Instruction, what, detail string) {
	a.findings = append(a.findings, effFinding{fn, i, what, detail})
}

// analyze walks fn in context x and its repo callees.
func (a *effAnalysis) analyze(x *effCtx, depth int) {
	key := name(x.fn) + fmt.Sprint(x.params)
	if a.visited[key] || depth > 12 {
		return
	}
	a.visited[key] = true
	a.funcs[x.fn] = true
	instrsOf(x.fn, func(i ssa.Instruction) {
		a.instrs++
		switch y := i.(type) {
		case *ssa.Store:
			if l := a.locOf(x, y.Addr); shared(l) {
				a.report(x.fn, i, "store", "writes memory reachable from the "+l.String()+" ("+ir.AccessPath(y.Addr)+")")
			} else if l&locOut != 0 && pointerLike(y.Val.Type()) {
				// the declared sink must receive a copy: handing it storage of the receiver
				// lets a later write through the sink change the value that was read
				if sl := a.storageOf(x, y.Val, 0); shared(sl) {
					a.report(x.fn, i, "shares-storage", "the output is given memory reachable from the "+sl.String()+" instead of a copy: writing to the output afterwards changes the value")
				}
			}
		case *ssa.MapUpdate:
			if l := a.locOf(x, y.Map); shared(l) {
				a.report(x.fn, i, "map-update", "updates a map reachable from the "+l.String())
			}
		case *ssa.MakeClosure:
			// analysed when called; closures passed to library functions (sort comparators,
			// cryptobyte builders) are analysed here with their bindings
			if fnc, ok := y.Fn.(*ssa.Function); ok {
				free := map[*ssa.FreeVar]loc{}
				for k, fv := range fnc.FreeVars {
					if k < len(y.Bindings) {
						free[fv] = a.locOf(x, y.Bindings[k])
					}
				}
				params := make([]loc, len(fnc.Params))
				for k := range params {
					params[k] = locFresh
				}
				a.analyze(a.newCtx(fnc, params, free), depth+1)
			}
		case ssa.CallInstruction:
			a.call(x, y, depth)
		}
	})
}

func (a *effAnalysis) call(x *effCtx, call ssa.CallInstruction, depth int) {
	id := ir.CallID(call)
	args := ir.CallArgs(call)
	cc := call.Common()
	// append onto a reslice of shared storage writes the shared backing array
	if id == "builtin.append" && len(args) > 0 {
		if l := a.locOf(x, args[0]); shared(l) {
			a.report(x.fn, call, "append-shared", "append onto a slice that shares its backing array with the "+l.String()+" may overwrite the shared elements (spare capacity / reslice)")
		}
		return
	}
	if strings.HasPrefix(id, "golang.org/x/crypto/cryptobyte.String.Read") || strings.HasPrefix(id, "golang.org/x/crypto/cryptobyte.String.Skip") {
		if len(args) > 0 {
			if l := a.locOf(x, args[0]); shared(l) {
				a.report(x.fn, call, "mutating-call", id+" consumes a cryptobyte.String reachable from the "+l.String()+" ("+ir.AccessPath(ir.StripIface(args[0]))+")")
			}
		}
		return
	}
	switch id {
	case "io.MultiReader", "io.TeeReader", "io.LimitReader", "bufio.NewReader", "bufio.NewReaderSize", "io.NopCloser":
		// the composed reader reads from its operands: an operand that is a cursor object
		// of the receiver is consumed by whoever reads the result
		var operands []ssa.Value
		for _, arg := range args {
			if elems, ok := variadicElems(arg); ok {
				operands = append(operands, elems...)
			} else {
				operands = append(operands, arg)
			}
		}
		for _, arg := range operands {
			switch ir.NamedTypeID(ir.StripIface(arg).Type()) {
			case "bytes.Buffer", "bytes.Reader", "io.SectionReader", "bufio.Reader", "strings.Reader":
				if l := a.locOf(x, ir.StripIface(arg)); shared(l) {
					a.report(x.fn, call, "live-cursor", id+" is given a reader of the "+l.String()+" itself ("+ir.AccessPath(ir.StripIface(arg))+"): reading the result consumes the object's state")
				}
			}
		}
		return
	}
	if idxs, ok := mutatingCalls[id]; ok {
		for _, k := range idxs {
			if k < len(args) {
				if l := a.locOf(x, args[k]); shared(l) {
					role := "advances the cursor of / writes into"
					a.report(x.fn, call, "mutating-call", id+" "+role+" an object reachable from the "+l.String()+" ("+ir.AccessPath(ir.StripIface(args[k]))+")")
				}
			}
		}
		return
	}
	if cc.IsInvoke() {
		if mutatingInvokes[cc.Method.Name()] {
			if l := a.locOf(x, cc.Value); shared(l) {
				a.report(x.fn, call, "mutating-invoke", "interface method "+cc.Method.Name()+" on an object reachable from the "+l.String())
			}
			return
		}
		// other interface methods: follow VTA callees inside the library
		if n := a.c.P.CallGraph().Nodes[x.fn]; n != nil {
			for _, e := range n.Out {
				if e.Site == call && a.c.P.InLib(e.Callee.Func) && e.Callee.Func.Blocks != nil {
					a.analyze(a.calleeCtx(x, call, e.Callee.Func), depth+1)
				}
			}
		}
		return
	}
	callee := calleeOrClosure2(call)
	if callee != nil && a.c.P.InLib(callee) && callee.Blocks != nil {
		a.analyze(a.calleeCtx(x, call, callee), depth+1)
		return
	}
	if isPureCall(id) || id == "" {
		return
	}
	// unknown library callee: does it receive a shared mutable object?
	for _, arg := range args {
		if pointerLikeMutable(arg.Type()) && shared(a.locOf(x, arg)) {
			a.unknown[id] = name(x.fn)
		}
	}
}

func calleeOrClosure2(call ssa.CallInstruction) *ssa.Function {
	if f := call.Common().StaticCallee(); f != nil {
		return f
	}
	if mc, ok := call.Common().Value.(*ssa.MakeClosure); ok {
		if f, ok := mc.Fn.(*ssa.Function); ok {
			return f
		}
	}
	return nil
}

func pointerLikeMutable(t types.Type) bool {
	switch t.Underlying().(type) {
	case *types.Pointer, *types.Map, *types.Interface:
		return true
	}
	return false
}

var readOnlyAPI = []string{
	"authenticode.(*PECOFFBinary).Hash", "authenticode.(*PECOFFBinary).Bytes", "authenticode.(*PECOFFBinary).Open", "authenticode.(*PECOFFBinary).Signatures", "authenticode.(*PECOFFBinary).Verify",
	"efi/signature.(*SignatureDatabase).Bytes", "efi/signature.(*SignatureDatabase).Marshal", "efi/signature.(*SignatureDatabase).Exists", "efi/signature.(*SignatureDatabase).SigDataExists", "efi/signature.(*SignatureDatabase).BytesExists",
	"efi/signature.(*SignatureList).Bytes", "efi/signature.(*SignatureList).Exists", "efi/signature.(*SignatureList).ExistsInList", "efi/signature.(*SignatureList).CmpHeader",
	"efi/signature.(*SignatureData).Bytes",
	"efi/signature.(*EFIVariableAuthentication2).Marshal", "efi/signature.(*EFIVariableAuthentication2).Verify",
	"efi/signature.(efibytes).Marshal", "efi/signature.(efibytes).Bytes", "efivarfs.(efibytes).Marshal", "efivarfs.(efibytes).Bytes",
	"pkcs7.(*PKCS7).Verify", "pkcs7.(*PKCS7).HasCertificate", "authenticode.(*Authenticode).Verify", "pkcs7.(*Attributes).Marshal",
	"efi/attributes.(Attributes).Bytes", "efi/attributes.(Attributes).Equal", "efi/util.(*EFIGUID).Format", "efi/util.(*EFIGUID).Bytes",
	"efi/util.(*EFITime).Format",
}

func checkC19(c *Ctx) {
	c.rulePure(readOnlyAPI)
	c.ruleSharedScratch("E.scratch", readOnlyAPI)
	c.R.Floor("E.pure", 24)
	c.ruleRecycle("P.recycle", nil)
	// repeatable output: nothing is produced in map iteration order, and the padding
	// handed out is not shared memory that listing signatures writes into
	c.rulePoolReset("P.reset", nil)
	c.ruleMapOrder("E.maporder", readOnlyAPI)
	c.rulePadFresh("E.padshared")
}

// rulePure: each listed read-only operation writes nothing reachable from its
// receiver or package state.
func (c *Ctx) rulePure(specs []string) { c.rulePureAs("E.pure", specs) }

// rulePureAs is rulePure under another rule name; for plain functions (no
// receiver) every stream parameter (io.Reader / io.Writer / *bytes.Buffer) is
// the declared source or sink, and what is judged is that the function keeps
// nothing in package-level memory (scratch buffers, pools, caches) that a
// second or concurrent call would share.
func (c *Ctx) rulePureAs(rule string, specs []string) {
	what := "read-only operation writes nothing reachable from its receiver or package state and advances no shared cursor"
	if rule != "E.pure" {
		what = "the operation keeps nothing in package-level memory and writes only to its declared output"
	}
	a := &effAnalysis{c: c, unknown: map[string]string{}, visited: map[string]bool{}, funcs: map[*ssa.Function]bool{}}
	for _, spec := range specs {
		fn := c.FnOpt(spec)
		if fn == nil {
			// value/pointer receiver variants: the method may have moved between them
			alt := strings.Replace(spec, ".(", ".(*", 1)
			if strings.Contains(spec, ".(*") {
				alt = strings.Replace(spec, ".(*", ".(", 1)
			}
			fn = c.FnOpt(alt)
		}
		if fn == nil {
			c.R.Undecf(rule, spec, "anchor", "-", "read-only API method must resolve", "method "+spec+" not found")
			continue
		}
		before := len(a.findings)
		a.visited = map[string]bool{}
		params := make([]loc, len(fn.Params))
		for i, p := range fn.Params {
			switch {
			case fn.Signature.Recv() == nil && (isStreamType(p.Type()) || isIfaceType(p.Type())):
				params[i] = locOut
			case fn.Signature.Recv() == nil:
				params[i] = locArg
			case i == 0:
				params[i] = locRecv
			case ir.NamedTypeID(p.Type()) == "bytes.Buffer":
				params[i] = locOut // Marshal(b *bytes.Buffer): the declared sink
			default:
				params[i] = locArg
			}
		}
		a.analyze(a.newCtx(fn, params, nil), 0)
		fs := a.findings[before:]
		if len(fs) == 0 {
			c.R.Okf(rule, name(fn), "effects", c.Pos(fn.Pos()), what)
			continue
		}
		sort.SliceStable(fs, func(i, j int) bool { return ir.InstrPos(fs[i].instr) < ir.InstrPos(fs[j].instr) })
		seen := map[string]bool{}
		for _, f := range fs {
			k := name(f.fn) + ":" + f.what + ":" + f.detail
			if seen[k] {
				continue
			}
			seen[k] = true
			c.R.Violf(rule, name(fn), "effects:"+f.what+"@"+name(f.fn), c.IPos(f.instr),
				what,
				"in "+name(f.fn)+": "+f.detail)
		}
	}
	for id, where := range a.unknown {
		c.R.Undecf(rule, where, "unknown-callee:"+id, "-", "every library callee that receives a receiver-reachable object must be in the effect table",
			id+" receives an object reachable from the receiver or a global and is not in the pure/mutating tables")
	}
	c.R.Extra["instructions_examined"] = a.instrs
	c.R.Extra["functions_in_cone"] = len(a.funcs)
	for f := range a.funcs {
		c.R.Funcs[name(f)] = true
	}
}

// storageOf is locOf for aliasing questions: readers and buffers constructed
// over a byte slice share that slice's storage (they are fresh objects only as
// far as their cursor is concerned).
func (a *effAnalysis) storageOf(x *effCtx, v ssa.Value, depth int) loc {
	if depth > 8 || v == nil {
		return locFresh
	}
	switch y := v.(type) {
	case *ssa.Call:
		switch ir.CallID(y) {
		case "bytes.NewBuffer", "bytes.NewReader":
			if args := ir.CallArgs(y); len(args) > 0 {
				return a.storageOf(x, args[0], depth+1)
			}
		}
		if aliasResults[ir.CallID(y)] {
			if args := ir.CallArgs(y); len(args) > 0 {
				return a.storageOf(x, args[0], depth+1)
			}
		}
	case *ssa.UnOp:
		if y.Op == token.MUL {
			if c, isCall := y.X.(*ssa.Call); isCall {
				return a.storageOf(x, c, depth+1)
			}
		}
	case *ssa.Slice:
		return a.storageOf(x, y.X, depth+1)
	case *ssa.Convert:
		return a.storageOf(x, y.X, depth+1)
	case *ssa.ChangeType:
		return a.storageOf(x, y.X, depth+1)
	case *ssa.Alloc:
		// a local cell holding a by-value copy: the copy's slices still point where the original's do
		var l loc
		for _, r := range *y.Referrers() {
			if st, ok := r.(*ssa.Store); ok && st.Addr == ssa.Value(y) && pointerLike(st.Val.Type()) {
				l |= a.storageOf(x, st.Val, depth+1)
			}
		}
		if l != 0 {
			return l
		}
	case *ssa.Phi:
		var l loc
		for _, e := range y.Edges {
			l |= a.storageOf(x, e, depth+1)
		}
		return l
	}
	return a.locOf(x, v)
}

// ruleSharedScratch (E.scratch): a byte buffer kept on the object (a []byte
// field of the receiver's struct, or a field of a helper object that is filled
// from one) is never the destination of a read/copy in anything a read-only
// operation can reach — including methods the standard library calls back
// (io.Copy prefers src.WriteTo / dst.ReadFrom). Two concurrent calls of a
// read-only operation would otherwise write the same scratch memory.
func (c *Ctx) ruleSharedScratch(rule string, specs []string) {
	fieldLoads := func(v ssa.Value, set map[string]bool) string {
		for x := range c.sliceOf(v) {
			if ld, ok := x.(*ssa.UnOp); ok && ld.Op == token.MUL {
				if id := ir.FieldID(ld.X); id != "" && set[id] {
					return id
				}
			}
			if f, ok := x.(*ssa.Field); ok {
				if id := ir.FieldID(f); id != "" && set[id] {
					return id
				}
			}
		}
		return ""
	}
	done := map[string]bool{}
	for _, spec := range specs {
		fn := c.FnOpt(spec)
		if fn == nil || fn.Signature.Recv() == nil {
			continue
		}
		rt := fn.Signature.Recv().Type()
		if p, ok := rt.Underlying().(*types.Pointer); ok {
			rt = p.Elem()
		}
		st, ok := rt.Underlying().(*types.Struct)
		if !ok {
			continue
		}
		shared := map[string]bool{}
		for k := 0; k < st.NumFields(); k++ {
			if isByteSlice(st.Field(k).Type()) {
				shared[ir.NamedTypeID(rt)+"."+st.Field(k).Name()] = true
			}
		}
		if len(shared) == 0 {
			continue
		}
		// fields of other objects that are filled from those
		for round := 0; round < 3; round++ {
			for _, g := range c.P.LibFunctions() {
				instrsOf(g, func(i ssa.Instruction) {
					s, ok := i.(*ssa.Store)
					if !ok || !isByteSlice(s.Val.Type()) {
						return
					}
					id := ir.FieldID(s.Addr)
					if id == "" || shared[id] {
						return
					}
					if fieldLoads(s.Val, shared) != "" {
						shared[id] = true
					}
				})
			}
		}
		reach, _ := c.Reachable([]*ssa.Function{fn})
		bad := ""
		for g := range reach {
			if !c.P.InLib(g) {
				continue
			}
			instrsOf(g, func(i ssa.Instruction) {
				call, ok := i.(ssa.CallInstruction)
				if !ok {
					return
				}
				idxs := mutatingCalls[ir.CallID(call)]
				args := ir.CallArgs(call)
				if call.Common().IsInvoke() && call.Common().Method.Name() == "Read" && len(call.Common().Args) == 1 {
					idxs, args = []int{0}, call.Common().Args
				}
				for _, k := range idxs {
					if k >= len(args) || !isByteSlice(args[k].Type()) {
						continue
					}
					if f := fieldLoads(args[k], shared); f != "" {
						bad = "in " + name(g) + " at " + c.IPos(i) + " the buffer kept in " + strings.TrimPrefix(f, M+"/") + " is written (" + ir.CallID(call) + ")"
					}
				}
			})
		}
		if done[name(fn)] {
			continue
		}
		done[name(fn)] = true
		c.R.Check(bad == "", rule, name(fn), "scratch", c.Pos(fn.Pos()), "no byte buffer kept on the object is written by anything the read-only operation reaches (callbacks from io.Copy included)",
			bad+": concurrent calls share that memory")
	}
}

// ruleMapOrder (E.maporder): what a read-only operation returns or writes does
// not depend on the iteration order of a map. A `for … range m` over a map
// whose body emits output (writes to a stream or buffer, appends to a result)
// produces the same elements in a different order from call to call.
func (c *Ctx) ruleMapOrder(rule string, specs []string) {
	n := 0
	seen := map[*ssa.Function]bool{}
	for _, spec := range specs {
		fn := c.FnOpt(spec)
		if fn == nil {
			continue
		}
		for _, g := range c.cone(fn) {
			for _, f := range withAnon(g) {
				if seen[f] {
					continue
				}
				seen[f] = true
				f := f
				instrsOf(f, func(i ssa.Instruction) {
					rg, ok := i.(*ssa.Range)
					if !ok {
						return
					}
					if _, isMap := rg.X.Type().Underlying().(*types.Map); !isMap {
						return
					}
					n++
					// the loop: blocks reachable from the Next instruction's block that can reach it again
					var next *ssa.Next
					for _, r := range *rg.Referrers() {
						if nx, isN := r.(*ssa.Next); isN {
							next = nx
						}
					}
					emits := ""
					if next != nil {
						fwd, _ := ir.Reach(f, next.Block(), nil)
						for _, b := range f.Blocks {
							if !fwd[b.Index] {
								continue
							}
							back, _ := ir.Reach(f, b, nil)
							if !back[next.Block().Index] {
								continue
							}
							for _, in := range b.Instrs {
								call, isC := in.(ssa.CallInstruction)
								if !isC {
									continue
								}
								id := ir.CallID(call)
								switch {
								case id == "builtin.append", id == "encoding/binary.Write", strings.HasSuffix(id, ".Write"), strings.HasSuffix(id, ".WriteString"), strings.HasSuffix(id, ".WriteByte"):
									emits = c.IPos(in)
								case call.Common().IsInvoke() && strings.HasPrefix(call.Common().Method.Name(), "Write"):
									emits = c.IPos(in)
								default:
									if callee := ir.Callee(call); callee != nil && c.P.InLib(callee) {
										for _, a := range ir.CallArgs(call) {
											if isStreamType(ir.StripIface(a).Type()) {
												emits = c.IPos(in)
											}
										}
									}
								}
							}
						}
					}
					c.R.Check(emits == "", rule, name(f), "range-map", c.IPos(rg), "output is not produced in map iteration order",
						"the loop over a map emits output at "+emits+": Go randomises map iteration, so two calls on the same value produce differently ordered bytes")
				})
			}
		}
	}
	if n == 0 {
		c.R.Okf(rule, "-", "scan", "-", "no loop over a map in the call cones of the read-only operations")
	}
}
