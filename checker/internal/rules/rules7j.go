package rules

import (
	"go/constant"
	"go/token"
	"go/types"
	"strings"

	"golang.org/x/tools/go/ssa"

	"verif/checker/internal/ir"
)

// Rules of the seventh round for the signature database and the variable store.
//
//   K10.share-db     a database operation never stores the other database's slice in the receiver
//   K8.exact         what the normaliser returns without a decoded PEM block is exactly its input
//   F16.stateless    (wider scope) every exported operation of the store types that works on variables
//   F17.always-write every successful return of a write operation lies behind the call that reaches the write

func init() {
	Extras["C09"] = append(Extras["C09"], func(c *Ctx) {
		c.ruleDbSliceNotShared("K10.share-db")
		c.R.Floor("K10.share-db", 1)
		c.ruleNormaliseExact("K8.exact")
		c.R.Floor("K8.exact", 1)
	})
	for _, id := range []string{"C12", "C11"} {
		Extras[id] = append(Extras[id], func(c *Ctx) {
			if roots := c.storeOperations(); len(roots) > 0 {
				c.ruleStatelessRoots("F16.stateless", roots)
			}
			c.ruleAlwaysWrite("F17.always-write")
			c.R.Floor("F17.always-write", 3)
		})
	}
}

// ---------------------------------------------------------------- K10.share-db

func isSigDatabase(t types.Type) (is, pointer bool) {
	if p, ok := t.Underlying().(*types.Pointer); ok {
		return ir.NamedTypeID(p.Elem()) == sigPkg+".SignatureDatabase", true
	}
	return ir.NamedTypeID(t) == sigPkg+".SignatureDatabase", false
}

// sliceSharedWith: v is the slice value (header) of one of the given database
// parameters, a reslice of it, or an append onto it (which writes into its
// spare capacity and, while that lasts, returns a header over the same array).
func sliceSharedWith(v ssa.Value, others map[*ssa.Parameter]bool, depth int) *ssa.Parameter {
	if v == nil || depth > 10 {
		return nil
	}
	switch x := v.(type) {
	case *ssa.Parameter:
		if others[x] {
			if _, ptr := isSigDatabase(x.Type()); !ptr {
				return x
			}
		}
	case *ssa.ChangeType:
		return sliceSharedWith(x.X, others, depth+1)
	case *ssa.Convert:
		return sliceSharedWith(x.X, others, depth+1)
	case *ssa.Slice:
		if k, ok := x.Max.(*ssa.Const); ok && k.Value != nil && constant.Sign(k.Value) == 0 {
			return nil // s[:0:0]: no capacity, nothing of the array is ever seen or written through it
		}
		return sliceSharedWith(x.X, others, depth+1)
	case *ssa.Phi:
		for _, e := range x.Edges {
			if p := sliceSharedWith(e, others, depth+1); p != nil {
				return p
			}
		}
	case *ssa.UnOp:
		if x.Op == token.MUL {
			if p, ok := ir.StripConv(x.X).(*ssa.Parameter); ok && others[p] {
				return p
			}
		}
	case *ssa.Call:
		if ir.CallID(x) == "builtin.append" && len(x.Call.Args) > 0 {
			return sliceSharedWith(x.Call.Args[0], others, depth+1)
		}
	}
	return nil
}

// ruleDbSliceNotShared (K10.share-db): in a function of the signature package
// that works on two databases, the slice stored into one of them is never the
// slice value of the other (nor a reslice of it, nor an append onto it): the
// receiving database gets a slice of its own, built by appending elements to
// its own slice or by make+copy. Two databases over one backing array append
// into the same spare capacity and shift each other's lists on removal.
func (c *Ctx) ruleDbSliceNotShared(rule string) {
	what := "a database operation never stores the other database's slice (header) into the receiver: the receiver's slice is built from elements"
	n := 0
	for _, fn := range c.P.LibFunctions() {
		if fn.Pkg == nil || fn.Pkg.Pkg.Path() != sigPkg || fn.Blocks == nil {
			continue
		}
		var dbs []*ssa.Parameter
		var targets []*ssa.Parameter
		for _, p := range fn.Params {
			if is, ptr := isSigDatabase(p.Type()); is {
				dbs = append(dbs, p)
				if ptr {
					targets = append(targets, p)
				}
			}
		}
		if len(dbs) < 2 || len(targets) == 0 {
			continue
		}
		n++
		bad := ""
		instrsOf(fn, func(i ssa.Instruction) {
			st, ok := i.(*ssa.Store)
			if !ok {
				return
			}
			tgt, ok := ir.StripConv(st.Addr).(*ssa.Parameter)
			if !ok {
				return
			}
			if is, ptr := isSigDatabase(tgt.Type()); !is || !ptr {
				return
			}
			others := map[*ssa.Parameter]bool{}
			for _, p := range dbs {
				if p != tgt {
					others[p] = true
				}
			}
			if src := sliceSharedWith(st.Val, others, 0); src != nil {
				bad = "at " + c.IPos(st) + " the slice of the database given as parameter " + itoa(paramIndex(fn, src)) + " is stored into the database given as parameter " + itoa(paramIndex(fn, tgt))
			}
		})
		c.R.Check(bad == "", rule, name(fn), "own-slice", c.Pos(fn.Pos()), what,
			bad+": both databases now share one backing array, so the next append of one overwrites the list the other appended, and a removal in one shifts the lists the other sees")
	}
	if n == 0 {
		c.R.Infof(rule, "-", "own-slice", "-", "not decided for this shape: no function of the signature package takes two databases, one of them by pointer")
	}
}

func paramIndex(fn *ssa.Function, p *ssa.Parameter) int {
	for i, q := range fn.Params {
		if q == p {
			return i
		}
	}
	return -1
}

// ---------------------------------------------------------------- K8.exact

// byteTransforms: library functions whose result is a part or a transformation
// of their first argument (differs from it for some argument).
var byteTransforms = map[string]bool{
	"bytes.TrimSpace": true, "bytes.Trim": true, "bytes.TrimLeft": true, "bytes.TrimRight": true, "bytes.TrimPrefix": true,
	"bytes.TrimSuffix": true, "bytes.TrimFunc": true, "bytes.TrimLeftFunc": true, "bytes.TrimRightFunc": true,
	"bytes.ToLower": true, "bytes.ToUpper": true, "bytes.ToTitle": true, "bytes.ToValidUTF8": true, "bytes.Replace": true, "bytes.ReplaceAll": true,
	"bytes.Map": true, "bytes.Repeat": true, "bytes.CutPrefix": true, "bytes.CutSuffix": true, "bytes.Cut": true,
}

// ruleNormaliseExact (K8.exact): the function of the signature package that
// asks pem.Decode about (something computed from) its byte-slice parameter and
// returns bytes - the normaliser of what gets stored - returns, wherever it
// does not return something taken from the decoded block, exactly that
// parameter: the same value, or a full copy of it. A trimmed, cut or
// transformed version of the input is stored under a size and a content that
// the membership queries and the removal (which compare what they are given)
// do not find.
func (c *Ctx) ruleNormaliseExact(rule string) {
	what := "where no PEM block was decoded (or the type is not a certificate type) the bytes returned for storing are exactly the bytes given"
	n := 0
	for _, g := range c.P.LibFunctions() {
		if g.Pkg == nil || g.Pkg.Pkg.Path() != sigPkg || g.Signature.Results().Len() != 1 || !isByteSlice(g.Signature.Results().At(0).Type()) {
			continue
		}
		var dec *ssa.Call
		instrsOf(g, func(i ssa.Instruction) {
			if call, ok := i.(*ssa.Call); ok && ir.CallID(call) == "encoding/pem.Decode" {
				dec = call
			}
		})
		if dec == nil || len(dec.Call.Args) == 0 {
			continue
		}
		ops := localOperands(dec.Call.Args[0])
		var in *ssa.Parameter
		many := false
		for _, p := range g.Params {
			if isByteSlice(p.Type()) && ops[p] {
				if in != nil {
					many = true
				}
				in = p
			}
		}
		if in == nil {
			continue
		}
		n++
		if many {
			c.R.Infof(rule, name(g), "input-or-decoded", c.Pos(g.Pos()), "not decided for this shape: the argument of pem.Decode is computed from several byte-slice parameters")
			continue
		}
		// classify: "same", "decoded", "unknown", or "different: why"
		var classify func(v ssa.Value, depth int) string
		isFull := func(s *ssa.Slice) bool {
			if s.Low != nil {
				k, ok := s.Low.(*ssa.Const)
				if !ok || k.Value == nil || constant.Sign(k.Value) != 0 {
					return false
				}
			}
			if s.High != nil {
				call, ok := s.High.(*ssa.Call)
				if !ok || ir.CallID(call) != "builtin.len" || len(call.Call.Args) != 1 || ir.StripConv(call.Call.Args[0]) != ir.StripConv(s.X) {
					return false
				}
			}
			return true
		}
		classify = func(v ssa.Value, depth int) string {
			if v == nil || depth > 12 {
				return "unknown"
			}
			if ir.StripConv(v) == ssa.Value(in) {
				return "same"
			}
			switch x := v.(type) {
			case *ssa.ChangeType:
				return classify(x.X, depth+1)
			case *ssa.Convert:
				return classify(x.X, depth+1)
			case *ssa.Phi:
				res := ""
				for _, e := range x.Edges {
					if e == ssa.Value(x) {
						continue
					}
					cl := classify(e, depth+1)
					switch {
					case strings.HasPrefix(cl, "different"):
						return cl
					case cl == "unknown":
						res = "unknown"
					case res == "":
						res = cl
					case res != cl && res != "unknown":
						res = "mixed"
					}
				}
				if res == "" {
					return "unknown"
				}
				return res
			case *ssa.Slice:
				if _, isArr := x.X.Type().Underlying().(*types.Pointer); isArr {
					break
				}
				base := classify(x.X, depth+1)
				if base == "decoded" || base == "unknown" || base == "mixed" {
					return base
				}
				if strings.HasPrefix(base, "different") || isFull(x) {
					return base
				}
				return "different: a part of the input (slice expression at " + c.IPos(x) + ")"
			case *ssa.Call:
				id := ir.CallID(x)
				args := x.Call.Args
				switch {
				case byteTransforms[id] && len(args) > 0:
					base := classify(args[0], depth+1)
					if base == "same" {
						return "different: " + id + " of the input (at " + c.IPos(x) + ")"
					}
					if strings.HasPrefix(base, "different") {
						return base
					}
				case (id == "bytes.Clone" || id == "slices.Clone") && len(args) == 1:
					return classify(args[0], depth+1)
				case id == "builtin.append" && len(args) == 2:
					empty := ir.IsNilConst(ir.StripConv(args[0]))
					if mk, ok := ir.StripConv(args[0]).(*ssa.MakeSlice); ok {
						if k, ok := mk.Len.(*ssa.Const); ok && k.Value != nil && constant.Sign(k.Value) == 0 {
							empty = true
						}
					}
					if empty && x.Call.Signature().Variadic() {
						return classify(args[1], depth+1)
					}
				}
			}
			if localOperands(v)[dec] {
				return "decoded"
			}
			return "unknown"
		}
		bad, undec := "", ""
		for _, r := range liveReturns(g) {
			if len(r.Results) != 1 {
				continue
			}
			switch cl := classify(r.Results[0], 0); {
			case strings.HasPrefix(cl, "different"):
				bad = "the return at " + c.IPos(r) + " can hand back " + strings.TrimPrefix(cl, "different: ")
			case cl == "unknown":
				undec = "the value returned at " + c.IPos(r) + " is neither the input, a full copy of it, nor taken from the decoded block"
			}
		}
		switch {
		case bad != "":
			c.R.Violf(rule, name(g), "input-or-decoded", c.Pos(g.Pos()), what,
				bad+" instead of the input itself: input that is not PEM (a DER certificate that happens to begin or end with such bytes) is stored shortened or altered, under another size, and the queries and the removal with the bytes that were appended do not find it")
		case undec != "":
			c.R.Infof(rule, name(g), "input-or-decoded", c.Pos(g.Pos()), "not decided for this shape: "+undec)
		default:
			c.R.Okf(rule, name(g), "input-or-decoded", c.Pos(g.Pos()), what)
		}
	}
	if n == 0 {
		c.R.Infof(rule, "-", "input-or-decoded", "-", "not decided for this shape: no function of the signature package hands (something computed from) a byte-slice parameter to pem.Decode and returns bytes")
	}
}

// ---------------------------------------------------------------- F16.stateless (wider scope)

// isVarsInvoke: a call through the store interface (efivarfs.EFIVars) or
// through an interface of the library that shows part of it.
func isVarsInvoke(call ssa.CallInstruction) bool {
	cc := call.Common()
	if !cc.IsInvoke() {
		return false
	}
	return ir.NamedTypeID(cc.Value.Type()) == M+"/efivarfs.EFIVars"
}

// storeOperations: the exported methods of the store types (structs of the
// efivarfs packages) that are operations on variables without being among the
// basic ones (storeRoots): their static call cone calls a basic operation or
// goes through the store interface. Configuration methods (immutable flags,
// SetFS, With, Open) reach neither and stay out.
func (c *Ctx) storeOperations() []*ssa.Function {
	basic := map[*ssa.Function]bool{}
	for _, f := range c.storeRoots() {
		basic[f] = true
	}
	var out []*ssa.Function
	for _, fn := range c.ExportedAPI("efivarfs", "efivarfs/testfs", "efivarfs/fswrapper") {
		if basic[fn] || fn.Signature.Recv() == nil || !isStoreType(fn.Signature.Recv().Type()) {
			continue
		}
		works := false
		for _, f := range c.libCone([]*ssa.Function{fn}, 6) {
			if works {
				break
			}
			instrsOf(f, func(i ssa.Instruction) {
				call, ok := i.(ssa.CallInstruction)
				if !ok || works {
					return
				}
				if isVarsInvoke(call) {
					works = true
				} else if callee := ir.Callee(call); callee != nil && basic[callee] {
					works = true
				}
			})
		}
		if works {
			out = append(out, fn)
		}
	}
	return out
}

// ---------------------------------------------------------------- F17.always-write

// reachesWrite: the call goes to the next writer down - the WriteVar of the
// store interface, the Write of the file system dependency - or to a library
// function whose static call cone contains such a call.
func (c *Ctx) reachesWrite(call ssa.CallInstruction, memo map[*ssa.Function]bool) bool {
	cc := call.Common()
	if cc.IsInvoke() {
		if isVarsInvoke(call) && cc.Method.Name() == "WriteVar" {
			return true
		}
		return writeProtocol[fsTouch(call)] == "write"
	}
	if writeProtocol[fsTouch(call)] == "write" {
		return true
	}
	callee := ir.Callee(call)
	if callee == nil || !c.P.InLib(callee) {
		return false
	}
	if v, ok := memo[callee]; ok {
		return v
	}
	memo[callee] = false
	hit := false
	for _, f := range c.libCone([]*ssa.Function{callee}, 6) {
		if hit {
			break
		}
		instrsOf(f, func(i ssa.Instruction) {
			if hit {
				return
			}
			if cl, ok := i.(ssa.CallInstruction); ok {
				k := cl.Common()
				if k.IsInvoke() && (isVarsInvoke(cl) && k.Method.Name() == "WriteVar" || writeProtocol[fsTouch(cl)] == "write") {
					hit = true
				} else if !k.IsInvoke() && writeProtocol[fsTouch(cl)] == "write" {
					hit = true
				}
			}
		})
	}
	memo[callee] = hit
	return hit
}

// ruleAlwaysWrite (F17.always-write): in the exported write operations of the
// store every return that reports success lies behind a call that reaches the
// write of the layer below: with the blocks holding those calls taken out of
// the control flow graph no successful return stays reachable from the entry.
// A write operation that can report success without having written leaves the
// variable with the value of an earlier write.
func (c *Ctx) ruleAlwaysWrite(rule string) {
	what := "every successful return of the write operation lies behind the call that reaches the file-system write"
	memo := map[*ssa.Function]bool{}
	for _, spec := range []string{"efivarfs.(*Efivarfs).WriteSignedUpdate", "efivarfs.(*EFIFS).WriteVar", "efivarfs/testfs.(*TestFS).WriteVar"} {
		fn := c.Fn(rule, spec)
		if fn == nil {
			continue
		}
		if !hasErrorResult(fn) {
			c.R.Infof(rule, name(fn), "behind-write", c.Pos(fn.Pos()), "not decided for this shape: the write operation has no error result")
			continue
		}
		removed := map[int]bool{}
		deferred := false
		for _, b := range fn.Blocks {
			for _, i := range b.Instrs {
				call, ok := i.(ssa.CallInstruction)
				if !ok || !c.reachesWrite(call, memo) {
					continue
				}
				if _, isCall := i.(*ssa.Call); isCall {
					removed[b.Index] = true
				} else {
					deferred = true
				}
			}
		}
		if len(removed) == 0 {
			why := "no call that reaches the write of the layer below found in the body (statically resolved calls and calls through the store interface)"
			if deferred {
				why = "the write of the layer below is called deferred or in a goroutine"
			}
			c.R.Infof(rule, name(fn), "behind-write", c.Pos(fn.Pos()), "not decided for this shape: "+why)
			continue
		}
		if removed[0] {
			c.R.Okf(rule, name(fn), "behind-write", c.Pos(fn.Pos()), what)
			continue
		}
		cut := map[ir.Edge]bool{}
		for _, b := range fn.Blocks {
			for _, s := range b.Succs {
				if removed[s.Index] {
					cut[ir.Edge{From: b.Index, To: s.Index}] = true
				}
			}
		}
		seen, prev := ir.ReachF(fn, fn.Blocks[0], cut)
		var classOn func(r *ssa.Return, v ssa.Value, depth int) string
		classOn = func(r *ssa.Return, v ssa.Value, depth int) string {
			if ph, ok := v.(*ssa.Phi); ok && depth < 6 {
				res := "fail"
				live := 0
				for k, e := range ph.Edges {
					p := ph.Block().Preds[k]
					if !seen[p.Index] || removed[p.Index] || cut[ir.Edge{From: p.Index, To: ph.Block().Index}] {
						continue
					}
					live++
					switch classOn(r, e, depth+1) {
					case "success":
						return "success"
					case "maybe":
						res = "maybe"
					}
				}
				if live == 0 {
					return "maybe"
				}
				return res
			}
			return errValClass(r, v, 0)
		}
		bad, undec := "", ""
		for _, r := range liveReturns(fn) {
			if !seen[r.Block().Index] || removed[r.Block().Index] || len(r.Results) == 0 {
				continue
			}
			switch classOn(r, r.Results[len(r.Results)-1], 0) {
			case "success":
				bad = "the successful return at " + c.IPos(r) + " is reached without passing a call that writes (" + ir.PathTo(fn, prev, 0, r.Block().Index, c.Pos) + ")"
			case "maybe":
				undec = "the return at " + c.IPos(r) + " is reachable without a call that writes and hands back an error of unknown origin"
			}
		}
		switch {
		case bad != "":
			c.R.Violf(rule, name(fn), "behind-write", c.Pos(fn.Pos()), what,
				bad+": the caller is told the variable was written while it keeps the value of an earlier write, so the next read does not return what was written last")
		case undec != "":
			c.R.Infof(rule, name(fn), "behind-write", c.Pos(fn.Pos()), "not decided for this shape: "+undec)
		default:
			c.R.Okf(rule, name(fn), "behind-write", c.Pos(fn.Pos()), what)
		}
	}
}
