package rules

import (
	"fmt"
	"go/ast"
	"go/constant"
	"go/token"
	"go/types"
	"sort"
	"strings"

	"golang.org/x/tools/go/ssa"

	"verif/checker/internal/ir"
)

func init() {
	Registry["C17"] = checkC17
	Registry["C18"] = checkC18
}

const utilPkg = M + "/efi/util"

// typeContainsGUID: the (pointer to / slice of / struct containing) type holds a util.EFIGUID.
func typeContainsGUID(t types.Type, depth int) bool {
	if depth > 5 {
		return false
	}
	if ir.NamedTypeID(t) == utilPkg+".EFIGUID" {
		return true
	}
	switch u := t.Underlying().(type) {
	case *types.Pointer:
		return typeContainsGUID(u.Elem(), depth+1)
	case *types.Slice:
		return typeContainsGUID(u.Elem(), depth+1)
	case *types.Array:
		return typeContainsGUID(u.Elem(), depth+1)
	case *types.Struct:
		for i := 0; i < u.NumFields(); i++ {
			if typeContainsGUID(u.Field(i).Type(), depth+1) {
				return true
			}
		}
	}
	return false
}

func checkC17(c *Ctx) {
	c.ruleGUIDFormat("H1.guidtext")
	// ---- G6: text/bytes pair, big endian on both sides, fields in order
	b2g := c.Fn("G6.pair", "efi/util.BytesToGUID")
	g2b := c.Fn("G6.pair", "efi/util.GUIDToBytes")
	wg := c.FnOpt("efi/util.WriteGUID")
	guidFile := map[*ssa.Function]bool{}
	if b2g != nil && g2b != nil {
		guidFile[b2g], guidFile[g2b] = true, true
		rl, _ := c.wireLeaves(b2g, true)
		okR := len(rl) == 4
		wantR := []struct {
			name  string
			width int
		}{{"Data1", 4}, {"Data2", 2}, {"Data3", 2}, {"Data4", 8}}
		for k, l := range rl {
			if k < 4 && (l.width != wantR[k].width || l.order != "BE" && !(l.order == "-" && k == 3) || !strings.HasSuffix(l.id, "."+wantR[k].name) && l.id != "value" && l.id != "bytes") {
				okR = false
			}
		}
		if len(rl) == 0 {
			c.R.Infof("G6.pair", name(b2g), "bytes->GUID", c.Pos(b2g.Pos()), "not decided for this shape: the decoding of the 16 bytes is not extracted (no stream read or packed read the extractor follows)")
		} else {
			c.R.Check(okR, "G6.pair", name(b2g), "bytes->GUID", c.Pos(b2g.Pos()), "the 16-byte form is decoded big endian into Data1, Data2, Data3, Data4 (the order the text form prints)",
				"table: "+leavesString(rl))
		}
		for _, w := range []*ssa.Function{g2b, wg} {
			if w == nil {
				continue
			}
			guidFile[w] = true
			wl, whyW := c.wireLeaves(w, false)
			if len(wl) == 0 {
				// no stream parameter: the bytes the function returns
				if bl, okB := c.bytesLeaves(w); okB {
					wl, whyW = bl, ""
				}
			}
			if len(wl) == 0 {
				c.R.Infof("G6.pair", name(w), "GUID->bytes", c.Pos(w.Pos()), "not decided for this shape: the encoded bytes are not built by a modelled idiom ("+whyW+")")
				continue
			}
			// drop unnamed copies of the whole value (a private copy of the encoded bytes)
			var named []leaf
			for _, l := range wl {
				if (l.id == "bytes" || l.id == "value") && l.width == 16 {
					continue
				}
				named = append(named, l)
			}
			if len(named) == 4 {
				wl = named
			}
			ok := len(wl) == 4
			for k, l := range wl {
				if k < 4 && (l.width != wantR[k].width || l.order != "BE" && !(l.width == 8 && k == 3) || !strings.HasSuffix(l.id, "."+wantR[k].name)) {
					ok = false
				}
			}
			c.R.Check(ok, "G6.pair", name(w), "GUID->bytes", c.Pos(w.Pos()), "the 16-byte form is encoded big endian as Data1, Data2, Data3, Data4", "table: "+leavesString(wl))
		}
	}
	if fn := c.Fn("G6.pair", "efi/util.StringToGUID"); fn != nil {
		guidFile[fn] = true
		// text -> hex decode (dashes removed) -> BytesToGUID
		ok, det := false, "result does not derive from BytesToGUID(hex.DecodeString(text))"
		byHand := false
		dv := c.deepViewOf(fn, 3)
		dv.stopAt = map[string]bool{utilPkg + ".BytesToGUID": true}
		for _, r := range ir.Returns(fn) {
			res := dv.resolve(r.Results[0], dv.root)
			call, isCall := res.v.(*ssa.Call)
			if !isCall || ir.CallID(call) != utilPkg+".BytesToGUID" {
				// turned away on the outcome of the decode attempt itself (its error, the number of
				// bytes it produced): the text was decoded first
				afterDecode := false
				for _, ce := range ir.DominatingConds(fn, r.Block()) {
					for v := range c.sliceOfLocal(ce.RawCond) {
						if dc, isDC := v.(*ssa.Call); isDC && (ir.CallID(dc) == "encoding/hex.DecodeString" || ir.CallID(dc) == "encoding/hex.Decode") {
							afterDecode = true
						}
					}
				}
				if afterDecode {
					continue
				}
				// no use of encoding/hex at all: decoded by hand, not evaluated
				usesHex := false
				for _, di := range dv.order {
					if hc, isH := di.i.(*ssa.Call); isH && strings.HasPrefix(ir.CallID(hc), "encoding/hex.") {
						usesHex = true
					}
				}
				if !usesHex {
					byHand = true
					continue
				}
				// every result comes from the decoder: a text that is turned away before it
				// (by a stricter syntax check of the function's own) is not decoded at all
				ok, det = false, "the return at "+c.IPos(r)+" yields a value that does not come from decoding the text: some texts (for instance upper-case digits, which the hex decoder accepts) are answered without being decoded"
				break
			}
			sl := dv.sliceDeep(call.Call.Args[0], res.fr)
			if len(ir.CallsIn(sl, "encoding/hex.DecodeString", "encoding/hex.Decode")) > 0 && sl[fn.Params[0]] {
				ok = true
			} else if sl[fn.Params[0]] {
				byHand = true
			}
		}
		if !ok && byHand && det == "result does not derive from BytesToGUID(hex.DecodeString(text))" {
			c.R.Infof("G6.pair", name(fn), "text->GUID", c.Pos(fn.Pos()), "not decided for this shape: the bytes handed to the byte decoder are computed from the text without encoding/hex (a hand-written digit loop is not evaluated)")
		} else {
			c.R.Check(ok, "G6.pair", name(fn), "text->GUID", c.Pos(fn.Pos()), "text is hex-decoded (case-insensitive) and handed to the big-endian byte decoder", det)
		}
	}
	for _, spec := range []string{"efi/util.(*EFIGUID).Bytes", "efi/util.(*EFIGUID).Format"} {
		// the text family itself may use the text-order bytes
		if fn := c.FnOpt(spec); fn != nil {
			guidFile[fn] = true
		}
	}
	// helpers that only the text-order family calls belong to it
	for changed := true; changed; {
		changed = false
		for _, fn := range c.P.LibFunctions() {
			if guidFile[fn] || fn.Parent() != nil {
				continue
			}
			n, all := 0, true
			if node := c.P.CallGraph().Nodes[fn]; node != nil {
				for _, in := range node.In {
					if !c.P.InLib(in.Caller.Func) {
						continue
					}
					n++
					if !guidFile[in.Caller.Func] {
						all = false
					}
				}
			}
			if n > 0 && all && !ast.IsExported(fn.Name()) {
				guidFile[fn] = true
				changed = true
			}
		}
	}
	// ---- G7: GUIDs inside encoded structures are little endian
	counts := map[string]int{}
	n := 0
	for _, fn := range c.P.LibFunctions() {
		if guidFile[fn] {
			continue
		}
		fn := fn
		instrsOf(fn, func(i ssa.Instruction) {
			call, ok := i.(*ssa.Call)
			if !ok {
				return
			}
			id := ir.CallID(call)
			if id != "encoding/binary.Read" && id != "encoding/binary.Write" {
				return
			}
			data := call.Call.Args[2]
			var tys []types.Type
			if elems, ok := literalElems(data); ok {
				for _, e := range elems {
					tys = append(tys, e.Type())
				}
			} else {
				ts, _ := c.dynamicTypes(data)
				tys = ts
			}
			has := false
			for _, t := range tys {
				if typeContainsGUID(t, 0) {
					has = true
				}
			}
			if !has {
				return
			}
			n++
			key := ordinalKey(counts, name(fn)+":"+strings.TrimPrefix(id, "encoding/"))
			c.R.Check(byteOrderOf(call.Call.Args[1]) == "LE", "G7.wire", name(fn), strings.TrimPrefix(key, name(fn)+":"), c.IPos(call),
				"a GUID inside an encoded structure is Data1, Data2, Data3 little endian followed by Data4", "byte order is "+byteOrderOf(call.Call.Args[1]))
		})
	}
	// who-may-call: the big-endian (text order) serialisers must not feed wire data
	for _, fn := range c.P.LibFunctions() {
		if guidFile[fn] {
			continue
		}
		fn := fn
		instrsOf(fn, func(i ssa.Instruction) {
			call, ok := i.(*ssa.Call)
			if !ok {
				return
			}
			switch ir.CallID(call) {
			case utilPkg + ".GUIDToBytes", utilPkg + ".EFIGUID.Bytes", utilPkg + ".WriteGUID", utilPkg + ".BytesToGUID":
				key := ordinalKey(counts, name(fn)+":text-order-bytes")
				c.R.Violf("G7.wire", name(fn), strings.TrimPrefix(key, name(fn)+":"), c.IPos(call),
					"library code does not use the big-endian (text order) GUID bytes for encoded structures",
					"call of "+shortID(ir.CallID(call))+": these 16 bytes are in text order, not the EFI in-structure layout")
			}
		})
	}
	// ---- field-wise equality
	if fn := c.Fn("G6.cmp", "efi/util.CmpEFIGUID"); fn != nil {
		e := c.accept()
		var facts []*fact
		for _, f := range []string{"Data1", "Data2", "Data3", "Data4"} {
			f := f
			facts = append(facts, &fact{id: "eq-" + f, what: "field " + f + " of both GUIDs is equal",
				direct: func(c *Ctx, fn *ssa.Function, ce ir.CondEdge) bool {
					// the positive outcome of a library helper that compares two GUIDs handed to
					// it: what every true result of the helper establishes, it establishes here
					if call, isCall := ce.Cond.(*ssa.Call); isCall && ce.Truth {
						return c.guidHelperEstablishes(call, "eq-"+f)
					}
					cmp, ok := ce.Cond.(*ssa.BinOp)
					if !ok || (cmp.Op != token.EQL && cmp.Op != token.NEQ) || ce.Truth != (cmp.Op == token.EQL) {
						return false
					}
					// equality of the whole structs compares every field
					if ir.NamedTypeID(cmp.X.Type()) == utilPkg+".EFIGUID" && ir.NamedTypeID(cmp.Y.Type()) == utilPkg+".EFIGUID" {
						return ir.AccessPath(cmp.X) != ir.AccessPath(cmp.Y)
					}
					fx, fy := ir.FieldID(cmp.X), ir.FieldID(cmp.Y)
					if fx != utilPkg+".EFIGUID."+f || fy != fx {
						return false
					}
					return ir.AccessPath(cmp.X) != ir.AccessPath(cmp.Y)
				}})
		}
		// a byte-by-byte loop over Data4 is not followed by the path engine (the loop
		// exit is reachable in the graph without an iteration): that field is not decided
		elementwise := false
		inView := map[*ssa.Function]bool{fn: true}
		for _, fr := range c.deepViewOf(fn, 2).framesInOrder() {
			inView[fr.fn] = true // the comparison may sit in a helper
		}
		for g := range inView {
			g := g
			instrsOf(g, func(i ssa.Instruction) {
				if ia, ok := i.(*ssa.IndexAddr); ok && ir.FieldID(ia.X) == utilPkg+".EFIGUID.Data4" {
					if _, isK := ir.ConstInt(ia.Index); !isK && inLoop(g, ia.Block()) {
						elementwise = true
					}
				}
			})
		}
		guidCmpFacts = map[string]*fact{}
		for _, f := range facts {
			guidCmpFacts[f.id] = f
		}
		if elementwise {
			facts = facts[:3]
			c.R.Infof("G6.cmp", name(fn), "eq-Data4", c.Pos(fn.Pos()), "not decided for this shape: Data4 is compared element by element in a loop")
		}
		c.guidCmp(e, fn, facts)
	}
	// ---- UTF-16
	c.ruleUTF16()
	c.R.Floor("H1.guidtext", 1)
	c.R.Floor("G6.pair", 2)
	c.R.Floor("G7.wire", 3)
	c.R.Floor("A-u.utf16", 3)
	// the decoder is drained: a transform.Reader hands out at most one internal buffer per Read
	if fn := c.FnOpt("efi/util.ParseUtf16Var"); fn != nil {
		dv := c.deepViewOf(fn, 2)
		bad := ""
		n := 0
		for _, di := range dv.order {
			call, ok := di.i.(*ssa.Call)
			if !ok {
				continue
			}
			id := ir.CallID(call)
			if id != "golang.org/x/text/transform.Reader.Read" && !(call.Call.IsInvoke() && call.Call.Method.Name() == "Read") {
				continue
			}
			n++
			if !inLoop(di.fr.fn, call.Block()) {
				bad = "a single Read at " + c.IPos(call) + " takes what the decoding reader hands out in one go (at most its internal buffer, 4096 bytes): longer values are cut and then fail the terminator check"
			}
		}
		if n == 0 {
			c.R.Okf("A-u.utf16.whole", name(fn), "drained", c.Pos(fn.Pos()), "the decoded text is not obtained by direct Read calls (io.ReadAll / Bytes drain the decoder)")
		} else {
			c.R.Check(bad == "", "A-u.utf16.whole", name(fn), "drained", c.Pos(fn.Pos()), "the decoding reader is read until it is exhausted", bad)
		}
	}
	// the conversions keep nothing in package-level memory between calls
	c.rulePureAs("E.state", []string{"efi/util.GUIDToBytes", "efi/util.BytesToGUID", "efi/util.StringToGUID", "efi/util.(*EFIGUID).Bytes", "efi/util.(*EFIGUID).Format",
		"efi/util.ParseUtf16Var", "efi/util.ReadNullString", "efi/util.CmpEFIGUID"})
	c.R.Floor("E.state", 8)
	c.ruleRecycle("P.recycle", func(f *ssa.Function) bool {
		return strings.Contains(name(f), "efi/util.") || strings.Contains(name(f), "efivar.")
	})
}

// guidCmp: CmpEFIGUID is a conjunction; go/ssa lowers a && b && c && d to a phi
// (a disjunction of inequalities under a negation likewise).
// The accepting outcome (true) is reached only through all four equalities.
func (c *Ctx) guidCmp(e *acceptEngine, fn *ssa.Function, facts []*fact) {
	if _, _, decided := c.guidEqOnTrue(fn, nil); !decided {
		e.Require("G6.cmp", fn, facts)
		return
	}
	for _, f := range facts {
		guidCmpUndecided = ""
		ok, det, _ := c.guidEqOnTrue(fn, f)
		if !ok && guidCmpUndecided != "" {
			c.R.Infof("G6.cmp", name(fn), f.id, c.Pos(fn.Pos()), "not decided for this shape: "+guidCmpUndecided)
			continue
		}
		c.R.Check(ok, "G6.cmp", name(fn), f.id, c.Pos(fn.Pos()), "GUID equality is field-wise: "+f.what, det)
	}
}

// the facts of G6.cmp by id (for helpers), the helpers under evaluation, and the
// reason why a helper's outcome could not be evaluated
var (
	guidCmpFacts     map[string]*fact
	guidCmpBusy      = map[*ssa.Function]bool{}
	guidCmpUndecided string
)

// guidEqOnTrue: the one boolean result of fn is the outcome of a short-circuit
// chain (a phi of constants and comparisons, possibly negated); it can be true
// only if fact f holds. f == nil only asks whether the shape is one that is decided.
func (c *Ctx) guidEqOnTrue(fn *ssa.Function, f *fact) (ok bool, det string, decided bool) {
	rets := ir.Returns(fn)
	if len(rets) != 1 || len(rets[0].Results) != 1 {
		return false, "", false
	}
	res := rets[0].Results[0]
	want := true
	for {
		u, isNot := res.(*ssa.UnOp)
		if !isNot || u.Op != token.NOT {
			break
		}
		res, want = u.X, !want
	}
	phi, isPhi := res.(*ssa.Phi)
	if !isPhi {
		return false, "", false
	}
	if f == nil {
		return true, "", true
	}
	// every incoming edge that may carry the accepting value must be behind all other equalities
	ok = true
	for k, ev := range phi.Edges {
		if kc, isK := ev.(*ssa.Const); isK && kc.Value != nil && constant.BoolVal(kc.Value) != want {
			continue
		}
		pred := phi.Block().Preds[k]
		// the edge value itself may be the comparison for f
		switch ev.(type) {
		case *ssa.BinOp, *ssa.Call:
			if f.direct(c, fn, ir.CondEdge{Cond: ev, Truth: want}) {
				continue
			}
		}
		cut := map[ir.Edge]bool{}
		for _, ce := range ir.CondEdges(fn) {
			if f.direct(c, fn, ce) {
				cut[ce.Edge] = true
			}
		}
		seen, _ := ir.Reach(fn, fn.Blocks[0], cut)
		if seen[pred.Index] {
			ok, det = false, "the result can be true without comparing this field"
		}
	}
	return ok, det, true
}

// guidHelperEstablishes: call is a call of a library function with one boolean
// result that is handed two different GUIDs (values or pointers); its true
// outcome establishes the fact with the given id.
func (c *Ctx) guidHelperEstablishes(call *ssa.Call, factID string) bool {
	callee := ir.Callee(call)
	f := guidCmpFacts[factID]
	if callee == nil || f == nil || callee.Blocks == nil || !c.P.InLib(callee) || guidCmpBusy[callee] {
		return false
	}
	if res := callee.Signature.Results(); res.Len() != 1 || !isBoolType(res.At(0).Type()) {
		return false
	}
	var guids []ssa.Value
	for _, a := range ir.CallArgs(call) {
		t := a.Type()
		if p, isPtr := t.Underlying().(*types.Pointer); isPtr {
			t = p.Elem()
		}
		if ir.NamedTypeID(t) == utilPkg+".EFIGUID" {
			guids = append(guids, a)
		}
	}
	if len(guids) != 2 || ir.AccessPath(guids[0]) == ir.AccessPath(guids[1]) {
		return false
	}
	guidCmpBusy[callee] = true
	defer delete(guidCmpBusy, callee)
	ok, _, decided := c.guidEqOnTrue(callee, f)
	if !decided {
		guidCmpUndecided = "the comparison is made by the helper " + shortID(name(callee)) + ", whose result is not a single short-circuit chain"
		return false
	}
	return ok
}

// ruleUTF16 (A-u): encoder and decoder go through the UTF-16LE transcoder, one
// terminator is written, the terminator check dominates success, and the
// terminator scan returns only bytes it read.
func (c *Ctx) ruleUTF16() {
	little, okL := c.constBoolInt("golang.org/x/text/encoding/unicode", "LittleEndian")
	usesLE := func(fn *ssa.Function) (bool, string) {
		found, det := false, "no call of unicode.UTF16"
		bad := false
		// the function and the library helpers in its view
		var scope []*ssa.Function
		inScope := map[*ssa.Function]bool{}
		for _, fr := range c.deepViewOf(fn, 3).framesInOrder() {
			if !inScope[fr.fn] {
				inScope[fr.fn] = true
				scope = append(scope, fr.fn)
			}
		}
		judge := func(call *ssa.Call) {
			k, isK := evalConstBoolInt(call.Call.Args[0])
			// the byte order is fixed: a byte order mark in the data must not switch it (or be swallowed)
			ignoreBOM, okI := c.constBoolInt("golang.org/x/text/encoding/unicode", "IgnoreBOM")
			b, isB := evalConstBoolInt(call.Call.Args[1])
			switch {
			case !(okL && isK && k == little):
				det = "unicode.UTF16 is not called with LittleEndian"
				bad = true
			case !(okI && isB && b == ignoreBOM):
				det = "unicode.UTF16 is not called with IgnoreBOM: a leading U+FEFF/U+FFFE code unit would be dropped or switch the byte order"
				bad = true
			default:
				found = true
			}
		}
		for _, f := range withAnon(fn) {
			if !inScope[f] {
				inScope[f] = true
				scope = append(scope, f)
			}
		}
		for _, f := range scope {
			instrsOf(f, func(i ssa.Instruction) {
				if call, ok := i.(*ssa.Call); ok && ir.CallID(call) == "golang.org/x/text/encoding/unicode.UTF16" {
					judge(call)
				}
				// the encoding kept in a package-level variable that is assigned once, in the initialiser
				if ld, ok := i.(*ssa.UnOp); ok && ld.Op == token.MUL {
					if g, isG := ld.X.(*ssa.Global); isG && g.Pkg != nil && c.P.InModule(g.Pkg.Func("init")) {
						var stores []*ssa.Store
						for _, m := range g.Pkg.Members {
							if mf, isF := m.(*ssa.Function); isF {
								for _, ff := range withAnon(mf) {
									instrsOf(ff, func(j ssa.Instruction) {
										if st, isSt := j.(*ssa.Store); isSt && st.Addr == ssa.Value(g) {
											stores = append(stores, st)
										}
									})
								}
							}
						}
						if len(stores) == 1 && stores[0].Parent() == g.Pkg.Func("init") {
							if call, isC := ir.StripIface(stores[0].Val).(*ssa.Call); isC && ir.CallID(call) == "golang.org/x/text/encoding/unicode.UTF16" {
								judge(call)
							}
						}
					}
				}
			})
		}
		return found && !bad, det
	}
	if fn := c.Fn("A-u.utf16", "efi/util.MarshalUtf16Var"); fn != nil {
		dv := c.deepViewOf(fn, 3)
		what := "strings are encoded through the UTF-16LE encoder followed by exactly one NUL terminator"
		stdEncode := dv.callsTo("unicode/utf16.Encode")
		if len(stdEncode) > 0 && len(dv.callsTo("golang.org/x/text/encoding/unicode.UTF16")) == 0 {
			c.judgeStdUTF16Encode(fn, dv, stdEncode[0], what)
		} else if why := c.handWrittenUTF16(fn); why != "" {
			c.R.Infof("A-u.utf16", name(fn), "encode", c.Pos(fn.Pos()), "not decided for this shape: "+why)
		} else {
			ok, det := usesLE(fn)
			// writes through the transform writer (in the function or in a helper that is
			// handed the writer): first the string, then exactly one "\x00"
			type twrite struct {
				di   dinstr
				data ssa.Value
			}
			var writes []twrite
			for _, di := range dv.order {
				call, isC := di.i.(*ssa.Call)
				if !isC {
					continue
				}
				var recv, data ssa.Value
				switch {
				case ir.CallID(call) == "golang.org/x/text/transform.Writer.Write":
					recv, data = call.Call.Args[0], call.Call.Args[1]
				case call.Call.IsInvoke() && call.Call.Method.Name() == "Write" && len(call.Call.Args) == 1:
					recv, data = call.Call.Value, call.Call.Args[0]
				default:
					continue
				}
				if nw, isNW := dv.resolveAll(recv, di.fr).v.(*ssa.Call); isNW && ir.CallID(nw) == "golang.org/x/text/transform.NewWriter" {
					// one Write in a loop over a literal list of parts: one write per part
					if alts := dv.alternatives(data, di.fr); len(alts) > 1 && inLoop(di.fr.fn, call.Block()) {
						for _, alt := range alts {
							writes = append(writes, twrite{di, alt.v})
						}
						continue
					}
					writes = append(writes, twrite{di, data})
				}
			}
			if ok {
				switch {
				case len(writes) != 2:
					ok, det = false, fmt.Sprintf("%d writes through the UTF-16 encoder, want the string and one terminator", len(writes))
				default:
					if !dv.sliceDeep(writes[0].data, writes[0].di.fr)[fn.Params[0]] {
						ok, det = false, "the first write is not the string parameter"
					}
					if !constBytesEqual(writes[1].data, "\x00") && !constStringEqual(writes[1].data, "\x00") {
						ok, det = false, "the second write is not the single NUL terminator"
					}
					w0, w1 := writes[0].di, writes[1].di
					if w0.i != w1.i && (w0.fr == w1.fr && !precedesInCFG(w0.fr.fn, w0.i, w1.i) || w0.fr != w1.fr && w0.seq > w1.seq) {
						ok, det = false, "the terminator is not written after the string"
					}
				}
			}
			// the result is the buffer the encoder writes into, nothing appended by hand
			if ok {
				for _, r := range ir.Returns(fn) {
					if call, isC := dv.resolve(r.Results[0], dv.root).v.(*ssa.Call); !isC || ir.CallID(call) != "bytes.Buffer.Bytes" {
						ok, det = false, "the result is not the encoder's output buffer"
					}
				}
			}
			c.R.Check(ok, "A-u.utf16", name(fn), "encode", c.Pos(fn.Pos()), what, det)
		}
	}
	if fn := c.Fn("A-u.utf16", "efi/util.ParseUtf16Var"); fn != nil {
		ok, det := usesLE(fn)
		c.R.Check(ok, "A-u.utf16", name(fn), "decode", c.Pos(fn.Pos()), "strings are decoded through the UTF-16LE decoder", det)
		// success only behind "last byte is NUL"
		e := c.accept()
		e.Require("A-u.utf16", fn, []*fact{{id: "terminated", what: "the decoded text ends in the NUL terminator",
			direct: func(c *Ctx, fn *ssa.Function, ce ir.CondEdge) bool {
				if call, isCall := ce.Cond.(*ssa.Call); isCall && ce.Truth && ir.CallID(call) == "bytes.HasSuffix" {
					if elems, isLit := variadicElems(call.Call.Args[1]); isLit && len(elems) == 1 {
						if k, isK := ir.ConstInt(elems[0]); isK && k == 0 {
							return true
						}
					}
					// a package-level []byte{0} that nothing in the library writes
					if ld, isLd := call.Call.Args[1].(*ssa.UnOp); isLd && ld.Op == token.MUL {
						if g, isG := ld.X.(*ssa.Global); isG && g.Pkg != nil && c.P.InModule(g.Pkg.Func("init")) {
							one, writes := false, 0
							for _, m := range g.Pkg.Members {
								mf, isF := m.(*ssa.Function)
								if !isF {
									continue
								}
								for _, ff := range withAnon(mf) {
									instrsOf(ff, func(j ssa.Instruction) {
										if st, isSt := j.(*ssa.Store); isSt && st.Addr == ssa.Value(g) {
											writes++
											if sl, isSl := st.Val.(*ssa.Slice); isSl {
												if a, isA := sl.X.(*ssa.Alloc); isA {
													if arr, isArr := a.Type().Underlying().(*types.Pointer).Elem().Underlying().(*types.Array); isArr && arr.Len() == 1 {
														zero := true
														for _, r := range *a.Referrers() {
															if ia, isIA := r.(*ssa.IndexAddr); isIA {
																for _, rr := range *ia.Referrers() {
																	if est, isE := rr.(*ssa.Store); isE {
																		if k, isK := ir.ConstInt(est.Val); !isK || k != 0 {
																			zero = false
																		}
																	}
																}
															}
														}
														one = zero
													}
												}
											}
										}
									})
								}
							}
							if one && writes == 1 {
								return true
							}
						}
					}
					if elems, isLit := literalElems(call.Call.Args[1]); isLit && len(elems) == 1 {
						if k, isK := ir.ConstInt(elems[0]); isK && k == 0 {
							return true
						}
					}
					return constBytesEqual(call.Call.Args[1], "\x00")
				}
				if call, isCall := ce.Cond.(*ssa.Call); isCall && ce.Truth && ir.CallID(call) == "strings.HasSuffix" {
					k, isK := call.Call.Args[1].(*ssa.Const)
					return isK && k.Value != nil && k.Value.Kind() == constant.String && constant.StringVal(k.Value) == "\x00"
				}
				cmp, ok := ce.Cond.(*ssa.BinOp)
				if !ok || (cmp.Op != token.EQL && cmp.Op != token.NEQ) || ce.Truth != (cmp.Op == token.EQL) {
					return false
				}
				if k, isK := ir.ConstInt(cmp.Y); !isK || k != 0 {
					return false
				}
				var index ssa.Value
				switch x := ir.StripConv(cmp.X).(type) {
				case *ssa.UnOp:
					ia, ok := x.X.(*ssa.IndexAddr)
					if !ok {
						return false
					}
					index = ia.Index
				case *ssa.Lookup: // s[len(s)-1] of a string
					if _, isMap := x.X.Type().Underlying().(*types.Map); isMap {
						return false
					}
					index = x.Index
				default:
					return false
				}
				a := affineOf(index, 0)
				for k, v := range a.T {
					if strings.HasPrefix(k, "len(") && v == 1 && a.K == -1 && len(a.T) == 1 {
						return true
					}
				}
				return false
			}}})
	}
	if fn := c.Fn("A-u.utf16", "efi/util.ReadNullString"); fn != nil {
		// every append feeding the result takes its data from the buffer handed to
		// Read on the input (in the function or in the helper that does the read)
		dv := c.deepViewOf(fn, 3)
		dv.throughFields = true
		var stream *ssa.Parameter
		for _, p := range fn.Params {
			if isStreamType(p.Type()) {
				stream = p
			}
		}
		ok, det, n := true, "", 0
		var readBufs []dval
		for _, di := range dv.order {
			call, isC := di.i.(ssa.CallInstruction)
			if !isC {
				continue
			}
			var src, buf ssa.Value
			switch id := ir.CallID(call); {
			case call.Common().IsInvoke() && call.Common().Method.Name() == "Read":
				src, buf = call.Common().Value, call.Common().Args[0]
			case id == "io.ReadFull" || id == "io.ReadAtLeast":
				src, buf = call.Common().Args[0], call.Common().Args[1]
			default:
				continue
			}
			if r := dv.objectOf(src, di.fr); stream != nil && r.fr == dv.root && r.v == ssa.Value(stream) {
				readBufs = append(readBufs, dv.objectOf(buf, di.fr))
			}
		}
		for _, di := range dv.order {
			call, isC := di.i.(*ssa.Call)
			if !isC || ir.CallID(call) != "builtin.append" || len(call.Call.Args) != 2 || !isByteSlice(call.Type()) {
				continue
			}
			n++
			src := dv.objectOf(call.Call.Args[1], di.fr)
			fromRead := false
			if elems, isLit := variadicElems(call.Call.Args[1]); isLit && len(elems) > 0 {
				// append(ret, buf[0], buf[1]): every element is a byte of the read buffer
				all := true
				for _, e := range elems {
					ok1 := false
					if ld, isLd := ir.StripConv(e).(*ssa.UnOp); isLd && ld.Op == token.MUL {
						if ia, isIA := ld.X.(*ssa.IndexAddr); isIA {
							eo := dv.objectOf(ia.X, di.fr)
							for _, b := range readBufs {
								if eo.same(b) || ir.RootOf(eo.v) == ir.RootOf(b.v) && eo.fr == b.fr {
									ok1 = true
								}
							}
						}
					}
					all = all && ok1
				}
				fromRead = all
			}
			for _, b := range readBufs {
				if src.same(b) || ir.RootOf(src.v) == ir.RootOf(b.v) && src.fr == b.fr {
					fromRead = true
				}
			}
			// a by-value copy of the read buffer (an array handed back by the helper
			// that did the read): the same bytes
			cur := dval{ir.RootOf(src.v), src.fr}
			for hops := 0; hops < 3 && !fromRead; hops++ {
				a, isA := cur.v.(*ssa.Alloc)
				if !isA {
					break
				}
				if _, isArr := a.Type().Underlying().(*types.Pointer).Elem().Underlying().(*types.Array); !isArr {
					break
				}
				var from dval
				cnt := 0
				dv.eachStoreTo(a, cur.fr, func(st *ssa.Store, f *frame) { from, cnt = dv.resolve(st.Val, f), cnt+1 })
				ld, isLd := from.v.(*ssa.UnOp)
				if cnt != 1 || !isLd || ld.Op != token.MUL {
					break
				}
				cur = dval{ir.RootOf(ld.X), from.fr}
				for _, b := range readBufs {
					if cur.same(b) || cur.v == ir.RootOf(b.v) && cur.fr == b.fr {
						fromRead = true
					}
				}
			}
			if !fromRead {
				ok, det = false, "append at "+c.IPos(call)+" adds bytes that were not read from the input (a synthesised terminator makes the decoder's terminator check vacuous)"
			}
		}
		if len(readBufs) == 0 || n == 0 {
			ok, det = false, "no Read/append pair found"
		}
		// the scan is on 2-byte code units: the buffer handed to Read has length 2
		for _, b := range readBufs {
			if mk, isMk := b.v.(*ssa.MakeSlice); isMk {
				if k, isK := ir.ConstInt(mk.Len); !isK || k != 2 {
					ok, det = false, "the terminator scan does not read 2-byte code units"
				}
			} else if mk := findMake(b.v); mk != nil {
				if k, isK := ir.ConstInt(mk.Len); !isK || k != 2 {
					ok, det = false, "the terminator scan does not read 2-byte code units"
				}
			}
		}
		dv.throughFields = false
		c.R.Check(ok, "A-u.utf16", name(fn), "scan", c.Pos(fn.Pos()), "the terminator scan reads 2-byte code units and returns only bytes read from the input", det)
	}
	if fn := c.Fn("A-u.utf16", "efivar.(*Efistring).Unmarshal"); fn != nil {
		ok := false
		dv := c.deepViewOf(fn, 3)
		for _, di := range dv.callsTo(utilPkg + ".ParseUtf16Var") {
			call := di.i.(*ssa.Call)
			if len(ir.CallsIn(dv.sliceDeep(call.Call.Args[0], di.fr), utilPkg+".ReadNullString")) > 0 {
				ok = true
			}
		}
		c.R.Check(ok, "A-u.utf16", name(fn), "string-variable", c.Pos(fn.Pos()), "string variables are decoded by the terminator scan followed by the checked UTF-16 decoder", "ParseUtf16Var(ReadNullString(..)) not found")
	}
}

func evalConstBoolInt(v ssa.Value) (int64, bool) {
	if k, ok := v.(*ssa.Const); ok && k.Value != nil {
		if k.Value.Kind() == constant.Bool {
			if constant.BoolVal(k.Value) {
				return 1, true
			}
			return 0, true
		}
	}
	return evalConst(v)
}

// constBytesEqual: v is []byte(<constant string s>).
func constBytesEqual(v ssa.Value, s string) bool {
	if cv, ok := v.(*ssa.Convert); ok {
		if k, ok := cv.X.(*ssa.Const); ok && k.Value != nil && k.Value.Kind() == constant.String {
			return constant.StringVal(k.Value) == s
		}
	}
	return false
}

func precedesInCFG(fn *ssa.Function, a, b ssa.Instruction) bool {
	if a.Block() == b.Block() {
		return precedes(a, b)
	}
	return a.Block().Dominates(b.Block())
}

// ---------------------------------------------------------------- C18

func checkC18(c *Ctx) {
	// descriptions and file names are UTF-16LE text with a fixed byte order (shared with C17)
	c.ruleUTF16()
	c.ruleGUIDFieldDecode("G7.fields", M+"/efi/device.HardDriveMediaDevicePath.PartitionSignature")
	c.ruleNodeFieldOrder("H3.nodeorder")
	c.rulePartialField("T6.partial", func(f *ssa.Function) bool { return strings.Contains(name(f), "efi/device.") })
	c.ruleCodeUnits("T7.units", func(f *ssa.Function) bool {
		return strings.Contains(name(f), "efi/device.") || strings.Contains(name(f), "efivar")
	},
		map[string]bool{M + "/efi/device.EFILoadOption.Description": true, M + "/efi/device.FileTypeMediaDevicePath.PathName": true})
	c.R.Floor("T7.units", 1)
	// H2: boot names
	type site struct {
		spec string
		fn   *ssa.Function
	}
	var sites []site
	for _, s := range []string{"efivarfs.(*bootorder).Unmarshal", "efi.GetBootOrder"} {
		if fn := c.Fn("H2.bootname", s); fn != nil {
			sites = append(sites, site{s, fn})
		}
	}
	for _, s := range sites {
		fn := s.fn
		// the strings appended to the result
		var names []ssa.Value
		instrsOf(fn, func(i ssa.Instruction) {
			call, ok := i.(*ssa.Call)
			if !ok || ir.CallID(call) != "builtin.append" || len(call.Call.Args) != 2 {
				return
			}
			if sl, ok := call.Type().Underlying().(*types.Slice); !ok || !isStringType(sl.Elem()) {
				return
			}
			if args, ok := variadicElems(call.Call.Args[1]); ok {
				names = append(names, args...)
			}
		})
		if len(names) == 0 {
			c.R.Infof("H2.bootname", name(fn), "name", c.Pos(fn.Pos()), "not decided for this shape: the boot entry names are not collected with append of strings (the string evaluator does not follow index writes into a preallocated list)")
			continue
		}
		dv := c.deepViewOf(fn, 2)
		for k, nm := range names {
			lang := dv.strLang(nm, dv.root, 0)
			ok := len(lang) == 2 && lang[0].kind == "lit" && lang[0].lit == "Boot" && lang[1].kind == "hex" && lang[1].digits == 4 && lang[1].upper
			det := "language is " + langString(lang) + "; firmware names the variables Boot#### with four upper-case hexadecimal digits"
			construct := "name"
			if k > 0 {
				construct = fmt.Sprintf("name#%d", k+1)
			}
			lower, opaque := false, false
			for _, sg := range lang {
				if sg.kind == "hex" && !sg.upper {
					lower = true
				}
				if sg.kind == "var" {
					opaque = true
				}
			}
			if !ok && opaque && !lower {
				c.R.Infof("H2.bootname", name(fn), construct, c.Pos(nm.Pos()), "not decided for this shape: the name is built in a way the string evaluator does not model ("+langString(lang)+")")
				continue
			}
			c.R.Check(ok, "H2.bootname", name(fn), construct, c.Pos(nm.Pos()), "every boot entry name is \"Boot\" followed by exactly four upper-case hex digits and nothing else", det)
			if ok {
				v := lang[1].val
				if lang[1].fr != nil {
					v = dv.resolveAll(v, lang[1].fr).v
				}
				c.bootValue(fn, v, construct)
			}
		}
	}
	// the accessor uses the name unchanged
	if fn := c.Fn("H2.lookup", "efivarfs.(*Efivarfs).GetBootEntry"); fn != nil {
		ok, det := false, "no store of the option parameter to the variable's Name"
		dv := c.deepViewOf(fn, 3)
		for _, di := range dv.storesToField(M + "/efivar.Efivar.Name") {
			st := di.i.(*ssa.Store)
			if r := dv.resolve(st.Val, di.fr); r.fr == dv.root && r.v == ssa.Value(fn.Params[1]) {
				ok = true
			} else {
				det = "the name handed to the accessor is transformed before the lookup"
			}
		}
		c.R.Check(ok, "H2.lookup", name(fn), "name-unchanged", c.Pos(fn.Pos()), "the boot-entry accessor looks up exactly the name it is given", det)
	}
	// G5: node layouts
	dev := M + "/efi/device"
	if fn := c.Fn("G5.layout", "efi/device.ParseEFILoadOption"); fn != nil {
		c.layoutRule("G5.layout", fn, true, nil, []layoutField{{"Attributes", 4}, {"FilePathListLength", 2}}, "EFI_LOAD_OPTION header")
		// description: aligned terminator scan + checked decoder
		ok := false
		instrsOf(fn, func(i ssa.Instruction) {
			if st, isSt := i.(*ssa.Store); isSt && ir.FieldID(st.Addr) == dev+".EFILoadOption.Description" {
				sl := c.Slicer().Slice(st.Val)
				if len(ir.CallsIn(sl, utilPkg+".ParseUtf16Var")) > 0 && len(ir.CallsIn(sl, utilPkg+".ReadNullString")) > 0 {
					ok = true
				}
			}
		})
		if !ok {
			// the result is put together in a helper, from a header structure that another
			// helper filled: the same derivation, followed along the activations of the view
			dv := c.deepViewOf(fn, 3)
			dv.throughFields = true
			for _, di := range dv.storesToField(dev + ".EFILoadOption.Description") {
				sl := dv.sliceDeep(di.i.(*ssa.Store).Val, di.fr)
				if len(ir.CallsIn(sl, utilPkg+".ParseUtf16Var")) > 0 && len(ir.CallsIn(sl, utilPkg+".ReadNullString")) > 0 {
					ok = true
				}
			}
			dv.throughFields = false
		}
		c.R.Check(ok, "G5.layout", name(fn), "description", c.Pos(fn.Pos()), "the description is the NUL-terminated UTF-16 string found by the 2-byte aligned scan", "Description does not derive from ParseUtf16Var(ReadNullString(f))")
	}
	if fn := c.Fn("G5.layout", "efi/device.ParseDevicePath"); fn != nil {
		c.layoutRule("G5.layout", fn, true, func(l leaf) bool {
			return strings.Contains(l.id, "EFIDevicePath.") && !strings.Contains(l.id, "DevicePath.EFIDevicePath")
		}, []layoutField{{"Type", 1}, {"SubType", 1}, {"Length", 2}}, "EFI_DEVICE_PATH_PROTOCOL header")
	}
	if fn := c.Fn("G5.layout", "efi/device.ParseMediaDevicePath"); fn != nil {
		c.layoutRule("G5.layout", fn, true, func(l leaf) bool { return strings.Contains(l.id, "HardDriveMediaDevicePath.") }, []layoutField{
			{"PartitionNumber", 4}, {"PartitionStart", 8}, {"PartitionSize", 8}, {"PartitionSignature", 16}, {"PartitionFormat", 1}, {"SignatureType", 1}}, "hard drive media device path")
		c.layoutRule("G5.layout", fn, true, func(l leaf) bool { return strings.Contains(l.id, "FirmwareFielMediaDevicePath.") }, []layoutField{{"FirmwareFileName", 16}}, "PIWG firmware file")
	}
	if fn := c.Fn("G5.layout", "efi/device.ParseHardwareDevicePath"); fn != nil {
		c.layoutRule("G5.layout", fn, true, nil, []layoutField{{"Function", 1}, {"Device", 1}}, "PCI device path")
	}
	if fn := c.Fn("G5.layout", "efi/device.ParseACPIDevicePath"); fn != nil {
		c.layoutRule("G5.layout", fn, true, nil, []layoutField{{"HID", 4}, {"UID", 4}}, "ACPI device path")
	}
	if fn := c.Fn("G5.layout", "efi/device.ParseMessagingDevicePath"); fn != nil {
		c.layoutRule("G5.layout", fn, true, func(l leaf) bool { return strings.Contains(l.id, "USBMessagingDevicePath.") }, []layoutField{{"USBParentPortNumber", 1}, {"Interface", 1}}, "USB device path")
	}
	// text rendering of the hard-drive node: fields in UEFI order from the right fields
	if fn := c.Fn("H3.hdtext", "efi/device.(HardDriveMediaDevicePath).Format"); fn != nil {
		c.hardDriveText(fn)
	}
	c.ruleBootNumberRange("H2.range")
	c.ruleDevicePathNumbers("G5.numbers")
	// node bytes are in the in-structure layout: the text-order GUID converters are not applied to them
	{
		counts := map[string]int{}
		n := 0
		for _, f := range c.P.LibFunctions() {
			if !strings.Contains(name(f), "efi/device.") {
				continue
			}
			f := f
			instrsOf(f, func(i ssa.Instruction) {
				call, ok := i.(*ssa.Call)
				if !ok {
					return
				}
				switch ir.CallID(call) {
				case utilPkg + ".GUIDToBytes", utilPkg + ".EFIGUID.Bytes", utilPkg + ".WriteGUID", utilPkg + ".BytesToGUID":
					n++
					key := ordinalKey(counts, name(f)+":text-order-bytes")
					c.R.Violf("G7.wire", name(f), strings.TrimPrefix(key, name(f)+":"), c.IPos(call),
						"device-path code does not use the big-endian (text order) GUID converters on node bytes",
						"call of "+shortID(ir.CallID(call))+": node fields are in the EFI in-structure layout (little-endian GUID fields); the text shows the first three groups byte-swapped")
				}
			})
		}
		if n == 0 {
			c.R.Okf("G7.wire", "-", "scan", "-", "no text-order GUID converter is called in the device-path package")
		}
	}
	// every entry is decoded; a reused receiver is replaced; rendering cannot fail on field values
	for _, s := range sites {
		c.ruleAllEntries("H2.all", s.fn)
	}
	c.R.Floor("H2.all", 2)
	inDevice := func(f *ssa.Function) bool { return strings.Contains(name(f), "efi/device.") }
	c.ruleDecodeReplaces("G14.replace", inDevice)
	render := map[*ssa.Function]bool{}
	for _, f := range c.P.LibFunctions() {
		if inDevice(f) && f.Signature.Recv() != nil && (f.Name() == "Format" || f.Name() == "String") {
			for _, g := range c.cone(f) {
				for _, h := range withAnon(g) {
					render[h] = true
				}
			}
		}
	}
	c.RuleT("", func(f *ssa.Function) bool { return render[f] }, map[string]bool{"T4": true, "T5": true})
	c.R.Floor("H2.bootname", 2)
	c.R.Floor("G5.layout", 4)
}

func isStringType(t types.Type) bool {
	b, ok := t.Underlying().(*types.Basic)
	return ok && b.Kind() == types.String
}

// variadicElems: elements of a []T literal passed as variadic argument.
func variadicElems(v ssa.Value) ([]ssa.Value, bool) {
	sl, ok := v.(*ssa.Slice)
	if !ok {
		return nil, false
	}
	a, ok := sl.X.(*ssa.Alloc)
	if !ok {
		return nil, false
	}
	var out []ssa.Value
	for _, r := range *a.Referrers() {
		if ia, ok := r.(*ssa.IndexAddr); ok {
			for _, rr := range *ia.Referrers() {
				if st, ok := rr.(*ssa.Store); ok && st.Addr == ia {
					out = append(out, st.Val)
				}
			}
		}
	}
	return out, len(out) > 0
}

// bootValue: the number formatted is the little-endian uint16 of the two bytes read.
func (c *Ctx) bootValue(fn *ssa.Function, v ssa.Value, construct string) {
	ok, det := false, "the formatted value is not the result of ByteOrder.Uint16 over the two bytes read"
	call, isC := ir.StripConv(v).(*ssa.Call)
	if isC {
		id := ir.CallID(call)
		args := ir.CallArgs(call)
		arg := args[len(args)-1]
		switch id {
		case "encoding/binary.littleEndian.Uint16", "encoding/binary.ByteOrder.Uint16", "encoding/binary.bigEndian.Uint16":
			order := ""
			if id == "encoding/binary.littleEndian.Uint16" {
				order = "LE"
			} else if id == "encoding/binary.bigEndian.Uint16" {
				order = "BE"
			} else {
				order = byteOrderOf(args[0])
			}
			elems, isLit := variadicElems(arg)
			switch {
			case order == "LE" && !isLit:
				ok = true // Uint16 over the buffer as read
			case order == "BE" && isLit && len(elems) == 2:
				// []byte{b[1], b[0]}: explicit swap
				i0, i1 := elemIndex(elems, 0), elemIndex(elems, 1)
				if i0 == 1 && i1 == 0 {
					ok = true
				} else {
					det = "big-endian decode without the byte swap: BootOrder entries are little endian"
				}
			case order == "BE":
				det = "big-endian decode of a little-endian BootOrder entry"
			}
		}
	}
	if !ok && !isC {
		// the digits are produced from something other than one Uint16 call (bytes printed one
		// by one, shifts, a table of digits): which bytes in which order is not evaluated here
		c.R.Infof("H2.value", name(fn), construct+".value", c.Pos(fn.Pos()), "not decided for this shape: the number that is printed is not the direct result of a ByteOrder.Uint16 call")
		return
	}
	c.R.Check(ok, "H2.value", name(fn), construct+".value", c.Pos(fn.Pos()), "the boot number is the little-endian uint16 of each consecutive byte pair", det)
}

// elemIndex: which constant index of the read buffer the k-th literal element loads (or -1).
func elemIndex(elems []ssa.Value, k int) int64 {
	// elements were collected from IndexAddr stores in referrer order; find by the store's index
	for _, e := range elems {
		_ = e
	}
	if k >= len(elems) {
		return -1
	}
	// identify element position through its IndexAddr constant
	type pos struct {
		idx int64
		val ssa.Value
	}
	var ps []pos
	for _, e := range elems {
		for _, r := range *e.Referrers() {
			if st, ok := r.(*ssa.Store); ok && st.Val == e {
				if ia, ok := st.Addr.(*ssa.IndexAddr); ok {
					if n, isK := ir.ConstInt(ia.Index); isK {
						ps = append(ps, pos{n, e})
					}
				}
			}
		}
	}
	for _, p := range ps {
		if p.idx == int64(k) {
			if ld, ok := p.val.(*ssa.UnOp); ok {
				if ia, ok := ld.X.(*ssa.IndexAddr); ok {
					if n, isK := ir.ConstInt(ia.Index); isK {
						return n
					}
				}
			}
		}
	}
	return -1
}

// hardDriveText: HD(Partition,Type,Signature[,Start,Size]) from the right fields.
func (c *Ctx) hardDriveText(fn *ssa.Function) {
	dev := M + "/efi/device.HardDriveMediaDevicePath."
	counts := map[string]int{}
	instrsOf(fn, func(i ssa.Instruction) {
		call, ok := i.(*ssa.Call)
		if !ok || ir.CallID(call) != "fmt.Sprintf" {
			return
		}
		k, isK := call.Call.Args[0].(*ssa.Const)
		if !isK || k.Value == nil || !strings.HasPrefix(constant.StringVal(k.Value), "HD(") {
			return
		}
		args, okA := variadicArgs(call.Call.Args[1])
		key := ordinalKey(counts, name(fn)+":HD-text")
		if !okA || len(args) < 3 {
			c.R.Undecf("H3.hdtext", name(fn), strings.TrimPrefix(key, name(fn)+":"), c.IPos(call), "hard-drive node text", "arguments not resolvable")
			return
		}
		want := []string{"PartitionNumber", "PartitionFormat", "PartitionSignature", "PartitionStart", "PartitionSize"}
		var bad []string
		dv := c.deepViewOf(fn, 2)
		dv.stopAt = map[string]bool{utilPkg + ".EFIGUID.Format": true, utilPkg + ".BytesToGUID": true}
		for j, a := range args {
			if j >= len(want) {
				break
			}
			slr := c.Slicer()
			slr.Control = true
			sl := slr.Slice(a)
			derives := ir.HasField(sl, dev+want[j]) || dv.fieldOrigin(a, dv.root, 0) == dev+want[j]
			if !derives {
				// a local value decoded from the field's bytes (binary.Read / copy into it) and rendered
				locals := map[*ssa.Alloc]bool{}
				for v := range sl {
					if al, isA := v.(*ssa.Alloc); isA {
						locals[al] = true
					}
					if cl, isC := v.(*ssa.Call); isC && cl.Parent() == fn {
						for _, ca := range ir.CallArgs(cl) {
							if al, isA := ir.RootOf(ir.StripIface(ca)).(*ssa.Alloc); isA {
								locals[al] = true
							}
						}
					}
				}
				if cl, isC := ir.StripIface(a).(*ssa.Call); isC {
					for _, ca := range ir.CallArgs(cl) {
						if al, isA := ir.RootOf(ir.StripIface(ca)).(*ssa.Alloc); isA {
							locals[al] = true
						}
					}
				}
				for al := range locals {
					instrsOf(fn, func(k ssa.Instruction) {
						wc, isC := k.(*ssa.Call)
						if !isC {
							return
						}
						id := ir.CallID(wc)
						if id != "encoding/binary.Read" && id != "builtin.copy" && id != "io.ReadFull" {
							return
						}
						writes := false
						for _, wa := range wc.Call.Args {
							if ir.RootOf(ir.StripIface(wa)) == ssa.Value(al) {
								writes = true
							}
						}
						if !writes {
							return
						}
						for _, wa := range wc.Call.Args {
							if ir.RootOf(ir.StripIface(wa)) != ssa.Value(al) && ir.HasField(c.Slicer().Slice(wa), dev+want[j]) {
								derives = true
								for x := range c.Slicer().Slice(wa) {
									sl[x] = true
								}
							}
						}
					})
				}
			}
			if !derives {
				bad = append(bad, fmt.Sprintf("argument %d does not derive from %s", j+1, want[j]))
			}
			for _, o := range want {
				if o != want[j] && ir.HasField(sl, dev+o) {
					bad = append(bad, fmt.Sprintf("argument %d derives from %s", j+1, o))
				}
			}
			if ir.HasField(sl, dev+"SignatureType") && want[j] != "PartitionSignature" {
				bad = append(bad, fmt.Sprintf("argument %d derives from SignatureType", j+1))
			}
		}
		c.R.Check(len(bad) == 0, "H3.hdtext", name(fn), strings.TrimPrefix(key, name(fn)+":"), c.IPos(call),
			"the hard-drive node renders partition number, format (MBR/GPT from PartitionFormat), signature, start, size in UEFI order", strings.Join(bad, "; "))
	})
}

// constBoolInt looks up a boolean (or integer) constant as 0/1.
func (c *Ctx) constBoolInt(pkgPath, nm string) (int64, bool) {
	sp := c.P.SSAPkgs[pkgPath]
	if sp == nil {
		return 0, false
	}
	k, ok := sp.Pkg.Scope().Lookup(nm).(*types.Const)
	if !ok {
		return 0, false
	}
	if k.Val().Kind() == constant.Bool {
		if constant.BoolVal(k.Val()) {
			return 1, true
		}
		return 0, true
	}
	return c.constInt(pkgPath, nm)
}

// judgeStdUTF16Encode: the encoder written with unicode/utf16.Encode and explicit
// little-endian packing of each code unit, followed by one zero unit.
func (c *Ctx) judgeStdUTF16Encode(fn *ssa.Function, dv *deepView, enc dinstr, what string) {
	undecided := func(why string) {
		c.R.Infof("A-u.utf16", name(fn), "encode", c.Pos(fn.Pos()), "not decided for this shape: "+why)
	}
	encCall := enc.i.(*ssa.Call)
	if !dv.sliceDeep(encCall.Call.Args[0], enc.fr)[fn.Params[0]] {
		c.R.Violf("A-u.utf16", name(fn), "encode", c.IPos(encCall), what, "utf16.Encode is not applied to the string parameter")
		return
	}
	rets := ir.Returns(fn)
	if len(rets) != 1 {
		undecided("several returns")
		return
	}
	last, isC := dv.resolve(rets[0].Results[0], dv.root).v.(*ssa.Call)
	if !isC {
		undecided("the result is not the value of an AppendUint16 call")
		return
	}
	w, order, put, isU := uintCallWidth(ir.CallID(last))
	if !isU || !put || w != 2 || !strings.Contains(ir.CallID(last), "AppendUint") {
		undecided("the result is not the value of an AppendUint16 call")
		return
	}
	args := ir.CallArgs(last)
	if k, isK := ir.ConstInt(args[len(args)-1]); !isK || k != 0 || order != "LE" {
		c.R.Violf("A-u.utf16", name(fn), "encode", c.IPos(last), what, "the last code unit appended is not the little-endian NUL terminator")
		return
	}
	// everything before the terminator: an empty buffer extended, in a loop, by the
	// little-endian bytes of the encoder's code units
	seen := map[ssa.Value]bool{}
	units := 0
	var walk func(v ssa.Value) string
	walk = func(v ssa.Value) string {
		if seen[v] {
			return ""
		}
		seen[v] = true
		switch x := v.(type) {
		case *ssa.Phi:
			for _, e := range x.Edges {
				if why := walk(e); why != "" {
					return why
				}
			}
			return ""
		case *ssa.MakeSlice:
			if k, isK := ir.ConstInt(x.Len); isK && k == 0 {
				return ""
			}
			return "?the buffer does not start empty"
		case *ssa.Slice:
			if h, isK := ir.ConstInt(x.High); x.High != nil && isK && h == 0 {
				return ""
			}
			return "?a re-sliced buffer"
		case *ssa.Const:
			if x.Value == nil {
				return ""
			}
		case *ssa.Call:
			w, order, put, isU := uintCallWidth(ir.CallID(x))
			if isU && put && strings.Contains(ir.CallID(x), "AppendUint") {
				if w != 2 || order != "LE" {
					return "a code unit is not appended as two little-endian bytes"
				}
				a := ir.CallArgs(x)
				if !dv.sliceDeep(a[len(a)-1], dv.root)[encCall] {
					return "a unit that does not come from utf16.Encode is appended"
				}
				units++
				return walk(a[len(a)-2])
			}
		}
		return "?the buffer is built by an idiom that is not evaluated (" + v.String() + ")"
	}
	why := walk(args[len(args)-2])
	switch {
	case strings.HasPrefix(why, "?"):
		undecided(strings.TrimPrefix(why, "?"))
	case why != "":
		c.R.Violf("A-u.utf16", name(fn), "encode", c.Pos(fn.Pos()), what, why)
	case units == 0:
		c.R.Violf("A-u.utf16", name(fn), "encode", c.Pos(fn.Pos()), what, "no code unit of the string is appended")
	default:
		c.R.Okf("A-u.utf16", name(fn), "encode", c.Pos(fn.Pos()), what)
	}
}

func constStringEqual(v ssa.Value, s string) bool {
	k, ok := ir.StripConv(v).(*ssa.Const)
	return ok && k.Value != nil && k.Value.Kind() == constant.String && constant.StringVal(k.Value) == s
}

// handWrittenUTF16: the encoder packs code units itself (PutUint16/AppendUint16
// of values derived from the runes of the string) without the x/text encoder or
// utf16.Encode, and it does treat runes above U+FFFF specially
// (utf16.EncodeRune / AppendRune, or a comparison with 0xFFFF/0x10000). Whether
// that arithmetic is right is not evaluated. "" if the function is not of that
// shape (in particular: a conversion of runes to 16 bits with no such handling
// is not excused).
func (c *Ctx) handWrittenUTF16(fn *ssa.Function) string {
	packs, surrogate, xtext := false, false, false
	for _, f := range withAnon(fn) {
		instrsOf(f, func(i ssa.Instruction) {
			switch x := i.(type) {
			case *ssa.Call:
				id := ir.CallID(x)
				if _, _, put, isU := uintCallWidth(id); isU && put {
					packs = true
				}
				if id == "unicode/utf16.EncodeRune" || id == "unicode/utf16.AppendRune" {
					surrogate = true
				}
				if strings.HasPrefix(id, "golang.org/x/text/") || id == "unicode/utf16.Encode" {
					xtext = true
				}
			case *ssa.BinOp:
				for _, side := range []ssa.Value{x.X, x.Y} {
					if k, isK := ir.ConstInt(side); isK && (k == 0xffff || k == 0x10000) {
						surrogate = true
					}
				}
			}
		})
	}
	if packs && surrogate && !xtext {
		return "the string is encoded to UTF-16 by hand (code units packed with PutUint16/AppendUint16, runes above U+FFFF split explicitly)"
	}
	return ""
}

// ruleAllEntries (H2.all): the boot-order decoders turn every 16-bit entry of
// the variable into a name. Decided on the shape of the consumption: chunk
// reads from the value must sit in a loop that runs until the value is
// exhausted (or take the whole value at once). A counter compared against the
// shrinking remaining length stops half way; a single bounded read drops
// whatever does not fit. Other shapes are not decided.
func (c *Ctx) ruleAllEntries(rule string, fn *ssa.Function) {
	dv := c.deepViewOf(fn, 2)
	fname := name(fn)
	isBuf := func(v ssa.Value) bool {
		id := ir.NamedTypeID(ir.StripIface(v).Type())
		return id == "bytes.Buffer" || id == "bytes.Reader"
	}
	type rd struct {
		call *ssa.Call
		fr   *frame
		obj  dval
		size ssa.Value // the buffer filled / the count taken, nil if not applicable
	}
	var reads []rd
	whole := false
	for _, di := range dv.order {
		call, ok := di.i.(*ssa.Call)
		if !ok {
			continue
		}
		args := ir.CallArgs(call)
		if len(args) == 0 {
			continue
		}
		id := ir.CallID(call)
		switch id {
		case "bytes.Buffer.Read", "bytes.Reader.Read", "io.ReadFull":
			if isBuf(args[0]) && len(args) > 1 {
				reads = append(reads, rd{call, di.fr, dv.objectOf(args[0], di.fr), args[1]})
			}
		case "bytes.Buffer.Next":
			reads = append(reads, rd{call, di.fr, dv.objectOf(args[0], di.fr), args[1]})
		case "bytes.Buffer.ReadByte", "bytes.Reader.ReadByte":
			reads = append(reads, rd{call, di.fr, dv.objectOf(args[0], di.fr), nil})
		case "encoding/binary.Read":
			if isBuf(args[0]) {
				reads = append(reads, rd{call, di.fr, dv.objectOf(args[0], di.fr), nil})
			}
		case "bytes.Buffer.Bytes", "bytes.Buffer.String", "io.ReadAll":
			if isBuf(args[0]) {
				whole = true
			}
		}
	}
	if len(reads) == 0 {
		if whole {
			c.R.Infof(rule, fname, "all-entries", c.Pos(fn.Pos()), "not decided for this shape: the value is taken as a whole and indexed; the index arithmetic is not followed")
		} else {
			c.R.Infof(rule, fname, "all-entries", c.Pos(fn.Pos()), "not decided for this shape: no read from a bytes.Buffer/bytes.Reader found in the decoder")
		}
		return
	}
	var bad, undecided []string
	good := 0
	for _, r := range reads {
		// the loop around the read: in its own function, or around the call that leads to it
		var loop *natLoop
		lfr := r.fr
		var at ssa.Instruction = r.call
		for lfr != nil && loop == nil {
			for _, l := range naturalLoops(lfr.fn) {
				if l.body[at.Block().Index] && (loop == nil || len(l.body) < len(loop.body)) {
					loop = l
				}
			}
			if loop != nil || lfr.parent == nil || lfr.site == nil {
				break
			}
			at, lfr = lfr.site, lfr.parent
		}
		if loop == nil {
			lfr = r.fr
		}
		lenOfStream := func(v ssa.Value) (*ssa.Call, bool) {
			lc, ok := ir.StripConv(v).(*ssa.Call)
			if !ok {
				return nil, false
			}
			if id := ir.CallID(lc); id != "bytes.Buffer.Len" && id != "bytes.Reader.Len" {
				return nil, false
			}
			return lc, dv.objectOf(lc.Call.Args[0], lfr).same(r.obj)
		}
		if loop == nil {
			// one read: whole only if sized by the remaining length
			if r.size == nil {
				bad = append(bad, "a single fixed-size read at "+c.IPos(r.call)+" outside any loop")
				continue
			}
			a := dv.affine(r.size, r.fr, nil, 0)
			if isByteSlice(r.size.Type()) {
				a = dv.sliceLen(r.size, r.fr)
			}
			switch {
			case a.isConst():
				bad = append(bad, fmt.Sprintf("a single read of at most %d bytes at %s outside any loop: entries beyond that are dropped", a.K, c.IPos(r.call)))
			default:
				sized := false
				for _, v := range a.Sym {
					if _, ok := lenOfStream(v); ok {
						sized = true
					}
				}
				if sized {
					good++
				} else {
					undecided = append(undecided, "the size of the single read at "+c.IPos(r.call)+" is "+a.String())
				}
			}
			continue
		}
		// exits of the loop
		verdict := ""
		for bi := range loop.body {
			b := lfr.fn.Blocks[bi]
			iff, ok := b.Instrs[len(b.Instrs)-1].(*ssa.If)
			if !ok || loop.body[b.Succs[0].Index] && loop.body[b.Succs[1].Index] {
				continue
			}
			bo, ok := iff.Cond.(*ssa.BinOp)
			if !ok {
				continue
			}
			inBody := func(v ssa.Value) bool {
				in, ok := v.(ssa.Instruction)
				return ok && in.Block() != nil && loop.body[in.Block().Index]
			}
			for _, pair := range [][2]ssa.Value{{bo.X, bo.Y}, {bo.Y, bo.X}} {
				lc, isLen := lenOfStream(pair[0])
				if !isLen || !inBody(lc) {
					continue
				}
				other := ir.StripConv(pair[1])
				if k, isK := ir.ConstInt(other); isK {
					if k <= 1 && verdict == "" {
						verdict = "ok"
					}
					continue
				}
				if ph, isPhi := other.(*ssa.Phi); isPhi && inBody(ph) {
					verdict = "a counter that grows with every entry is compared with the remaining length of the value, which shrinks with every read (" + c.IPos(iff) + "): the loop stops after half of the entries"
				}
			}
			// leaving on the error of the read itself
			if verdict == "" {
				for v := range c.sliceOf(iff.Cond) {
					if v == ssa.Value(r.call) {
						verdict = "ok"
					}
				}
			}
		}
		switch verdict {
		case "ok":
			good++
		case "":
			undecided = append(undecided, "the loop around the read at "+c.IPos(r.call)+" is not bounded by the remaining length of the value in a modelled way")
		default:
			bad = append(bad, verdict)
		}
	}
	if len(bad) == 0 && (len(undecided) > 0 || good == 0) {
		c.R.Infof(rule, fname, "all-entries", c.Pos(fn.Pos()), "not decided for this shape: "+strings.Join(undecided, "; "))
		return
	}
	c.R.Check(len(bad) == 0, rule, fname, "all-entries", c.Pos(fn.Pos()), "every 16-bit entry of the variable is decoded: the reads run until the value is exhausted", strings.Join(bad, "; "))
}

// sliceLen: the length of a byte slice value as an affine expression (a
// symbol when it is not built locally).
func (d *deepView) sliceLen(v ssa.Value, fr *frame) Affine {
	r := d.resolve(ir.StripIface(v), fr)
	switch x := r.v.(type) {
	case *ssa.MakeSlice:
		return d.affine(x.Len, r.fr, nil, 0)
	case *ssa.Slice:
		var hi Affine
		if x.High != nil {
			hi = d.affine(x.High, r.fr, nil, 0)
		} else if pt, ok := x.X.Type().Underlying().(*types.Pointer); ok {
			arr, isArr := pt.Elem().Underlying().(*types.Array)
			if !isArr {
				break
			}
			hi = constAffine(arr.Len())
		} else {
			hi = d.sliceLen(x.X, r.fr)
		}
		if x.Low != nil {
			return hi.add(d.affine(x.Low, r.fr, nil, 0), -1)
		}
		return hi
	}
	return symAffine("len("+d.pathName(r.v, r.fr, 0)+")", r.v)
}

// ruleBootNumberRange (H2.range): boot numbers are all 16-bit values. A parse
// of the four digits with strconv.ParseInt(s, 16, 16) accepts 0000-7FFF only
// (the result must fit a signed 16-bit integer): names that the boot order
// hands out for numbers from 8000 up would not be recognised.
func (c *Ctx) ruleBootNumberRange(rule string) {
	n := 0
	for _, fn := range c.P.LibFunctions() {
		if fn.Pkg == nil || !(strings.HasSuffix(fn.Pkg.Pkg.Path(), "/efivarfs") || strings.HasSuffix(fn.Pkg.Pkg.Path(), "/efi") || strings.HasSuffix(fn.Pkg.Pkg.Path(), "/efivar")) {
			continue
		}
		fn := fn
		instrsOf(fn, func(i ssa.Instruction) {
			call, ok := i.(*ssa.Call)
			if !ok || ir.CallID(call) != "strconv.ParseInt" || len(call.Call.Args) != 3 {
				return
			}
			base, okB := ir.ConstInt(call.Call.Args[1])
			bits, okS := ir.ConstInt(call.Call.Args[2])
			if !okB || !okS || base != 16 {
				return
			}
			n++
			c.R.Check(bits > 16 || bits == 0, rule, name(fn), "hex-number-range", c.IPos(call), "a parse of four hexadecimal digits accepts every 16-bit value",
				fmt.Sprintf("strconv.ParseInt(s, 16, %d) rejects values from %#x up (signed range): Boot8000 ... BootFFFF are refused", bits, int64(1)<<(uint(bits)-1)))
		})
	}
	if n == 0 {
		c.R.Okf(rule, "-", "scan", "-", "no signed parse of hexadecimal boot numbers in the variable access packages")
	}
}

// ruleDevicePathNumbers (G5.numbers): the type and sub-type constants of the
// device-path package equal the numbers UEFI assigns (section 10.3): the node
// dispatch compares wire bytes with them.
func (c *Ctx) ruleDevicePathNumbers(rule string) {
	want := map[string]int64{
		"Hardware": 1, "ACPI": 2, "MessagingDevicePath": 3, "MediaDevicePath": 4, "BIOSBootSpecificationDevicePath": 5, "EndOfHardwareDevicePath": 127,
		"HardwarePCI": 1, "HardwarePCCARD": 2, "HardwareMemoryMapped": 3, "HardwareVendor": 4, "HardwareController": 5, "HardwareBMC": 6,
		"ACPIDevice": 1, "ExpandedACPIDevice": 2, "MessagingUSB": 5, "MessagingVendor": 10,
		"HardDriveDevicePath": 1, "CDRomDevicePath": 2, "VendorMediaDevicePath": 3, "FilePathDevicePath": 4, "MediaProtocolDevicePath": 5, "PIWGFirmwareDevicePath": 6,
	}
	sp := c.P.SSAPkgs[M+"/efi/device"]
	if sp == nil {
		c.R.Undecf(rule, "efi/device", "constants", "-", "device-path constants", "package not loaded")
		return
	}
	var bad []string
	found := 0
	names := make([]string, 0, len(want))
	for nm := range want {
		names = append(names, nm)
	}
	sort.Strings(names)
	for _, nm := range names {
		k, ok := sp.Members[nm].(*ssa.NamedConst)
		if !ok {
			continue
		}
		found++
		if v, isInt := constant.Int64Val(constant.ToInt(k.Value.Value)); !isInt || v != want[nm] {
			bad = append(bad, fmt.Sprintf("%s is %s, UEFI assigns %d", nm, k.Value.Value.String(), want[nm]))
		}
	}
	if found < 10 {
		c.R.Infof(rule, "efi/device", "constants", "-", fmt.Sprintf("not decided for this shape: only %d of the known constant names are declared", found))
		return
	}
	c.R.Check(len(bad) == 0, rule, "efi/device", "constants", "-", "device-path type and sub-type constants carry the numbers UEFI assigns", strings.Join(bad, "; "))
}

// ruleGUIDFieldDecode (G7.fields): a 16-byte EFI_GUID kept as a byte array in a
// structure (the GPT partition signature) is taken apart as the format lays it
// out — a little-endian uint32 at 0, little-endian uint16s at 4 and 6, and
// eight bytes that are a byte sequence, not numbers. A fixed-width integer
// decode that starts at offset 8 or later swaps bytes of Data4; a big-endian
// one in the first eight bytes reads the text order.
func (c *Ctx) ruleGUIDFieldDecode(rule string, fieldIDs ...string) {
	want := map[string]bool{}
	for _, f := range fieldIDs {
		want[f] = true
	}
	n := 0
	counts := map[string]int{}
	for _, fn := range c.P.LibFunctions() {
		if fn.Pkg == nil || !strings.HasSuffix(fn.Pkg.Pkg.Path(), "/efi/device") {
			continue
		}
		fn := fn
		instrsOf(fn, func(i ssa.Instruction) {
			call, ok := i.(*ssa.Call)
			if !ok {
				return
			}
			w, order, put, isU := uintCallWidth(ir.CallID(call))
			if !isU || put {
				return
			}
			args := ir.CallArgs(call)
			// the slice handed in: offsets of nested constant re-slicings add up
			v := args[len(args)-1]
			off, exact := int64(0), true
			for depth := 0; depth < 6; depth++ {
				sl, isSl := v.(*ssa.Slice)
				if !isSl {
					break
				}
				if sl.Low != nil {
					k, isK := ir.ConstInt(sl.Low)
					if !isK {
						exact = false
					}
					off += k
				}
				v = sl.X
			}
			if !want[ir.FieldID(v)] {
				return
			}
			n++
			key := ordinalKey(counts, name(fn)+":guid-field")
			construct := strings.TrimPrefix(key, name(fn)+":")
			switch {
			case !exact:
				c.R.Infof(rule, name(fn), construct, c.IPos(call), "not decided for this shape: the offset of the decode into the GUID bytes is not a constant")
			case off >= 8:
				c.R.Violf(rule, name(fn), construct, c.IPos(call), "the last eight bytes of an EFI_GUID are a byte sequence",
					fmt.Sprintf("a %d-byte %s integer is decoded at offset %d of the GUID: Data4 is not a number, its bytes are printed in the order they are stored (…-b67c-… comes out as …-7cb6-…)", w, order, off))
			case order != "LE":
				c.R.Violf(rule, name(fn), construct, c.IPos(call), "the first three fields of an EFI_GUID in a structure are little endian",
					fmt.Sprintf("the field at offset %d is decoded big endian: that is the text order, not the in-structure layout", off))
			case !(off == 0 && w == 4 || off == 4 && w == 2 || off == 6 && w == 2):
				c.R.Violf(rule, name(fn), construct, c.IPos(call), "the fields of an EFI_GUID are a uint32 at 0 and uint16s at 4 and 6",
					fmt.Sprintf("a %d-byte integer is decoded at offset %d", w, off))
			default:
				c.R.Okf(rule, name(fn), construct, c.IPos(call), "GUID field decoded little endian at its offset")
			}
		})
	}
	if n == 0 {
		c.R.Okf(rule, "-", "scan", "-", "no fixed-width integer is decoded by hand from a GUID byte array in efi/device")
	}
}

// ruleNodeFieldOrder (H3.nodeorder): the body of a device-path node is decoded
// into the fields of its structure in the order the structure declares them
// (the structures of efi/device are laid out like the nodes of the
// specification). Two consecutive wire positions that land in fields of the
// same structure in descending order are a swap.
func (c *Ctx) ruleNodeFieldOrder(rule string) {
	n := 0
	for _, fn := range c.P.LibFunctions() {
		if fn.Pkg == nil || !strings.HasSuffix(fn.Pkg.Pkg.Path(), "/efi/device") || fn.Object() == nil || !fn.Object().Exported() {
			continue
		}
		if !strings.HasPrefix(fn.Name(), "Parse") || !strings.HasSuffix(fn.Name(), "DevicePath") {
			continue
		}
		ls, why := c.wireLeaves(fn, true)
		if why != "" || len(ls) == 0 {
			c.R.Infof(rule, name(fn), "field-order", c.Pos(fn.Pos()), "not decided for this shape: the reads of the node parser are not extracted ("+why+")")
			continue
		}
		n++
		// field index of a leaf id "<pkg>.<Type>.<Field>[...]" in its structure
		index := func(id string) (string, int) {
			for _, m := range fn.Pkg.Members {
				tn, ok := m.(*ssa.Type)
				if !ok {
					continue
				}
				st, isS := tn.Type().Underlying().(*types.Struct)
				if !isS {
					continue
				}
				prefix := M + "/efi/device." + tn.Name() + "."
				if !strings.HasPrefix(id, prefix) {
					continue
				}
				first := strings.SplitN(strings.TrimPrefix(id, prefix), ".", 2)[0]
				for k := 0; k < st.NumFields(); k++ {
					if st.Field(k).Name() == first {
						return tn.Name(), k
					}
				}
			}
			return "", -1
		}
		bad := ""
		prevT, prevK, prevID := "", -1, ""
		for _, l := range ls {
			t, k := index(l.id)
			if t != "" && t == prevT && k < prevK {
				bad = shortID(prevID) + " is read before " + shortID(l.id)
			}
			prevT, prevK, prevID = t, k, l.id
		}
		c.R.Check(bad == "", rule, name(fn), "field-order", c.Pos(fn.Pos()), "the fields of a node are decoded in the order its structure declares them",
			bad+", but the structure (and the node layout it mirrors) has them the other way round: the two values are swapped")
	}
	if n == 0 {
		c.R.Infof(rule, "-", "scan", "-", "not decided for this shape: no device-path node parser with extractable reads")
	}
}
