package rules

import (
	"fmt"
	"go/token"
	"go/types"
	"sort"
	"strings"

	"golang.org/x/tools/go/ssa"

	"verif/checker/internal/ir"
)

// Rule family G: reader/writer codec tables extracted from the encoding/binary
// idioms of the repository.

type codecEntry struct {
	call   *ssa.Call
	what   string     // "field:<pkg.Type.Field>", "type:<T>", "bytes", "call:<repo fn>"
	field  *types.Var // set for field entries
	typ    types.Type // static type of the encoded/decoded datum
	width  int        // binary width in bytes, -1 if variable
	order  string     // "LE", "BE", "?" (byte order argument)
	lenOf  string     // for byte slices: affine description of the length, "" unknown
	lenAff *Affine
	val    ssa.Value // the datum (pointer for reads, value for writes)
	alias  bool      // read from a reader constructed over already consumed bytes
	onSrc  ssa.Value // reader/writer argument
}

func (e codecEntry) String() string {
	w := "var"
	if e.width >= 0 {
		w = fmt.Sprintf("%d", e.width)
	}
	s := fmt.Sprintf("%s[%s,%s]", shortID(e.what), w, e.order)
	if e.lenOf != "" {
		s += "{len=" + e.lenOf + "}"
	}
	if e.alias {
		s += "(alias)"
	}
	return s
}

func tableString(t []codecEntry) string {
	var p []string
	for _, e := range t {
		p = append(p, e.String())
	}
	return strings.Join(p, " ")
}

// binarySize is encoding/binary's size of a fixed-size type (-1 otherwise).
func binarySize(t types.Type) int {
	switch u := t.Underlying().(type) {
	case *types.Basic:
		switch u.Kind() {
		case types.Bool, types.Int8, types.Uint8:
			return 1
		case types.Int16, types.Uint16:
			return 2
		case types.Int32, types.Uint32, types.Float32:
			return 4
		case types.Int64, types.Uint64, types.Float64, types.Complex64:
			return 8
		case types.Complex128:
			return 16
		}
	case *types.Array:
		n := binarySize(u.Elem())
		if n < 0 {
			return -1
		}
		return n * int(u.Len())
	case *types.Struct:
		sum := 0
		for i := 0; i < u.NumFields(); i++ {
			n := binarySize(u.Field(i).Type())
			if n < 0 {
				return -1
			}
			sum += n
		}
		return sum
	}
	return -1
}

func byteOrderOf(v ssa.Value) string {
	switch {
	case isGlobalLoad(v, "encoding/binary.LittleEndian"):
		return "LE"
	case isGlobalLoad(v, "encoding/binary.BigEndian"):
		return "BE"
	}
	return "?"
}

// literalElems resolves the data argument of a binary.Read/Write call inside a
// `for _, v := range []interface{}{a, b, c}` loop to the literal's elements in
// index order. ok=false if the argument is not that idiom.
func literalElems(data ssa.Value) ([]ssa.Value, bool) {
	// the same loop over an array literal of typed pointers ([...]*uint32{&a, &b}):
	// the element is converted to the interface at the call, and read by value
	// indexing of the loaded array
	if mi, isMI := data.(*ssa.MakeInterface); isMI {
		if ix, isIx := mi.X.(*ssa.Index); isIx {
			if ald, isLd := ix.X.(*ssa.UnOp); isLd && ald.Op == token.MUL {
				if al, isAl := ald.X.(*ssa.Alloc); isAl {
					return arrayLiteralElems(al, nil)
				}
			}
		}
	}
	ld, ok := data.(*ssa.UnOp)
	if !ok || ld.Op != token.MUL {
		return nil, false
	}
	ia, ok := ld.X.(*ssa.IndexAddr)
	if !ok {
		return nil, false
	}
	root, ok := ir.RootOf(ia.X).(*ssa.Alloc)
	if !ok {
		return nil, false
	}
	return arrayLiteralElems(root, ia)
}

// arrayLiteralElems: the values stored at the constant indices of a local array
// (skip: the element address that is the loop's own read), all of them or nothing.
func arrayLiteralElems(root *ssa.Alloc, ia *ssa.IndexAddr) ([]ssa.Value, bool) {
	arr, ok := root.Type().Underlying().(*types.Pointer).Elem().Underlying().(*types.Array)
	if !ok {
		return nil, false
	}
	elems := make([]ssa.Value, arr.Len())
	for _, r := range *root.Referrers() {
		sia, ok := r.(*ssa.IndexAddr)
		if !ok || sia == ia {
			continue
		}
		idx, isK := ir.ConstInt(sia.Index)
		if !isK {
			continue
		}
		for _, rr := range *sia.Referrers() {
			if st, ok := rr.(*ssa.Store); ok && st.Addr == sia {
				v := st.Val
				if mi, ok := v.(*ssa.MakeInterface); ok {
					v = mi.X
				}
				elems[idx] = v
			}
		}
	}
	for _, e := range elems {
		if e == nil {
			return nil, false
		}
	}
	return elems, true
}

func (c *Ctx) entryFor(call *ssa.Call, datum ssa.Value, order string, isRead bool, stream ssa.Value) codecEntry {
	e := codecEntry{call: call, order: order, width: -1, val: datum, onSrc: stream}
	v := datum
	if mi, ok := v.(*ssa.MakeInterface); ok {
		v = mi.X
	}
	e.val = v
	T := v.Type()
	if isRead {
		if p, ok := T.Underlying().(*types.Pointer); ok {
			T = p.Elem()
		}
	}
	e.typ = T
	// field identity
	var fieldSrc ssa.Value = v
	if !isRead {
		// written value: load of a field, or Field extraction
		fieldSrc = v
	}
	if f := ir.FieldOf(fieldSrc); f != nil {
		e.field = f
		e.what = "field:" + ir.FieldID(fieldSrc)
	} else if ld, ok := fieldSrc.(*ssa.UnOp); ok && ld.Op == token.MUL {
		if f := ir.FieldOf(ld.X); f != nil {
			e.field = f
			e.what = "field:" + ir.FieldID(ld.X)
		}
	}
	if e.what == "" {
		e.what = "type:" + ir.TypeString(T)
	}
	if sl, ok := T.Underlying().(*types.Slice); ok {
		el := binarySize(sl.Elem())
		e.width = -1
		// length of the slice being read/written
		if mk := findMake(v); mk != nil {
			a := affineOf(mk.Len, 0)
			if el > 1 {
				a = a.scale(int64(el))
			}
			e.lenAff = &a
			e.lenOf = a.String()
		}
		if e.field == nil {
			e.what = "bytes"
		}
	} else {
		e.width = binarySize(T)
	}
	return e
}

// findMake follows a slice value (possibly through a local pointer) to its make.
func findMake(v ssa.Value) *ssa.MakeSlice {
	for depth := 0; v != nil && depth < 6; depth++ {
		switch x := v.(type) {
		case *ssa.MakeSlice:
			return x
		case *ssa.Slice:
			v = x.X
		case *ssa.UnOp:
			if a, ok := x.X.(*ssa.Alloc); ok && x.Op == token.MUL {
				v = nil
				for _, r := range *a.Referrers() {
					if st, ok := r.(*ssa.Store); ok && st.Addr == a {
						v = st.Val
					}
				}
			} else {
				return nil
			}
		case *ssa.Alloc:
			// &data where data := make(...)
			var nv ssa.Value
			for _, r := range *x.Referrers() {
				if st, ok := r.(*ssa.Store); ok && st.Addr == x {
					nv = st.Val
				}
			}
			v = nv
		default:
			return nil
		}
	}
	return nil
}

// codecTable extracts the ordered table of a reader (isRead) or writer function.
// Calls are ordered by source position; the slice-literal idiom is expanded in
// literal order; calls to other repo codec functions on the same stream become
// "call:" entries.
func (c *Ctx) codecTable(fn *ssa.Function, isRead bool) []codecEntry {
	want := "encoding/binary.Write"
	if isRead {
		want = "encoding/binary.Read"
	}
	var calls []*ssa.Call
	for _, f := range withAnon(fn) {
		instrsOf(f, func(i ssa.Instruction) {
			call, ok := i.(*ssa.Call)
			if !ok {
				return
			}
			id := ir.CallID(call)
			if id == want {
				calls = append(calls, call)
				return
			}
			if callee := ir.Callee(call); callee != nil && c.P.InLib(callee) && callee != fn && c.isCodecFunc(callee, isRead) {
				calls = append(calls, call)
				return
			}
			if callee := ir.Callee(call); callee != nil && c.P.InLib(callee) && callee != fn {
				if w := c.codecWrapper(callee); w != nil && w.isRead == isRead {
					calls = append(calls, call)
					return
				}
			}
			if isRead && c.byteReaderCall(call) != nil {
				calls = append(calls, call)
			}
		})
	}
	sort.SliceStable(calls, func(i, j int) bool { return ir.InstrPos(calls[i]) < ir.InstrPos(calls[j]) })
	var out []codecEntry
	for _, call := range calls {
		if callee := ir.Callee(call); callee != nil && ir.CallID(call) != want {
			if w := c.codecWrapper(callee); w != nil && w.isRead == isRead {
				args := call.Call.Args
				stream := args[w.streamIdx]
				if w.variadic {
					if elems, ok := variadicElems(args[w.dataIdx]); ok {
						// in index order
						ordered := orderedVariadic(args[w.dataIdx])
						if ordered != nil {
							elems = ordered
						}
						for _, el := range elems {
							out = append(out, c.entryFor(call, el, w.order, isRead, stream))
						}
					}
				} else {
					out = append(out, c.entryFor(call, args[w.dataIdx], w.order, isRead, stream))
				}
				continue
			}
		}
		if ir.CallID(call) != want {
			if n := c.byteReaderCall(call); isRead && n != nil {
				a := affineOf(n, 0)
				e := codecEntry{call: call, what: "bytes", width: -1, order: "-", onSrc: firstStreamArg(call), lenAff: &a, lenOf: a.String()}
				// the field the bytes end up in
				for _, r := range *call.Referrers() {
					if ex, ok := r.(*ssa.Extract); ok && ex.Index == 0 {
						for _, rr := range *ex.Referrers() {
							if st, ok := rr.(*ssa.Store); ok && ir.FieldOf(st.Addr) != nil {
								e.field = ir.FieldOf(st.Addr)
								e.what = "field:" + ir.FieldID(st.Addr)
							}
						}
					}
				}
				out = append(out, e)
				continue
			}
			out = append(out, codecEntry{call: call, what: "call:" + name(ir.Callee(call)), width: -1, order: "-", onSrc: firstStreamArg(call)})
			continue
		}
		order := byteOrderOf(call.Call.Args[1])
		data := call.Call.Args[2]
		if elems, ok := literalElems(data); ok {
			for _, el := range elems {
				out = append(out, c.entryFor(call, el, order, isRead, call.Call.Args[0]))
			}
			continue
		}
		out = append(out, c.entryFor(call, data, order, isRead, call.Call.Args[0]))
	}
	// alias entries: reads from a reader constructed over already read bytes
	if isRead {
		for k := range out {
			src := ir.StripIface(out[k].onSrc)
			if cl, ok := src.(*ssa.Call); ok {
				switch ir.CallID(cl) {
				case "bytes.NewBuffer", "bytes.NewReader", "bytes.NewBufferString":
					out[k].alias = true
				}
			}
		}
	}
	return out
}

func firstStreamArg(call *ssa.Call) ssa.Value {
	for _, a := range call.Call.Args {
		if implementsReader(a.Type()) || ir.NamedTypeID(a.Type()) == "io.Writer" || ir.NamedTypeID(a.Type()) == "bytes.Buffer" {
			return a
		}
	}
	return nil
}

// isCodecFunc: a repo function that (transitively) performs binary.Read/Write
// and takes a stream parameter.
func (c *Ctx) isCodecFunc(fn *ssa.Function, isRead bool) bool {
	if c.codecWrapper(fn) != nil {
		return false
	}
	hasStream := false
	for _, p := range fn.Params {
		id := ir.NamedTypeID(p.Type())
		if id == "io.Reader" || id == "io.Writer" || id == "bytes.Buffer" {
			hasStream = true
		}
	}
	if !hasStream {
		return false
	}
	if _, _, ok := c.packLeaves(fn, isRead); ok {
		return true
	}
	want := "encoding/binary.Write"
	if isRead {
		want = "encoding/binary.Read"
	}
	found := false
	seen := map[*ssa.Function]bool{}
	var walk func(f *ssa.Function, d int)
	walk = func(f *ssa.Function, d int) {
		if seen[f] || d > 4 || found {
			return
		}
		seen[f] = true
		for _, g := range withAnon(f) {
			instrsOf(g, func(i ssa.Instruction) {
				if call, ok := i.(*ssa.Call); ok {
					if ir.CallID(call) == want {
						found = true
					} else if callee := ir.Callee(call); callee != nil && c.P.InLib(callee) {
						walk(callee, d+1)
					}
				}
			})
		}
	}
	walk(fn, 0)
	return found
}

// sameTable compares reader and writer tables entry by entry on field identity
// (or type for non-field entries), width and byte order. Alias entries of the
// reader are skipped; skipW lists writer-only field ids that are permitted.
func sameTable(r, w []codecEntry, skipW map[string]bool) (bool, string) {
	var rr, ww []codecEntry
	for _, e := range r {
		if !e.alias {
			rr = append(rr, e)
		}
	}
	for _, e := range w {
		if !skipW[e.what] {
			ww = append(ww, e)
		}
	}
	if len(rr) != len(ww) {
		return false, fmt.Sprintf("reader has %d entries, writer %d: reader [%s] writer [%s]", len(rr), len(ww), tableString(rr), tableString(ww))
	}
	for k := range rr {
		a, b := rr[k], ww[k]
		ida, idb := a.what, b.what
		if strings.HasPrefix(ida, "call:") && strings.HasPrefix(idb, "call:") {
			continue // paired sub-codecs are compared on their own
		}
		if ida != idb {
			// bytes vs field of slice type: compare through the field the bytes end up in
			if !(strings.HasPrefix(ida, "bytes") && strings.HasPrefix(idb, "field:") || strings.HasPrefix(idb, "bytes") && strings.HasPrefix(ida, "field:")) {
				return false, fmt.Sprintf("entry %d differs: reader %s, writer %s", k+1, a.String(), b.String())
			}
		}
		if a.width != b.width && a.width >= 0 && b.width >= 0 {
			return false, fmt.Sprintf("entry %d width differs: reader %s, writer %s", k+1, a.String(), b.String())
		}
		if a.order != b.order {
			return false, fmt.Sprintf("entry %d byte order differs: reader %s, writer %s", k+1, a.String(), b.String())
		}
	}
	return true, ""
}

// ---------------------------------------------------------------- flattening

// leaf is one fixed-width datum (or one variable-length run) on the wire.
type leaf struct {
	id    string // "pkg.Type.Field" chain, or "bytes"
	width int    // -1 variable
	order string
	alias bool
	src   *codecEntry
}

func (l leaf) String() string {
	w := "var"
	if l.width >= 0 {
		w = fmt.Sprintf("%d", l.width)
	}
	return fmt.Sprintf("%s[%s,%s]", shortID(l.id), w, l.order)
}

func leavesString(ls []leaf) string {
	var p []string
	for _, l := range ls {
		p = append(p, l.String())
	}
	return strings.Join(p, " ")
}

func structLeaves(prefix string, t types.Type, order string, alias bool, src *codecEntry, out *[]leaf) {
	switch u := t.Underlying().(type) {
	case *types.Struct:
		for i := 0; i < u.NumFields(); i++ {
			f := u.Field(i)
			id := prefix + "." + f.Name()
			if _, isStruct := f.Type().Underlying().(*types.Struct); isStruct {
				structLeaves(id, f.Type(), order, alias, src, out)
			} else {
				*out = append(*out, leaf{id: id, width: binarySize(f.Type()), order: order, alias: alias, src: src})
			}
		}
	default:
		*out = append(*out, leaf{id: prefix, width: binarySize(t), order: order, alias: alias, src: src})
	}
}

// flatten expands struct data and calls to repo codec functions into leaves.
func (c *Ctx) flatten(t []codecEntry, isRead bool, depth int) []leaf {
	var out []leaf
	for k := range t {
		e := &t[k]
		switch {
		case strings.HasPrefix(e.what, "call:"):
			callee := ir.Callee(e.call)
			// the same sub-codec called on mutually exclusive branches (switch arms)
			// is one wire position, not several
			alt := false
			for j := 0; j < k; j++ {
				p := &t[j]
				if strings.HasPrefix(p.what, "call:") && p.call != nil && e.call != nil && ir.Callee(p.call) == callee && exclusiveCalls(p.call, e.call) {
					alt = true
				}
			}
			if alt {
				continue
			}
			if callee != nil && depth < 5 {
				sub := c.leavesOf(callee, isRead, depth+1)
				// a struct handed over as a pointer to a local whose variable-length field is
				// provably empty at the call contributes nothing for that field
				empty := map[string]bool{}
				if !isRead {
					for _, a := range e.call.Call.Args {
						if al, ok := ir.RootOf(a).(*ssa.Alloc); ok && a == ssa.Value(al) {
							if st, ok := al.Type().Underlying().(*types.Pointer).Elem().Underlying().(*types.Struct); ok {
								for k := 0; k < st.NumFields(); k++ {
									if _, isSlice := st.Field(k).Type().Underlying().(*types.Slice); isSlice && localFieldEmpty(al, k, e.call, 0) {
										empty[st.Field(k).Name()] = true
									}
								}
							}
						}
					}
				}
				for _, l := range sub {
					if l.width < 0 && empty[lastComponent(l.id)] {
						continue
					}
					out = append(out, l)
				}
			}
		case e.width >= 0:
			if _, isStruct := e.typ.Underlying().(*types.Struct); isStruct {
				structLeaves(strings.TrimPrefix(strings.TrimPrefix(e.what, "field:"), "type:"), e.typ, e.order, e.alias, e, &out)
			} else {
				out = append(out, leaf{id: strings.TrimPrefix(strings.TrimPrefix(e.what, "field:"), "type:"), width: e.width, order: e.order, alias: e.alias, src: e})
			}
		default:
			id := strings.TrimPrefix(e.what, "field:")
			out = append(out, leaf{id: id, width: -1, order: e.order, alias: e.alias, src: e})
		}
	}
	return out
}

// sameLeaves compares flattened reader/writer leaves. Variable runs match any
// variable run; skip lists writer leaf ids that are permitted to have no reader
// counterpart.
func sameLeaves(r, w []leaf, skip map[string]bool) (bool, string) {
	var rr, ww []leaf
	for _, l := range r {
		if !l.alias {
			rr = append(rr, l)
		}
	}
	for _, l := range w {
		if !skip[l.id] && !skip[leafKey(l.id)] {
			ww = append(ww, l)
		}
	}
	n := len(rr)
	if len(ww) > n {
		n = len(ww)
	}
	for k := 0; k < n; k++ {
		if k >= len(rr) {
			return false, fmt.Sprintf("writer emits %s which the reader never consumes (reader: %s | writer: %s)", ww[k], leavesString(rr), leavesString(ww))
		}
		if k >= len(ww) {
			return false, fmt.Sprintf("reader consumes %s which the writer never emits (reader: %s | writer: %s)", rr[k], leavesString(rr), leavesString(ww))
		}
		a, b := rr[k], ww[k]
		if a.width < 0 && b.width < 0 {
			if a.order != b.order && a.order != "-" && b.order != "-" {
				return false, fmt.Sprintf("position %d: byte order differs (%s vs %s)", k+1, a, b)
			}
			continue
		}
		if !sameWireName(a, b) || a.width != b.width || a.order != b.order && a.width != 1 && a.order != "-" && b.order != "-" {
			return false, fmt.Sprintf("position %d: reader consumes %s, writer emits %s", k+1, a, b)
		}
	}
	return true, ""
}

// byteReaderCall recognises "read exactly n bytes" helpers: a repo function
// func(io.Reader, <integer>) ([]byte, error) in the read cone, or io.ReadFull.
// It returns the length argument.
func (c *Ctx) byteReaderCall(call *ssa.Call) ssa.Value {
	callee := ir.Callee(call)
	if callee == nil || !c.P.InLib(callee) || !c.readCone()[callee] {
		return nil
	}
	sig := callee.Signature
	if sig.Params().Len() != 2 || sig.Results().Len() != 2 || !isErrorType(sig.Results().At(1).Type()) {
		return nil
	}
	if ir.NamedTypeID(sig.Params().At(0).Type()) != "io.Reader" || !isNumeric(sig.Params().At(1).Type()) {
		return nil
	}
	if sl, ok := sig.Results().At(0).Type().Underlying().(*types.Slice); !ok || binarySize(sl.Elem()) != 1 {
		return nil
	}
	return call.Call.Args[1]
}

// ---------------------------------------------------------------- wrappers

type wrapperInfo struct {
	isRead    bool
	streamIdx int
	dataIdx   int
	order     string
	variadic  bool
}

// codecWrapper recognises a helper that forwards (stream, datum) to exactly one
// binary.Read / binary.Write with a constant byte order — e.g.
// mustWriteLE(b, v) or a variadic mustReadFields(f, what, fields...). Calls to
// such helpers are table entries of their callers.
func (c *Ctx) codecWrapper(fn *ssa.Function) *wrapperInfo {
	if c.wrapperCache == nil {
		c.wrapperCache = map[*ssa.Function]*wrapperInfo{}
	}
	if w, ok := c.wrapperCache[fn]; ok {
		return w
	}
	c.wrapperCache[fn] = nil
	if fn == nil || fn.Blocks == nil || len(fn.AnonFuncs) > 0 {
		return nil
	}
	var calls []*ssa.Call
	other := false
	instrsOf(fn, func(i ssa.Instruction) {
		call, ok := i.(*ssa.Call)
		if !ok {
			return
		}
		switch id := ir.CallID(call); id {
		case "encoding/binary.Read", "encoding/binary.Write":
			calls = append(calls, call)
		default:
			if callee := ir.Callee(call); callee != nil && c.P.InLib(callee) {
				// other library calls are fine as long as they do not get the stream
				// (error decoration helpers); a second consumer of the stream is not
				for _, a := range call.Call.Args {
					if id := ir.NamedTypeID(a.Type()); id == "io.Reader" || id == "io.Writer" || id == "bytes.Buffer" {
						other = true
					}
				}
			}
		}
	})
	if len(calls) != 1 || other {
		return nil
	}
	call := calls[0]
	w := &wrapperInfo{isRead: ir.CallID(call) == "encoding/binary.Read", streamIdx: -1, dataIdx: -1, order: byteOrderOf(call.Call.Args[1])}
	if w.order == "?" {
		return nil
	}
	stream := ir.StripIface(call.Call.Args[0])
	for k, p := range fn.Params {
		if stream == ssa.Value(p) {
			w.streamIdx = k
		}
	}
	data := call.Call.Args[2]
	for k, p := range fn.Params {
		if ir.StripIface(data) == ssa.Value(p) {
			w.dataIdx = k
		}
		// element of a variadic/slice parameter
		if ld, ok := data.(*ssa.UnOp); ok {
			if ia, ok := ld.X.(*ssa.IndexAddr); ok && ia.X == ssa.Value(p) {
				w.dataIdx, w.variadic = k, true
			}
		}
	}
	if w.streamIdx < 0 || w.dataIdx < 0 {
		return nil
	}
	// the datum parameter must be an interface (any) or a slice of them
	c.wrapperCache[fn] = w
	return w
}

// orderedVariadic returns the elements of a variadic literal in index order.
func orderedVariadic(v ssa.Value) []ssa.Value {
	sl, ok := v.(*ssa.Slice)
	if !ok {
		return nil
	}
	a, ok := sl.X.(*ssa.Alloc)
	if !ok {
		return nil
	}
	n, ok := byteLenAny(a)
	if !ok {
		return nil
	}
	out := make([]ssa.Value, n)
	for _, r := range *a.Referrers() {
		if ia, ok := r.(*ssa.IndexAddr); ok {
			idx, isK := ir.ConstInt(ia.Index)
			if !isK || idx < 0 || idx >= n {
				return nil
			}
			for _, rr := range *ia.Referrers() {
				if st, ok := rr.(*ssa.Store); ok && st.Addr == ia {
					out[idx] = st.Val
				}
			}
		}
	}
	for _, o := range out {
		if o == nil {
			return nil
		}
	}
	return out
}

// codecOpaque: the function (or a library callee on its stream) moves bytes by
// idioms the table extraction does not model (manual byte packing with
// ByteOrder.PutUintNN/UintNN/AppendUintNN, io.ReadFull into a scratch buffer,
// raw Write of a hand-built buffer). Table rules then give no verdict.
func (c *Ctx) codecOpaque(fn *ssa.Function, depth int) string {
	if fn == nil || depth > 4 {
		return ""
	}
	why := ""
	for _, f := range withAnon(fn) {
		if c.usesPackIdiom(f) {
			// modelled; only its callees can still be opaque
			instrsOf(f, func(i ssa.Instruction) {
				if call, ok := i.(*ssa.Call); ok && why == "" {
					if callee := ir.Callee(call); callee != nil && c.P.InLib(callee) && callee != fn && hasStreamParam(callee) && c.codecWrapper(callee) == nil {
						why = c.codecOpaque(callee, depth+1)
					}
				}
			})
			continue
		}
		instrsOf(f, func(i ssa.Instruction) {
			// the stream kept in a field of a local reader/writer value: the tables do
			// not follow the methods that use it
			if st, isSt := i.(*ssa.Store); isSt && why == "" {
				if _, isFA := st.Addr.(*ssa.FieldAddr); isFA && isStreamType(ir.StripIface(st.Val).Type()) || isFA && isStreamType(st.Val.Type()) {
					why = "the stream is kept in a field of a local value in " + name(f)
				}
				return
			}
			call, ok := i.(*ssa.Call)
			if !ok || why != "" {
				return
			}
			id := ir.CallID(call)
			switch {
			case strings.HasPrefix(id, "encoding/binary.") && (strings.Contains(id, ".PutUint") || strings.Contains(id, ".AppendUint") || strings.Contains(id, "Endian.Uint") || strings.Contains(id, "ByteOrder.Uint")):
				why = "manual byte packing (" + strings.TrimPrefix(id, "encoding/binary.") + ") in " + name(f)
			case id == "io.ReadFull" || id == "io.ReadAtLeast":
				why = id + " into a scratch buffer in " + name(f)
			case id == "bytes.Buffer.Write" || call.Call.IsInvoke() && call.Call.Method.Name() == "Write" && ir.NamedTypeID(call.Call.Value.Type()) == "io.Writer":
				why = "bytes written with a plain Write in " + name(f)
			default:
				if callee := ir.Callee(call); callee != nil && c.P.InLib(callee) && callee != fn && c.codecWrapper(callee) == nil {
					if c.isCodecFunc(callee, true) || c.isCodecFunc(callee, false) || c.readCone()[callee] && c.byteReaderCall(call) == nil && hasStreamParam(callee) {
						if w := c.codecOpaque(callee, depth+1); w != "" {
							why = w
						}
					}
				}
			}
		})
	}
	return why
}

func hasStreamParam(fn *ssa.Function) bool {
	for _, p := range fn.Params {
		id := ir.NamedTypeID(p.Type())
		if id == "io.Reader" || id == "io.Writer" || id == "bytes.Buffer" {
			return true
		}
	}
	return false
}

// leafKey strips the leading "pkg.Type" of a leaf id so that reader and writer
// leaves that name the same wire field through different Go structs compare equal.
func leafKey(id string) string {
	rest := id
	if k := strings.LastIndex(rest, "/"); k >= 0 {
		rest = rest[k+1:]
	}
	parts := strings.Split(rest, ".")
	if len(parts) >= 3 {
		return strings.Join(parts[2:], ".")
	}
	return rest
}

func lastComponent(id string) string {
	if k := strings.LastIndex(id, "."); k >= 0 {
		return id[k+1:]
	}
	return id
}

// sameWireName: two leaves name the same wire datum. Field leaves compare by
// their last path component (the same datum is often held in differently named
// Go structs on the two sides); a datum read into / written from a plain local
// has no name and matches by width and order alone.
func sameWireName(a, b leaf) bool {
	local := func(l leaf) bool {
		return l.id == "(skipped)" || l.id == "value" || l.id == "bytes" || plainLocalLeaf(l)
	}
	if local(a) || local(b) {
		return true
	}
	return lastComponent(a.id) == lastComponent(b.id)
}

// plainLocalLeaf: the leaf is a whole datum read into / written from a plain local
// (no field of any struct): of a basic type, or of a named non-struct type (then
// the leaf id is the type's own name, not a field path).
func plainLocalLeaf(l leaf) bool {
	if l.src == nil || l.src.field != nil {
		return false
	}
	if !strings.Contains(l.id, ".") {
		return true
	}
	return strings.HasPrefix(l.src.what, "type:") && l.id == strings.TrimPrefix(l.src.what, "type:")
}

// localFieldEmpty: field idx of the local struct al is nil/empty whenever
// instruction at executes (no store of a possibly non-empty value reaches it).
func localFieldEmpty(al *ssa.Alloc, idx int, at ssa.Instruction, depth int) bool {
	if depth > 3 {
		return false
	}
	cleared := false
	wholeDirty := false
	for _, r := range *al.Referrers() {
		switch x := r.(type) {
		case *ssa.Store:
			if x.Addr != ssa.Value(al) {
				continue
			}
			// whole-struct assignment: from another local with an empty field, or dirty
			if ld, ok := x.Val.(*ssa.UnOp); ok && ld.Op == token.MUL {
				if src, ok := ld.X.(*ssa.Alloc); ok && localFieldEmpty(src, idx, ld, depth+1) {
					continue
				}
			}
			// ... or from a helper that builds the value and leaves the field alone
			if call, ok := x.Val.(*ssa.Call); ok {
				if callee := call.Call.StaticCallee(); callee != nil && callee.Blocks != nil && callee.Signature.Results().Len() == 1 {
					all := true
					n := 0
					for _, b := range callee.Blocks {
						ret, isRet := b.Instrs[len(b.Instrs)-1].(*ssa.Return)
						if !isRet {
							continue
						}
						n++
						ld, isLd := ret.Results[0].(*ssa.UnOp)
						if !isLd || ld.Op != token.MUL {
							all = false
							continue
						}
						src, isA := ld.X.(*ssa.Alloc)
						if !isA || !localFieldEmpty(src, idx, ld, depth+1) {
							all = false
						}
					}
					if all && n > 0 {
						continue
					}
				}
			}
			wholeDirty = true
		case *ssa.FieldAddr:
			if x.Field != idx {
				continue
			}
			for _, rr := range *x.Referrers() {
				st, ok := rr.(*ssa.Store)
				if !ok || st.Addr != ssa.Value(x) {
					// address escapes (&hdr.Certificate passed somewhere)
					if _, isLoad := rr.(*ssa.UnOp); !isLoad {
						return false
					}
					continue
				}
				if !isEmptySlice(st.Val) {
					return false
				}
				if st.Block() == at.Block() && precedes(st, at) || st.Block() != at.Block() && st.Block().Dominates(at.Block()) {
					cleared = true
				}
			}
		}
	}
	return !wholeDirty || cleared
}

// exclusiveCalls: no execution passes through both calls (neither block reaches the other).
func exclusiveCalls(a, b *ssa.Call) bool {
	if a.Parent() != b.Parent() || a.Block() == b.Block() {
		return false
	}
	fn := a.Parent()
	reach := func(from, to *ssa.BasicBlock) bool {
		seen := map[int]bool{}
		var q []*ssa.BasicBlock
		for _, s := range from.Succs {
			q = append(q, s)
		}
		for len(q) > 0 {
			x := q[0]
			q = q[1:]
			if seen[x.Index] {
				continue
			}
			seen[x.Index] = true
			if x == to {
				return true
			}
			q = append(q, x.Succs...)
		}
		return false
	}
	_ = fn
	return !reach(a.Block(), b.Block()) && !reach(b.Block(), a.Block())
}
