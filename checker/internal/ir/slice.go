package ir

import (
	"go/token"
	"go/types"
	"strings"

	"golang.org/x/tools/go/callgraph"
	"golang.org/x/tools/go/ssa"
)

// Slicer computes the backward may-derive-from closure of SSA values. It is a
// flow-insensitive over-approximation: memory is followed through stores to
// may-aliasing addresses, out-parameters of calls, object state (all calls that
// mention the same mutable object), static repo callees (to MaxDepth) and
// closures (free variables bound at MakeClosure).
type Slicer struct {
	InRepo   func(*ssa.Function) bool
	CG       *callgraph.Graph // optional: used to bind parameters reached without a descent
	MaxDepth int
	// BindRoot also binds the parameters of the function the slice starts in to
	// the arguments of its in-repo call sites (role checks across a helper boundary).
	BindRoot bool
	// Control also follows the conditions that select which return of a repo
	// callee is taken (control dependence of the result).
	Control bool

	seen map[ssa.Value]bool
	// full: values whose provenance was followed (seen also holds values that
	// were only marked as the base object of a field/element selection)
	full     map[ssa.Value]bool
	bindings map[*ssa.Parameter][]ssa.Value
	depthOf  map[*ssa.Function]int
	root     *ssa.Function
	storeIdx map[*ssa.Function]*fnIndex
}

type fnIndex struct {
	stores []*ssa.Store
	calls  []ssa.CallInstruction
	// users of each value as call argument
	argUsers map[ssa.Value][]ssa.CallInstruction
}

func NewSlicer(inRepo func(*ssa.Function) bool, cg *callgraph.Graph, depth int) *Slicer {
	return &Slicer{InRepo: inRepo, CG: cg, MaxDepth: depth, storeIdx: map[*ssa.Function]*fnIndex{}}
}

func (s *Slicer) index(fn *ssa.Function) *fnIndex {
	if ix, ok := s.storeIdx[fn]; ok {
		return ix
	}
	ix := &fnIndex{argUsers: map[ssa.Value][]ssa.CallInstruction{}}
	var walk func(f *ssa.Function)
	walk = func(f *ssa.Function) {
		for _, b := range f.Blocks {
			for _, in := range b.Instrs {
				switch x := in.(type) {
				case *ssa.Store:
					ix.stores = append(ix.stores, x)
				case ssa.CallInstruction:
					ix.calls = append(ix.calls, x)
					for _, a := range CallArgs(x) {
						ix.argUsers[a] = append(ix.argUsers[a], x)
						if b := StripIface(a); b != a {
							ix.argUsers[b] = append(ix.argUsers[b], x)
						}
					}
				}
			}
		}
		for _, an := range f.AnonFuncs {
			walk(an)
		}
	}
	// index the whole closure family rooted at the outermost function
	top := fn
	for top.Parent() != nil {
		top = top.Parent()
	}
	walk(top)
	for f := range familyOf(top) {
		s.storeIdx[f] = ix
	}
	return ix
}

func familyOf(top *ssa.Function) map[*ssa.Function]bool {
	out := map[*ssa.Function]bool{}
	var walk func(f *ssa.Function)
	walk = func(f *ssa.Function) {
		out[f] = true
		for _, an := range f.AnonFuncs {
			walk(an)
		}
	}
	walk(top)
	return out
}

// Slice returns the closure of values v may derive from (including v).
func (s *Slicer) Slice(vs ...ssa.Value) map[ssa.Value]bool {
	s.seen = map[ssa.Value]bool{}
	s.full = map[ssa.Value]bool{}
	s.bindings = map[*ssa.Parameter][]ssa.Value{}
	s.depthOf = map[*ssa.Function]int{}
	if len(vs) > 0 && vs[0] != nil {
		s.root = vs[0].Parent()
	}
	for _, v := range vs {
		s.visit(v, 0)
	}
	return s.seen
}

func (s *Slicer) visit(v ssa.Value, depth int) {
	if v == nil || s.full[v] {
		return
	}
	s.full[v] = true
	s.seen[v] = true
	switch x := v.(type) {
	case *ssa.Const, *ssa.Builtin, *ssa.Function:
		return
	case *ssa.Global:
		// package-level variable: follow stores in its package initialiser and
		// in repo functions of the same package (cheap scan)
		if x.Pkg != nil {
			for _, m := range x.Pkg.Members {
				if fn, ok := m.(*ssa.Function); ok && fn.Blocks != nil {
					for _, st := range s.index(fn).stores {
						if st.Addr == x {
							s.visit(st.Val, depth)
						}
					}
				}
			}
		}
		return
	case *ssa.Parameter:
		fn := x.Parent()
		if bs, ok := s.bindings[x]; ok {
			for _, b := range bs {
				s.visit(b, depth)
			}
			return
		}
		if (fn == s.root && !s.BindRoot) || s.CG == nil {
			return
		}
		// reached without a descent (e.g. via a closure): bind from call graph
		if n := s.CG.Nodes[fn]; n != nil {
			idx := paramIndex(x)
			for _, in := range n.In {
				if in.Site == nil || !s.InRepo(in.Caller.Func) {
					continue
				}
				args := CallArgs(in.Site)
				if in.Site.Common().IsInvoke() {
					// receiver is args[0]
				}
				if idx >= 0 && idx < len(args) {
					s.visit(args[idx], depth)
				}
			}
		}
		return
	case *ssa.FreeVar:
		fn := x.Parent()
		idx := -1
		for i, fv := range fn.FreeVars {
			if fv == x {
				idx = i
			}
		}
		if fn.Parent() != nil && idx >= 0 {
			for f := range familyOf(topOf(fn)) {
				for _, b := range f.Blocks {
					for _, in := range b.Instrs {
						if mc, ok := in.(*ssa.MakeClosure); ok && mc.Fn == fn && idx < len(mc.Bindings) {
							s.visit(mc.Bindings[idx], depth)
						}
					}
				}
			}
		}
		return
	case *ssa.Alloc:
		s.memory(x, depth)
		return
	case *ssa.Phi:
		for _, e := range x.Edges {
			s.visit(e, depth)
		}
	case *ssa.UnOp:
		if x.Op == token.MUL {
			s.visit(x.X, depth)
			s.memory(x.X, depth)
			return
		}
		s.visit(x.X, depth)
	case *ssa.BinOp:
		s.visit(x.X, depth)
		s.visit(x.Y, depth)
	case *ssa.Convert:
		s.visit(x.X, depth)
	case *ssa.ChangeType:
		s.visit(x.X, depth)
	case *ssa.ChangeInterface:
		s.visit(x.X, depth)
	case *ssa.MakeInterface:
		s.visit(x.X, depth)
	case *ssa.SliceToArrayPointer:
		s.visit(x.X, depth)
	case *ssa.TypeAssert:
		s.visit(x.X, depth)
	case *ssa.Slice:
		s.visit(x.X, depth)
		if x.Low != nil {
			s.visit(x.Low, depth)
		}
		if x.High != nil {
			s.visit(x.High, depth)
		}
	case *ssa.Field:
		s.visit(x.X, depth)
	case *ssa.FieldAddr:
		s.visitBase(x.X)
		s.memory(x, depth)
	case *ssa.IndexAddr:
		s.visitBase(x.X)
		s.visit(x.Index, depth)
		s.memory(x, depth)
	case *ssa.Index:
		s.visit(x.X, depth)
		s.visit(x.Index, depth)
	case *ssa.Lookup:
		s.visit(x.X, depth)
		s.visit(x.Index, depth)
	case *ssa.Extract:
		if c, ok := x.Tuple.(*ssa.Call); ok {
			s.call(c, x.Index, depth)
			s.seen[c] = true
			s.full[c] = true
			return
		}
		s.visit(x.Tuple, depth)
	case *ssa.Call:
		s.call(x, -1, depth)
	case *ssa.MakeClosure:
		for _, b := range x.Bindings {
			s.visit(b, depth)
		}
	case *ssa.MakeSlice:
		s.visit(x.Len, depth)
		s.visit(x.Cap, depth)
		s.memory(x, depth)
	case *ssa.MakeMap, *ssa.MakeChan:
		s.memory(x, depth)
	case *ssa.Next:
		s.visit(x.Iter, depth)
	case *ssa.Range:
		s.visit(x.X, depth)
	case *ssa.Select:
	}
}

// StripIface removes interface boxing and type changes.
func StripIface(v ssa.Value) ssa.Value {
	for {
		switch x := v.(type) {
		case *ssa.MakeInterface:
			v = x.X
		case *ssa.ChangeInterface:
			v = x.X
		case *ssa.ChangeType:
			v = x.X
		default:
			return v
		}
	}
}

// visitBase marks the object a field/element is selected from without
// following the object's own provenance: "derives from field F of O" must not
// pull in everything else that was ever stored into O.
func (s *Slicer) visitBase(v ssa.Value) {
	for depth := 0; v != nil && depth < 16; depth++ {
		if _, isAlloc := v.(*ssa.Alloc); !isAlloc {
			s.seen[v] = true
		}
		switch x := v.(type) {
		case *ssa.Alloc:
			// a local object: whole-object stores carry its identity (spilled parameters)
			if x.Parent() != nil {
				for _, st := range s.index(x.Parent()).stores {
					if st.Addr == ssa.Value(x) && !s.seen[st.Val] {
						s.visitBase(st.Val)
					}
				}
			}
			return
		case *ssa.Parameter:
			for _, b := range s.bindings[x] {
				if !s.seen[b] {
					s.visitBase(b)
				} else if a, ok := b.(*ssa.Alloc); ok {
					_ = a
				}
			}
			return
		case *ssa.FieldAddr:
			v = x.X
		case *ssa.IndexAddr:
			v = x.X
		case *ssa.Field:
			v = x.X
		case *ssa.Index:
			v = x.X
		case *ssa.UnOp:
			// a load from a local cell (spilled parameter / captured variable):
			// the object is whatever was stored into the cell
			if cell := s.cellOf(x.X); cell != nil {
				s.seen[cell] = true
				if cell.Parent() != nil {
					for _, st := range s.index(cell.Parent()).stores {
						if s.cellOf(st.Addr) == cell && !s.seen[st.Val] {
							s.visitBase(st.Val)
						}
					}
				}
				return
			}
			v = x.X
		case *ssa.FreeVar:
			if b := FreeVarBinding(x); b != nil && !s.seen[b] {
				s.visitBase(b)
			}
			return
		case *ssa.ChangeType:
			v = x.X
		case *ssa.Convert:
			v = x.X
		case *ssa.Slice:
			v = x.X
		case *ssa.Extract:
			// an object returned by a call: its identity is what the call built it from
			delete(s.seen, v)
			delete(s.full, v)
			s.visit(v, 1)
			return
		case *ssa.Call:
			delete(s.seen, v)
			delete(s.full, v)
			s.visit(v, 1)
			return
		case *ssa.Phi:
			for _, e := range x.Edges {
				if !s.seen[e] {
					s.visitBase(e)
				}
			}
			return
		default:
			return
		}
	}
}

// FreeVarBinding returns the value bound to a closure's free variable at its
// MakeClosure site (nil if not found).
func FreeVarBinding(fv *ssa.FreeVar) ssa.Value {
	fn := fv.Parent()
	idx := -1
	for i, x := range fn.FreeVars {
		if x == fv {
			idx = i
		}
	}
	if fn.Parent() == nil || idx < 0 {
		return nil
	}
	var out ssa.Value
	for f := range familyOf(topOf(fn)) {
		for _, b := range f.Blocks {
			for _, in := range b.Instrs {
				if mc, ok := in.(*ssa.MakeClosure); ok && mc.Fn == fn && idx < len(mc.Bindings) {
					out = mc.Bindings[idx]
				}
			}
		}
	}
	return out
}

// cellOf resolves an address to the local Alloc it denotes directly, looking
// through closure free variables (nil if it is not a plain local cell).
func (s *Slicer) cellOf(addr ssa.Value) *ssa.Alloc {
	for depth := 0; depth < 8; depth++ {
		switch x := addr.(type) {
		case *ssa.Alloc:
			return x
		case *ssa.FreeVar:
			addr = FreeVarBinding(x)
			if addr == nil {
				return nil
			}
		default:
			return nil
		}
	}
	return nil
}

func topOf(fn *ssa.Function) *ssa.Function {
	for fn.Parent() != nil {
		fn = fn.Parent()
	}
	return fn
}

func paramIndex(p *ssa.Parameter) int {
	for i, q := range p.Parent().Params {
		if q == p {
			return i
		}
	}
	return -1
}

// memory follows what may have been written to the location(s) addr denotes:
// stores to may-aliasing addresses and calls that receive the address (or the
// object) as an argument.
func (s *Slicer) memory(addr ssa.Value, depth int) {
	fn := addr.Parent()
	if fn == nil {
		return
	}
	s.boundFieldStores(addr, depth)
	ix := s.index(fn)
	for _, st := range ix.stores {
		if mayAlias(st.Addr, addr) {
			s.visit(st.Val, depth)
		}
	}
	// the object itself, or an enclosing/inner address, handed to a call
	for a, calls := range ix.argUsers {
		if a == addr || containsAddr(a, addr) || containsAddr(addr, a) || pathAlias(a, addr) {
			for _, c := range calls {
				if _, isSlice := a.Type().Underlying().(*types.Slice); isSlice && (!s.readsIntoSlice(c) || !writtenPosition(c, a)) {
					continue // a slice argument is only written by read-into functions, in their destination position
				}
				s.objectCall(c, a, depth)
			}
		}
	}
}

// argsBoundTo lists the values a parameter stands for: the arguments of the
// descent that reached it, or (without a descent) of its in-repo call sites.
func (s *Slicer) argsBoundTo(p *ssa.Parameter) []ssa.Value {
	if bs, ok := s.bindings[p]; ok {
		return bs
	}
	fn := p.Parent()
	if (fn == s.root && !s.BindRoot) || s.CG == nil {
		return nil
	}
	var out []ssa.Value
	if n := s.CG.Nodes[fn]; n != nil {
		idx := paramIndex(p)
		for _, in := range n.In {
			if in.Site == nil || !s.InRepo(in.Caller.Func) {
				continue
			}
			if args := CallArgs(in.Site); idx >= 0 && idx < len(args) {
				out = appendUnique(out, args[idx])
			}
		}
	}
	return out
}

// boundFieldStores: addr is p.f1.f2 for a pointer parameter p; what the callers
// stored into the same field path of the object they pass for p is what a load
// of addr may see (field sensitive: other fields of the object are not pulled in).
func (s *Slicer) boundFieldStores(addr ssa.Value, depth int) {
	var path []int
	v := addr
	for {
		fa, ok := v.(*ssa.FieldAddr)
		if !ok {
			break
		}
		path = append(path, fa.Field)
		v = fa.X
	}
	if len(path) == 0 {
		return
	}
	var par *ssa.Parameter
	switch x := v.(type) {
	case *ssa.Parameter:
		par = x
	case *ssa.UnOp:
		// a spilled parameter: load of the cell it was stored in
		if x.Op == token.MUL {
			if cell := s.cellOf(x.X); cell != nil && cell.Parent() != nil {
				for _, st := range s.index(cell.Parent()).stores {
					if s.cellOf(st.Addr) == cell {
						if p, isP := st.Val.(*ssa.Parameter); isP {
							par = p
						}
					}
				}
			}
		}
	}
	if par == nil {
		return
	}
	for _, b := range s.argsBoundTo(par) {
		obj := rootOf(b)
		if obj == nil || obj.Parent() == nil {
			continue
		}
		if _, isAlloc := obj.(*ssa.Alloc); !isAlloc {
			continue
		}
		for _, st := range s.index(obj.Parent()).stores {
			if rootOf(st.Addr) != obj {
				continue
			}
			// the store's own field path below the object
			var sp []int
			w := st.Addr
			okPath := true
			for w != obj {
				fa, isFA := w.(*ssa.FieldAddr)
				if !isFA {
					okPath = false
					break
				}
				sp = append(sp, fa.Field)
				w = fa.X
			}
			if !okPath {
				continue
			}
			// same path, or a store to an enclosing struct (prefix of the path from the object side)
			match := len(sp) <= len(path)
			for i := 0; match && i < len(sp); i++ {
				if sp[len(sp)-1-i] != path[len(path)-1-i] {
					match = false
				}
			}
			if match {
				s.visit(st.Val, depth)
			}
		}
	}
}

// objectCall: value obj (a pointer / mutable object) is an argument of c; the
// call may write into obj from its other arguments.
func (s *Slicer) objectCall(c ssa.CallInstruction, obj ssa.Value, depth int) {
	if cv, ok := c.(ssa.Value); ok {
		s.seen[cv] = true // the call that filled the object is part of its provenance
		s.full[cv] = true
	}
	callee := Callee(c)
	if callee != nil && callee.Blocks != nil && s.InRepo != nil && s.InRepo(callee) && depth < s.MaxDepth {
		// descend: what does the callee store through this parameter?
		args := CallArgs(c)
		for i, p := range callee.Params {
			if i < len(args) {
				s.bindings[p] = appendUnique(s.bindings[p], args[i])
			}
		}
		for i, p := range callee.Params {
			if i < len(args) && args[i] == obj {
				s.paramWrites(callee, p, depth+1)
			}
		}
		return
	}
	for _, a := range CallArgs(c) {
		if a != obj {
			s.visit(a, depth)
		}
	}
	// the other objects of the call carry state set by other calls (a hash that was
	// fed before its Sum filled obj)
	if fn := c.Parent(); fn != nil {
		ix := s.index(fn)
		for _, a0 := range CallArgs(c) {
			a := StripIface(a0)
			if a0 == obj || !mutableObject(a) {
				continue
			}
			for _, oc := range s.usersOfObject(ix, a) {
				if oc == c {
					continue
				}
				for _, b := range CallArgs(oc) {
					s.visit(b, depth)
				}
			}
		}
	}
	if c.Common().IsInvoke() {
		// nothing more
	} else if !IsBuiltin(c) {
		s.visit(c.Common().Value, depth)
	}
}

func IsBuiltin(c ssa.CallInstruction) bool {
	_, ok := c.Common().Value.(*ssa.Builtin)
	return ok
}

// paramWrites visits values stored (transitively) through parameter p in callee.
func (s *Slicer) paramWrites(callee *ssa.Function, p *ssa.Parameter, depth int) {
	ix := s.index(callee)
	for _, st := range ix.stores {
		if rootOf(st.Addr) == ssa.Value(p) {
			s.visit(st.Val, depth)
		}
	}
	for a, calls := range ix.argUsers {
		if rootOf(a) == ssa.Value(p) {
			for _, c := range calls {
				if _, isSlice := a.Type().Underlying().(*types.Slice); isSlice && (!s.readsIntoSlice(c) || !writtenPosition(c, a)) {
					continue // only read-into functions write a slice argument, in their destination position
				}
				s.objectCall(c, a, depth)
			}
		}
	}
}

func appendUnique(xs []ssa.Value, v ssa.Value) []ssa.Value {
	for _, x := range xs {
		if x == v {
			return xs
		}
	}
	return append(xs, v)
}

// rootOf strips field/index/deref/conversion steps from an address or value.
func rootOf(v ssa.Value) ssa.Value {
	for {
		switch x := v.(type) {
		case *ssa.FieldAddr:
			v = x.X
		case *ssa.IndexAddr:
			v = x.X
		case *ssa.Field:
			v = x.X
		case *ssa.Index:
			v = x.X
		case *ssa.Slice:
			v = x.X
		case *ssa.ChangeType:
			v = x.X
		case *ssa.Convert:
			v = x.X
		case *ssa.MakeInterface:
			v = x.X
		case *ssa.UnOp:
			if x.Op == token.MUL {
				v = x.X
				continue
			}
			return v
		default:
			return v
		}
	}
}

// RootOf is the exported form of rootOf.
func RootOf(v ssa.Value) ssa.Value { return rootOf(v) }

// containsAddr reports whether inner is an address derived from outer
// (outer.f, outer[i], ...).
func containsAddr(outer, inner ssa.Value) bool {
	for {
		if inner == outer {
			return true
		}
		switch x := inner.(type) {
		case *ssa.FieldAddr:
			inner = x.X
		case *ssa.IndexAddr:
			inner = x.X
		case *ssa.ChangeType:
			inner = x.X
		case *ssa.Slice:
			inner = x.X
		default:
			return false
		}
	}
}

func pathAlias(a, b ssa.Value) bool {
	if !isAddrLike(a) || !isAddrLike(b) {
		return false
	}
	pa, pb := addrPath(a), addrPath(b)
	return pa == pb
}

func isAddrLike(v ssa.Value) bool {
	switch v.(type) {
	case *ssa.FieldAddr, *ssa.IndexAddr, *ssa.Alloc, *ssa.Global:
		return true
	}
	_, ok := v.Type().Underlying().(*types.Pointer)
	return ok
}

// mayAlias: same SSA value, same access path, or a store to an enclosing
// location (whole-struct store covers its fields) / to a part of it.
func mayAlias(storeAddr, loadAddr ssa.Value) bool {
	if storeAddr == loadAddr {
		return true
	}
	if containsAddr(storeAddr, loadAddr) || containsAddr(loadAddr, storeAddr) {
		return true
	}
	return pathAlias(storeAddr, loadAddr)
}

func (s *Slicer) call(c *ssa.Call, resultIdx int, depth int) {
	s.seen[c] = true
	s.full[c] = true
	callee := Callee(c)
	args := CallArgs(c)
	if callee != nil && callee.Blocks != nil && s.InRepo != nil && s.InRepo(callee) && depth < s.MaxDepth {
		for i, p := range callee.Params {
			if i < len(args) {
				s.bindings[p] = appendUnique(s.bindings[p], args[i])
			}
		}
		// closures called directly: free variables are resolved through MakeClosure
		for _, r := range Returns(callee) {
			for i, res := range r.Results {
				if resultIdx < 0 || i == resultIdx {
					s.visit(res, depth+1)
				}
			}
			if s.Control {
				for _, ce := range DominatingConds(callee, r.Block()) {
					s.visit(ce.Cond, depth+1)
				}
			}
		}
		// named results spilled through defer: handled by loads of the cell
		return
	}
	if !IsBuiltin(c) && !c.Common().IsInvoke() {
		s.visit(c.Common().Value, depth)
	}
	for _, a := range args {
		s.visit(a, depth)
	}
	// object state: other calls that mention the same mutable objects
	ix := s.index(c.Parent())
	for _, a0 := range args {
		a := StripIface(a0)
		if !mutableObject(a) {
			continue
		}
		for _, oc := range s.usersOfObject(ix, a) {
			if oc == ssa.CallInstruction(c) {
				continue
			}
			for _, b := range CallArgs(oc) {
				s.visit(b, depth)
			}
		}
	}
}

// usersOfObject: the calls that receive the mutable object a as an argument. When
// a is read from a local variable that lives in memory (a closure captures it) and
// is assigned exactly once, every load of that variable denotes the same object:
// the calls that receive another load of it are users of the object as well.
func (s *Slicer) usersOfObject(ix *fnIndex, a ssa.Value) []ssa.CallInstruction {
	out := ix.argUsers[a]
	ld, ok := a.(*ssa.UnOp)
	if !ok || ld.Op != token.MUL {
		return out
	}
	cell := s.cellOf(ld.X)
	if cell == nil {
		return out
	}
	n := 0
	for _, st := range ix.stores {
		if s.cellOf(st.Addr) == cell {
			n++
		}
	}
	if n != 1 {
		return out
	}
	out = append([]ssa.CallInstruction{}, out...)
	for _, c := range ix.calls {
		for _, k0 := range CallArgs(c) {
			k := StripIface(k0)
			kl, isLd := k.(*ssa.UnOp)
			if k == a || !isLd || kl.Op != token.MUL || s.cellOf(kl.X) != cell {
				continue
			}
			dup := false
			for _, o := range out {
				if o == c {
					dup = true
				}
			}
			if !dup {
				out = append(out, c)
			}
		}
	}
	return out
}

func mutableObject(v ssa.Value) bool {
	switch v.Type().Underlying().(type) {
	case *types.Pointer, *types.Interface:
		_, isConst := v.(*ssa.Const)
		return !isConst
	}
	return false
}

// ---------------------------------------------------------------- queries

// CallsIn returns the calls in a slice whose resolved callee is one of ids.
func CallsIn(sl map[ssa.Value]bool, ids ...string) []*ssa.Call {
	var out []*ssa.Call
	for v := range sl {
		c, ok := v.(*ssa.Call)
		if !ok {
			continue
		}
		id := CallID(c)
		for _, x := range ids {
			if x == id {
				out = append(out, c)
			}
		}
	}
	return out
}

// HasField reports whether the slice reads field id ("pkg.Type.Field").
func HasField(sl map[ssa.Value]bool, id string) bool {
	for v := range sl {
		switch v.(type) {
		case *ssa.FieldAddr, *ssa.Field:
			if FieldID(v) == id {
				return true
			}
		}
	}
	return false
}

// HasParam reports whether the slice contains parameter p.
func HasParam(sl map[ssa.Value]bool, p *ssa.Parameter) bool { return sl[p] }

// HasGlobal reports whether the slice reads global "pkgpath.Name".
func HasGlobal(sl map[ssa.Value]bool, id string) bool {
	for v := range sl {
		if g, ok := v.(*ssa.Global); ok && g.Pkg != nil && g.Pkg.Pkg.Path()+"."+g.Name() == id {
			return true
		}
	}
	return false
}

// readsIntoSlice: the callee fills a []byte argument (Read-style functions).
// Unknown static repo callees are descended into by objectCall anyway.
func (s *Slicer) readsIntoSlice(c ssa.CallInstruction) bool {
	id := CallID(c)
	switch id {
	case "io.ReadFull", "io.ReadAtLeast", "builtin.copy", "crypto/rand.Read", "encoding/hex.Decode", "encoding/binary.Read",
		"encoding/binary.LittleEndian.PutUint16", "encoding/binary.LittleEndian.PutUint32", "encoding/binary.LittleEndian.PutUint64",
		"encoding/binary.BigEndian.PutUint16", "encoding/binary.BigEndian.PutUint32", "encoding/binary.BigEndian.PutUint64":
		return true
	}
	if strings.HasPrefix(id, "encoding/binary.") && strings.Contains(id[strings.LastIndex(id, ".")+1:], "PutUint") {
		return true
	}
	if cc := c.Common(); cc.IsInvoke() {
		switch cc.Method.Name() {
		case "Read", "ReadAt", "PutUint16", "PutUint32", "PutUint64":
			return true
		case "Sum", "AppendUint16", "AppendUint32", "AppendUint64":
			// append-style: writes into the spare capacity of the slice it is given (h.Sum(buf[:0]))
			return true
		}
		return false
	}
	if o := CalleeObject(c); o != nil {
		switch o.Name() {
		case "Read", "ReadAt", "ReadFull":
			return true
		}
	}
	if callee := Callee(c); callee != nil && callee.Blocks != nil && s.InRepo != nil && s.InRepo(callee) {
		return true // analysed by descent
	}
	return false
}

// writtenPosition: for the library functions that fill a byte slice, a is the
// argument they write (copy(dst, src) writes dst only, io.ReadFull(r, buf) buf
// only, ...). Other callees are analysed by descent.
func writtenPosition(c ssa.CallInstruction, a ssa.Value) bool {
	args := c.Common().Args
	pos := -1
	switch id := CallID(c); {
	case id == "builtin.copy" || id == "crypto/rand.Read" || id == "encoding/hex.Decode":
		pos = 0
	case id == "io.ReadFull" || id == "io.ReadAtLeast":
		pos = 1
	case id == "encoding/binary.Read":
		pos = 2
	case strings.HasPrefix(id, "encoding/binary.") && strings.Contains(id[strings.LastIndex(id, ".")+1:], "PutUint"):
		pos = len(args) - 2
	default:
		return true
	}
	return pos >= 0 && pos < len(args) && args[pos] == a
}
