// Package ir holds the shared analyses: callee resolution, CFG cut-sets,
// condition decoding, access paths and the backward value slice.
package ir

import (
	"fmt"
	"go/constant"
	"go/token"
	"go/types"
	"sort"
	"strings"

	"golang.org/x/tools/go/ssa"
)

// ---------------------------------------------------------------- callees

// Callee returns the statically known callee of a call instruction, or nil.
func Callee(c ssa.CallInstruction) *ssa.Function {
	if c == nil {
		return nil
	}
	if f := c.Common().StaticCallee(); f != nil {
		return f
	}
	if c.Common().IsInvoke() {
		return nil
	}
	return closureOf(c.Common().Value, 0)
}

// FuncValue resolves a function-typed value to the function it denotes when
// the code fixes it (see closureOf); nil otherwise.
func FuncValue(v ssa.Value) *ssa.Function { return closureOf(v, 0) }

// closureOf resolves a function value to the function literal it denotes when
// that is fixed by the code: a value kept in a single-assignment local, or the
// result of a function all of whose returns hand out the same function literal
// (a "make me a checker" constructor).
func closureOf(v ssa.Value, depth int) *ssa.Function {
	if depth > 4 || v == nil {
		return nil
	}
	switch x := v.(type) {
	case *ssa.MakeClosure:
		f, _ := x.Fn.(*ssa.Function)
		return f
	case *ssa.Function:
		return x
	case *ssa.ChangeType:
		return closureOf(x.X, depth+1)
	case *ssa.UnOp:
		if a, ok := x.X.(*ssa.Alloc); ok && x.Op == token.MUL {
			var val ssa.Value
			n := 0
			for _, r := range *a.Referrers() {
				if st, isSt := r.(*ssa.Store); isSt && st.Addr == ssa.Value(a) {
					val, n = st.Val, n+1
				}
			}
			if n == 1 {
				return closureOf(val, depth+1)
			}
		}
	case *ssa.Call:
		callee := x.Common().StaticCallee()
		if callee == nil || callee.Blocks == nil || callee.Signature.Results().Len() != 1 {
			return nil
		}
		var out *ssa.Function
		for _, r := range Returns(callee) {
			f := closureOf(r.Results[0], depth+1)
			if f == nil || out != nil && f != out {
				return nil
			}
			out = f
		}
		return out
	}
	return nil
}

// CalleeObject returns the types.Func a call resolves to: the static callee's
// object, or the interface method for invoke-mode calls.
func CalleeObject(c ssa.CallInstruction) *types.Func {
	cc := c.Common()
	if cc.IsInvoke() {
		return cc.Method
	}
	if fn := cc.StaticCallee(); fn != nil {
		if o, ok := fn.Object().(*types.Func); ok {
			return o
		}
		if fn.Origin() != nil {
			if o, ok := fn.Origin().Object().(*types.Func); ok {
				return o
			}
		}
	}
	return nil
}

// FuncID renders a resolved function object as "pkgpath.Name" or
// "pkgpath.Type.Name" (pointer receivers are not distinguished).
func FuncID(o *types.Func) string {
	if o == nil {
		return ""
	}
	sig, _ := o.Type().(*types.Signature)
	pk := ""
	if o.Pkg() != nil {
		pk = o.Pkg().Path()
	}
	if sig != nil && sig.Recv() != nil {
		t := sig.Recv().Type()
		if p, ok := t.(*types.Pointer); ok {
			t = p.Elem()
		}
		switch n := t.(type) {
		case *types.Named:
			if n.Obj().Pkg() != nil {
				pk = n.Obj().Pkg().Path()
			}
			return pk + "." + n.Obj().Name() + "." + o.Name()
		case *types.Interface:
			return pk + ".(interface)." + o.Name()
		}
		return pk + ".?." + o.Name()
	}
	return pk + "." + o.Name()
}

// CallID is FuncID of the callee object of c ("" if unresolved, e.g. a call
// through a function value; "builtin.<name>" for builtins).
func CallID(c ssa.CallInstruction) string {
	if b, ok := c.Common().Value.(*ssa.Builtin); ok {
		return "builtin." + b.Name()
	}
	return FuncID(CalleeObject(c))
}

// IsCall reports whether instruction i is a call whose resolved callee is one
// of ids.
func IsCall(i ssa.Instruction, ids ...string) (ssa.CallInstruction, bool) {
	c, ok := i.(ssa.CallInstruction)
	if !ok {
		return nil, false
	}
	id := CallID(c)
	for _, x := range ids {
		if x == id {
			return c, true
		}
	}
	return c, false
}

// CallArgs returns receiver (for invoke) followed by arguments.
func CallArgs(c ssa.CallInstruction) []ssa.Value {
	cc := c.Common()
	var out []ssa.Value
	if cc.IsInvoke() {
		out = append(out, cc.Value)
	}
	return append(out, cc.Args...)
}

// ---------------------------------------------------------------- CFG

type Edge struct{ From, To int }

// tEdge is an edge of the jump-threaded view of a function's CFG: go/ssa builds
// a short-circuit expression used as a value (`case a && b:`, `ok := a || b`)
// as a join block that holds only a boolean phi and the If testing it. Such a
// join is threaded away: a predecessor that contributes a constant goes
// straight to the matching successor; a predecessor that contributes the last
// operand gets two conditional edges on that operand. Every rule then sees one
// atomic condition per edge, as it does for if statements.
type tEdge struct {
	to    int
	cond  ssa.Value // nil: unconditional
	truth bool
	ifi   *ssa.If
}

var threadCache = map[*ssa.Function][][]tEdge{}

func scJoin(b *ssa.BasicBlock) (*ssa.Phi, *ssa.If) {
	if len(b.Instrs) < 2 || len(b.Succs) != 2 || b.Succs[0] == b.Succs[1] {
		return nil, nil
	}
	ph, ok := b.Instrs[0].(*ssa.Phi)
	if !ok {
		return nil, nil
	}
	if bt, isB := ph.Type().Underlying().(*types.Basic); !isB || bt.Kind() != types.Bool {
		return nil, nil
	}
	ifi, ok := b.Instrs[len(b.Instrs)-1].(*ssa.If)
	if !ok || ifi.Cond != ssa.Value(ph) {
		return nil, nil
	}
	for _, in := range b.Instrs[1 : len(b.Instrs)-1] {
		if _, isDbg := in.(*ssa.DebugRef); !isDbg {
			return nil, nil
		}
	}
	if ph.Referrers() != nil {
		for _, r := range *ph.Referrers() {
			switch r.(type) {
			case *ssa.If, *ssa.DebugRef:
			default:
				return nil, nil
			}
		}
	}
	return ph, ifi
}

func tsuccs(fn *ssa.Function) [][]tEdge {
	if t, ok := threadCache[fn]; ok {
		return t
	}
	out := make([][]tEdge, len(fn.Blocks))
	for _, p := range fn.Blocks {
		var base []tEdge
		var ifi *ssa.If
		if len(p.Instrs) > 0 {
			ifi, _ = p.Instrs[len(p.Instrs)-1].(*ssa.If)
		}
		if ifi != nil && len(p.Succs) == 2 && p.Succs[0] != p.Succs[1] {
			base = []tEdge{{p.Succs[0].Index, ifi.Cond, true, ifi}, {p.Succs[1].Index, ifi.Cond, false, ifi}}
		} else {
			for _, sc := range p.Succs {
				base = append(base, tEdge{to: sc.Index})
			}
		}
		var edges []tEdge
		for _, e := range base {
			cur := e
			from := p
			for hop := 0; hop < 4; hop++ {
				sb := fn.Blocks[cur.to]
				ph, jif := scJoin(sb)
				if ph == nil {
					break
				}
				k, n := -1, 0
				for i, pr := range sb.Preds {
					if pr == from {
						k, n = i, n+1
					}
				}
				if n != 1 || from != p {
					break
				}
				ev := ph.Edges[k]
				if c, isK := ev.(*ssa.Const); isK && c.Value != nil && c.Value.Kind() == constant.Bool {
					if constant.BoolVal(c.Value) {
						cur.to = sb.Succs[0].Index
					} else {
						cur.to = sb.Succs[1].Index
					}
					break
				}
				if cur.cond == nil {
					edges = append(edges, tEdge{sb.Succs[0].Index, ev, true, jif}, tEdge{sb.Succs[1].Index, ev, false, jif})
					cur.to = -1
				}
				break
			}
			if cur.to >= 0 {
				edges = append(edges, cur)
			}
		}
		out[p.Index] = edges
	}
	threadCache[fn] = out
	return out
}

// Reach computes the blocks reachable from block `from` in fn's (jump-threaded)
// CFG with the given edges removed. prev gives a BFS tree for witnesses.
func Reach(fn *ssa.Function, from *ssa.BasicBlock, cut map[Edge]bool) (seen map[int]bool, prev map[int]int) {
	seen = map[int]bool{from.Index: true}
	prev = map[int]int{}
	ts := tsuccs(fn)
	q := []int{from.Index}
	for len(q) > 0 {
		b := q[0]
		q = q[1:]
		for _, e := range ts[b] {
			if cut[Edge{b, e.to}] || seen[e.to] {
				continue
			}
			seen[e.to] = true
			prev[e.to] = b
			q = append(q, e.to)
		}
	}
	return
}

// PathTo renders the BFS path entry..target as block indices with the source
// line of each block's first positioned instruction.
func PathTo(fn *ssa.Function, prev map[int]int, from, target int, pos func(token.Pos) string) string {
	var path []int
	for cur := target; ; {
		path = append(path, cur)
		if cur == from {
			break
		}
		p, ok := prev[cur]
		if !ok {
			break
		}
		cur = p
	}
	var sb []string
	for i := len(path) - 1; i >= 0; i-- {
		b := fn.Blocks[path[i]]
		sb = append(sb, fmt.Sprintf("b%d(%s)", b.Index, pos(BlockPos(b))))
	}
	return strings.Join(sb, "->")
}

// constOfValue folds a value to a constant if it is one, or a phi all of whose
// incoming values (ignoring references to itself) fold to the same constant.
func constOfValue(v ssa.Value, seen map[ssa.Value]bool) (*ssa.Const, bool) {
	switch x := v.(type) {
	case *ssa.Const:
		return x, true
	case *ssa.Phi:
		if seen[x] {
			return nil, false
		}
		seen[x] = true
		var out *ssa.Const
		for _, e := range x.Edges {
			if e == ssa.Value(x) {
				continue
			}
			if p, isPhi := e.(*ssa.Phi); isPhi && seen[p] {
				continue
			}
			k, ok := constOfValue(e, seen)
			if !ok {
				return nil, false
			}
			if out != nil && !sameConst(out, k) {
				return nil, false
			}
			out = k
		}
		return out, out != nil
	}
	return nil, false
}

func sameConst(a, b *ssa.Const) bool {
	if a.Value == nil || b.Value == nil {
		return a.Value == nil && b.Value == nil
	}
	return constant.Compare(a.Value, token.EQL, b.Value)
}

// condOutcomeFor: the outcome of branch condition cond when phi ph carries
// the constant k (known=false if the condition does not test ph against a constant).
func condOutcomeFor(cond ssa.Value, ph *ssa.Phi, k *ssa.Const) (outcome, known bool) {
	core, neg := Peel(cond)
	if core == ssa.Value(ph) {
		if k.Value != nil && k.Value.Kind() == constant.Bool {
			return constant.BoolVal(k.Value) != neg, true
		}
		return false, false
	}
	b, ok := core.(*ssa.BinOp)
	if !ok || (b.Op != token.EQL && b.Op != token.NEQ) {
		return false, false
	}
	var other ssa.Value
	switch {
	case b.X == ssa.Value(ph):
		other = b.Y
	case b.Y == ssa.Value(ph):
		other = b.X
	default:
		return false, false
	}
	oc, isK := other.(*ssa.Const)
	if !isK {
		return false, false
	}
	eq := sameConst(oc, k)
	res := eq == (b.Op == token.EQL)
	return res != neg, true
}

// ReachF is Reach with one piece of path sensitivity: a flag variable. When a
// block is entered through the predecessor on which a phi of that block carries
// a constant (false, nil, a number), a later branch that tests the phi against
// a constant can only be left through the matching successor. The knowledge is
// kept along chains of single-predecessor blocks. Every path it removes is
// infeasible, so it can replace Reach wherever fewer paths is the safe side.
func ReachF(fn *ssa.Function, from *ssa.BasicBlock, cut map[Edge]bool) (seen map[int]bool, prev map[int]int) {
	return ReachFN(fn, from, -1, cut, nil)
}

// ReachFN is ReachF started on the edge fromPred -> from (fromPred < 0: no
// particular edge), with a set of values known to be non-nil: a phi that
// carries one of them on the entering edge cannot compare equal to nil.
func ReachFN(fn *ssa.Function, from *ssa.BasicBlock, fromPred int, cut map[Edge]bool, nonNil map[ssa.Value]bool) (seen map[int]bool, prev map[int]int) {
	return ReachFE(fn, from, fromPred, cut, func(v ssa.Value, pred, blk *ssa.BasicBlock) bool { return nonNil[v] })
}

// ReachFE is ReachFN with the non-nil knowledge given per edge: nonNilOn(v,
// pred, blk) says that v cannot be nil when control passes from pred to blk.
func ReachFE(fn *ssa.Function, from *ssa.BasicBlock, fromPred int, cut map[Edge]bool, nonNilOn func(v ssa.Value, pred, blk *ssa.BasicBlock) bool) (seen map[int]bool, prev map[int]int) {
	type state struct{ b, ob, op int }
	seen = map[int]bool{from.Index: true}
	prev = map[int]int{}
	done := map[state]bool{}
	ts := tsuccs(fn)
	start := state{from.Index, from.Index, -1}
	for k, p := range from.Preds {
		if p.Index == fromPred {
			start.op = k
		}
	}
	done[start] = true
	q := []state{start}
	for len(q) > 0 {
		st := q[0]
		q = q[1:]
		b := fn.Blocks[st.b]
		for _, e := range ts[st.b] {
			s := fn.Blocks[e.to]
			if cut[Edge{b.Index, s.Index}] {
				continue
			}
			if e.cond != nil && st.op >= 0 {
				infeasible := false
				ob := fn.Blocks[st.ob]
				for _, in := range ob.Instrs {
					ph, isPhi := in.(*ssa.Phi)
					if !isPhi {
						break
					}
					if st.op >= len(ph.Edges) {
						continue
					}
					if st.op < len(ob.Preds) && nonNilOn(ph.Edges[st.op], ob.Preds[st.op], ob) {
						if v, nilWhenTrue, isNC := NilCheck(e.cond); isNC && v == ssa.Value(ph) && e.truth == nilWhenTrue {
							infeasible = true
						}
						continue
					}
					k, isK := constOfValue(ph.Edges[st.op], map[ssa.Value]bool{})
					if !isK {
						continue
					}
					if outcome, known := condOutcomeFor(e.cond, ph, k); known && outcome != e.truth {
						infeasible = true
					}
				}
				if infeasible {
					continue
				}
			}
			ns := state{s.Index, st.ob, st.op}
			if len(s.Preds) != 1 || s.Preds[0] != b {
				pi := -1
				for k, p := range s.Preds {
					if p == b {
						pi = k
					}
				}
				ns = state{s.Index, s.Index, pi}
			}
			if done[ns] {
				continue
			}
			done[ns] = true
			if !seen[s.Index] {
				seen[s.Index] = true
				prev[s.Index] = b.Index
			}
			q = append(q, ns)
		}
	}
	return seen, prev
}

// BlockPos returns the first valid position in a block.
func BlockPos(b *ssa.BasicBlock) token.Pos {
	for _, i := range b.Instrs {
		if i.Pos().IsValid() {
			return i.Pos()
		}
	}
	return token.NoPos
}

// InstrPos returns the position of an instruction, falling back to operands
// and then to the enclosing block (go/ssa leaves many instructions NoPos).
func InstrPos(i ssa.Instruction) token.Pos {
	if i.Pos().IsValid() {
		return i.Pos()
	}
	if v, ok := i.(ssa.Value); ok {
		_ = v
	}
	for _, op := range i.Operands(nil) {
		if *op != nil && (*op).Pos().IsValid() {
			return (*op).Pos()
		}
	}
	if i.Block() != nil {
		if p := BlockPos(i.Block()); p.IsValid() {
			return p
		}
		if i.Parent() != nil {
			return i.Parent().Pos()
		}
	}
	return token.NoPos
}

// EdgeDominates reports whether every entry->target path uses edge e.
func EdgeDominates(fn *ssa.Function, e Edge, target *ssa.BasicBlock) bool {
	if len(fn.Blocks) == 0 {
		return false
	}
	seen, _ := Reach(fn, fn.Blocks[0], map[Edge]bool{e: true})
	return !seen[target.Index]
}

// CondEdge is one outgoing edge of an If with the (peeled) condition and the
// truth value the condition has on that edge.
type CondEdge struct {
	Edge  Edge
	If    *ssa.If
	Cond  ssa.Value // peeled core condition
	Truth bool      // value of Cond on this edge
	// RawCond/RawTruth: the condition as written (not peeled) and its value on
	// this edge; for edges of the jump-threaded view this is the operand the
	// edge depends on, not the phi the If instruction tests.
	RawCond  ssa.Value
	RawTruth bool
}

// Peel strips negations and comparisons with boolean constants.
func Peel(v ssa.Value) (ssa.Value, bool) {
	neg := false
	for {
		switch x := v.(type) {
		case *ssa.UnOp:
			if x.Op == token.NOT {
				neg = !neg
				v = x.X
				continue
			}
		case *ssa.BinOp:
			if x.Op == token.EQL || x.Op == token.NEQ {
				if c, ok := x.Y.(*ssa.Const); ok && c.Value != nil && c.Value.Kind() == constant.Bool {
					b := constant.BoolVal(c.Value)
					if (x.Op == token.EQL) != b {
						neg = !neg
					}
					v = x.X
					continue
				}
				if c, ok := x.X.(*ssa.Const); ok && c.Value != nil && c.Value.Kind() == constant.Bool {
					b := constant.BoolVal(c.Value)
					if (x.Op == token.EQL) != b {
						neg = !neg
					}
					v = x.Y
					continue
				}
			}
		}
		return v, neg
	}
}

// CondEdges lists all conditional edges of fn. Conditions that are phis of
// short-circuit operators (a && b, a || b) are expanded: go/ssa lowers them to
// control flow, so each If already tests one atom.
func CondEdges(fn *ssa.Function) []CondEdge {
	var out []CondEdge
	ts := tsuccs(fn)
	for _, b := range fn.Blocks {
		for _, e := range ts[b.Index] {
			if e.cond == nil {
				continue
			}
			core, neg := Peel(e.cond)
			out = append(out, CondEdge{Edge{b.Index, e.to}, e.ifi, core, e.truth != neg, e.cond, e.truth})
		}
	}
	return out
}

// DominatingConds returns the conditional edges that dominate block target.
func DominatingConds(fn *ssa.Function, target *ssa.BasicBlock) []CondEdge {
	var out []CondEdge
	all := CondEdges(fn)
	for _, ce := range all {
		if ce.Edge.From == ce.Edge.To {
			continue
		}
		// both outcomes lead to the same block => the edge carries no information
		same := false
		for _, o := range all {
			if o.Edge == ce.Edge && o.Cond == ce.Cond && o.Truth != ce.Truth {
				same = true
			}
		}
		if same {
			continue
		}
		if EdgeDominates(fn, ce.Edge, target) {
			out = append(out, ce)
		}
	}
	return out
}

// Returns lists the Return instructions of fn.
func Returns(fn *ssa.Function) []*ssa.Return {
	var out []*ssa.Return
	for _, b := range fn.Blocks {
		for _, i := range b.Instrs {
			if r, ok := i.(*ssa.Return); ok {
				out = append(out, r)
			}
		}
	}
	return out
}

// IsNilConst reports whether v is the nil constant.
func IsNilConst(v ssa.Value) bool {
	c, ok := v.(*ssa.Const)
	return ok && c.Value == nil
}

// NilCheck decodes cond as a nil comparison of some value: returns the value
// and whether cond==true means "value is nil".
func NilCheck(cond ssa.Value) (v ssa.Value, nilWhenTrue bool, ok bool) {
	core, neg := Peel(cond)
	b, isb := core.(*ssa.BinOp)
	if !isb || (b.Op != token.EQL && b.Op != token.NEQ) {
		return nil, false, false
	}
	var other ssa.Value
	switch {
	case IsNilConst(b.Y):
		other = b.X
	case IsNilConst(b.X):
		other = b.Y
	default:
		return nil, false, false
	}
	nw := b.Op == token.EQL
	if neg {
		nw = !nw
	}
	return other, nw, true
}

// ConstInt returns the integer value of v if it is an integer constant.
func ConstInt(v ssa.Value) (int64, bool) {
	c, ok := v.(*ssa.Const)
	if !ok || c.Value == nil {
		return 0, false
	}
	if c.Value.Kind() != constant.Int {
		return 0, false
	}
	n, exact := constant.Int64Val(c.Value)
	if !exact {
		u, ok2 := constant.Uint64Val(c.Value)
		if ok2 {
			return int64(u), true
		}
		return 0, false
	}
	return n, true
}

// StripConv removes integer conversions and ChangeType wrappers.
func StripConv(v ssa.Value) ssa.Value {
	for {
		switch x := v.(type) {
		case *ssa.Convert:
			v = x.X
		case *ssa.ChangeType:
			v = x.X
		default:
			return v
		}
	}
}

// ---------------------------------------------------------------- access paths

// AccessPath gives a position-free identity to a value read from memory so
// that two loads of the same location compare equal (go/ssa has no CSE).
// Values without a stable path get a unique name based on the SSA register.
func AccessPath(v ssa.Value) string {
	v = StripConv(v)
	switch x := v.(type) {
	case *ssa.UnOp:
		if x.Op == token.MUL {
			return "*" + addrPath(x.X)
		}
	case *ssa.Field:
		return AccessPath(x.X) + "." + fieldName(x.X.Type(), x.Field)
	case *ssa.Parameter:
		return "param:" + x.Name()
	case *ssa.FreeVar:
		return "free:" + x.Name()
	case *ssa.Global:
		return "global:" + x.String()
	case *ssa.Const:
		return "const:" + x.String()
	case *ssa.Extract:
		return fmt.Sprintf("%s#%d", regName(x.Tuple), x.Index)
	}
	return regName(v)
}

// AddrPath is the access path of an address value (exported for substitution
// of callee parameters by caller arguments).
func AddrPath(a ssa.Value) string { return addrPath(a) }

func regName(v ssa.Value) string {
	fn := ""
	if v.Parent() != nil {
		fn = v.Parent().Name()
	}
	return fmt.Sprintf("%s/%s", fn, v.Name())
}

func addrPath(a ssa.Value) string {
	switch x := a.(type) {
	case *ssa.FieldAddr:
		return addrPath(x.X) + "." + fieldName(x.X.Type(), x.Field)
	case *ssa.IndexAddr:
		if c, ok := ConstInt(x.Index); ok {
			return fmt.Sprintf("%s[%d]", addrPath(x.X), c)
		}
		return addrPath(x.X) + "[" + AccessPath(x.Index) + "]"
	case *ssa.Alloc:
		return "alloc:" + regName(x)
	case *ssa.Parameter:
		return "param:" + x.Name()
	case *ssa.FreeVar:
		return "free:" + x.Name()
	case *ssa.Global:
		return "global:" + x.String()
	case *ssa.UnOp:
		if x.Op == token.MUL {
			return "(*" + addrPath(x.X) + ")"
		}
	case *ssa.ChangeType:
		return addrPath(x.X)
	case *ssa.Convert:
		return addrPath(x.X)
	}
	return regName(a)
}

func fieldName(t types.Type, idx int) string {
	if p, ok := t.Underlying().(*types.Pointer); ok {
		t = p.Elem()
	}
	if s, ok := t.Underlying().(*types.Struct); ok && idx < s.NumFields() {
		return s.Field(idx).Name()
	}
	return fmt.Sprintf("f%d", idx)
}

// FieldOf returns the struct field object an address or value selects, or nil.
func FieldOf(v ssa.Value) *types.Var {
	switch x := v.(type) {
	case *ssa.FieldAddr:
		return structField(x.X.Type(), x.Field)
	case *ssa.Field:
		return structField(x.X.Type(), x.Field)
	case *ssa.UnOp:
		if x.Op == token.MUL {
			return FieldOf(x.X)
		}
	}
	return nil
}

func structField(t types.Type, idx int) *types.Var {
	if p, ok := t.Underlying().(*types.Pointer); ok {
		t = p.Elem()
	}
	if s, ok := t.Underlying().(*types.Struct); ok && idx < s.NumFields() {
		return s.Field(idx)
	}
	return nil
}

// FieldID renders a field as "pkg.Type.Field" given the struct's named type.
func FieldID(v ssa.Value) string {
	var base ssa.Value
	var idx int
	switch x := v.(type) {
	case *ssa.FieldAddr:
		base, idx = x.X, x.Field
	case *ssa.Field:
		base, idx = x.X, x.Field
	case *ssa.UnOp:
		if x.Op == token.MUL {
			return FieldID(x.X)
		}
		return ""
	default:
		return ""
	}
	t := base.Type()
	if p, ok := t.Underlying().(*types.Pointer); ok {
		t = p.Elem()
	}
	name := t.String()
	if n, ok := t.(*types.Named); ok {
		name = n.Obj().Name()
		if n.Obj().Pkg() != nil {
			name = n.Obj().Pkg().Path() + "." + name
		}
	}
	return name + "." + fieldName(base.Type(), idx)
}

// SortedKeys returns the sorted keys of a string-keyed bool map.
func SortedKeys(m map[string]bool) []string {
	out := make([]string, 0, len(m))
	for k := range m {
		out = append(out, k)
	}
	sort.Strings(out)
	return out
}

// TypeString renders a type with package paths.
func TypeString(t types.Type) string {
	return types.TypeString(t, func(p *types.Package) string { return p.Path() })
}

// NamedTypeID returns "pkgpath.Name" for (pointers to) named types.
func NamedTypeID(t types.Type) string {
	if p, ok := t.(*types.Pointer); ok {
		t = p.Elem()
	}
	if n, ok := t.(*types.Named); ok {
		if n.Obj().Pkg() != nil {
			return n.Obj().Pkg().Path() + "." + n.Obj().Name()
		}
		return n.Obj().Name()
	}
	return ""
}
