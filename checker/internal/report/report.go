// Package report collects rule obligations, matches violations against the
// committed known-findings file and writes the evidence JSON.
package report

import (
	"bufio"
	"encoding/json"
	"fmt"
	"os"
	"path/filepath"
	"sort"
	"strings"
	"time"
)

type Status string

const (
	OK        Status = "ok"
	Violation Status = "violation"
	Undecided Status = "undecided"
	Info      Status = "info" // listed in evidence, not an obligation (e.g. WRITER sites)
)

// Obligation is one rule instance: a construct of the analysed program and the
// verdict of the rule on it.
type Obligation struct {
	Rule    string `json:"rule"`
	Key     string `json:"key"` // rule@func:construct — position free
	Func    string `json:"func"`
	Pos     string `json:"pos"`
	What    string `json:"what"`
	Status  Status `json:"status"`
	Detail  string `json:"detail,omitempty"`
	Trivial bool   `json:"trivial,omitempty"`
	Config  string `json:"config,omitempty"`
	Known   bool   `json:"known_finding,omitempty"`
	// Hard: the violation does not depend on how the code expresses the check
	// (e.g. the subject is never read on the offending path): never softened
	Hard bool `json:"-"`
}

type Run struct {
	Property    string
	Tier        string
	Seed        int64
	VerifDir    string
	Start       time.Time
	Obls        []Obligation
	floors      map[string]int
	Explanation string
	Decided     []string
	NotDecided  []string
	Assumptions []string
	Trusted     []string
	Configs     []string
	Funcs       map[string]bool
	CallSites   int
	Packages    []string
	Extra       map[string]interface{}
	CheckerCmd  string
	curConfig   string
	Verbose     bool
	// Soften (optional): for a function and rule, a reason why a violation there is
	// not decided ("" = decided)
	Soften func(fn, rule string) string
}

func NewRun(property, tier string, seed int64, verifDir string) *Run {
	return &Run{Property: property, Tier: tier, Seed: seed, VerifDir: verifDir, Start: time.Now(),
		floors: map[string]int{}, Funcs: map[string]bool{}, Extra: map[string]interface{}{}}
}

func (r *Run) SetConfig(c string) {
	r.curConfig = c
	for _, x := range r.Configs {
		if x == c {
			return
		}
	}
	r.Configs = append(r.Configs, c)
}

// Floor declares the minimum number of instances rule must have examined (per
// configuration); fewer means the rule went vacuous => UNDECIDED.
func (r *Run) Floor(rule string, n int) {
	if n > r.floors[rule] {
		r.floors[rule] = n
	}
}

func (r *Run) Add(o Obligation) {
	// a violation reported on a function whose code uses constructs the evaluators do
	// not model is recorded as "not decided" (with the construct named): the rule
	// could not follow the code, which is not evidence that the code is wrong
	if (o.Status == Violation || o.Status == Undecided && o.Func != "" && o.Func != "-" && !strings.HasSuffix(o.Key, ":anchor") && !strings.HasSuffix(o.Key, ":floor")) && r.Soften != nil && !o.Hard {
		if why := r.Soften(o.Func, o.Rule); why != "" {
			o.Status = Info
			o.What = "not decided for this shape: " + o.What + " — " + why + " [the rule reported: " + o.Detail + "]"
			o.Detail = ""
		}
	}
	o.Config = r.curConfig
	if o.Key == "" {
		o.Key = o.Rule + "@" + o.Func
	}
	r.Obls = append(r.Obls, o)
	if o.Func != "" {
		r.Funcs[o.Func] = true
	}
}

func (r *Run) Okf(rule, fn, construct, pos, what string) {
	r.Add(Obligation{Rule: rule, Key: rule + "@" + fn + ":" + construct, Func: fn, Pos: pos, What: what, Status: OK})
}
func (r *Run) Violf(rule, fn, construct, pos, what, detail string) {
	r.Add(Obligation{Rule: rule, Key: rule + "@" + fn + ":" + construct, Func: fn, Pos: pos, What: what, Status: Violation, Detail: detail})
}
func (r *Run) Undecf(rule, fn, construct, pos, what, detail string) {
	r.Add(Obligation{Rule: rule, Key: rule + "@" + fn + ":" + construct, Func: fn, Pos: pos, What: what, Status: Undecided, Detail: detail})
}
func (r *Run) Infof(rule, fn, construct, pos, what string) {
	r.Add(Obligation{Rule: rule, Key: rule + "@" + fn + ":" + construct, Func: fn, Pos: pos, What: what, Status: Info})
}

// Check records ok when cond holds, a violation otherwise.
func (r *Run) Check(cond bool, rule, fn, construct, pos, what, detail string) bool {
	if cond {
		r.Okf(rule, fn, construct, pos, what)
	} else {
		r.Violf(rule, fn, construct, pos, what, detail)
	}
	return cond
}

type knownEntry struct {
	kind, property, key, text string
}

func loadKnown(path string) ([]knownEntry, error) {
	f, err := os.Open(path)
	if err != nil {
		if os.IsNotExist(err) {
			return nil, nil
		}
		return nil, err
	}
	defer f.Close()
	var out []knownEntry
	sc := bufio.NewScanner(f)
	for sc.Scan() {
		line := strings.TrimSpace(sc.Text())
		if line == "" || strings.HasPrefix(line, "#") {
			continue
		}
		var e knownEntry
		switch {
		case strings.HasPrefix(line, "known:"):
			e.kind = "known"
			line = strings.TrimSpace(strings.TrimPrefix(line, "known:"))
		case strings.HasPrefix(line, "fixed:"):
			e.kind = "fixed"
			line = strings.TrimSpace(strings.TrimPrefix(line, "fixed:"))
		default:
			return nil, fmt.Errorf("KNOWN_FINDINGS: cannot parse line %q", line)
		}
		fields := strings.Fields(line)
		rest := []string{}
		for _, fl := range fields {
			switch {
			case strings.HasPrefix(fl, "property=") && e.property == "":
				e.property = strings.TrimPrefix(fl, "property=")
			case strings.HasPrefix(fl, "key=") && e.key == "":
				e.key = strings.TrimPrefix(fl, "key=")
			default:
				rest = append(rest, fl)
			}
		}
		e.text = strings.Join(rest, " ")
		out = append(out, e)
	}
	return out, sc.Err()
}

type ruleCount struct {
	Count int `json:"count"`
	Floor int `json:"floor"`
	OK    int `json:"ok"`
	Viol  int `json:"violations"`
	Undec int `json:"undecided"`
	Info  int `json:"info"`
}

// Finish prints the verdict lines, writes evidence (and the violation replay
// file) and returns the process exit code.
func (r *Run) Finish() int {
	// floors: per configuration
	perCfg := map[string]map[string]int{}
	for _, o := range r.Obls {
		if perCfg[o.Config] == nil {
			perCfg[o.Config] = map[string]int{}
		}
		perCfg[o.Config][o.Rule]++
	}
	cfgs := r.Configs
	if len(cfgs) == 0 {
		cfgs = []string{""}
	}
	for _, c := range cfgs {
		for rule, fl := range r.floors {
			if perCfg[c][rule] < fl {
				r.curConfig = c
				r.Undecf(rule, "-", "floor", "-", fmt.Sprintf("rule %s must examine at least %d instances", rule, fl),
					fmt.Sprintf("only %d instance(s) matched in configuration %q: anchors moved or rule went vacuous", perCfg[c][rule], c))
			}
		}
	}

	known, kerr := loadKnown(filepath.Join(r.VerifDir, "KNOWN_FINDINGS.txt"))
	if kerr != nil {
		r.Undecf("report", "-", "known-findings", "-", "known findings file must parse", kerr.Error())
	}
	knownKeys := map[string]string{}
	for _, k := range known {
		if k.kind == "known" && k.property == r.Property {
			knownKeys[k.key] = k.text
		}
	}

	sort.SliceStable(r.Obls, func(i, j int) bool {
		a, b := r.Obls[i], r.Obls[j]
		if a.Rule != b.Rule {
			return a.Rule < b.Rule
		}
		if a.Key != b.Key {
			return a.Key < b.Key
		}
		return a.Config < b.Config
	})

	rules := map[string]*ruleCount{}
	var viol, undec, knownHit []Obligation
	seenKnown := map[string]bool{}
	obligations, discharged, nontrivial := 0, 0, 0
	distinct := map[string]bool{}
	for i := range r.Obls {
		o := &r.Obls[i]
		rc := rules[o.Rule]
		if rc == nil {
			rc = &ruleCount{Floor: r.floors[o.Rule]}
			rules[o.Rule] = rc
		}
		switch o.Status {
		case Info:
			rc.Info++
			continue
		case OK:
			rc.OK++
			discharged++
		case Violation:
			if _, ok := knownKeys[o.Key]; ok {
				o.Known = true
				if !seenKnown[o.Key] {
					seenKnown[o.Key] = true
					knownHit = append(knownHit, *o)
				}
			} else {
				viol = append(viol, *o)
			}
			rc.Viol++
		case Undecided:
			rc.Undec++
			undec = append(undec, *o)
		}
		rc.Count++
		obligations++
		if !o.Trivial && !distinct[o.Key] {
			distinct[o.Key] = true
			nontrivial++
		}
	}

	if r.Verbose {
		for _, o := range r.Obls {
			fmt.Printf("  [%s] %-9s %s  %s  %s %s\n", o.Rule, o.Status, o.Key, o.Pos, o.What, o.Detail)
		}
	}
	for _, o := range knownHit {
		fmt.Printf("KNOWN-FINDING: property=%s %s [%s] %s\n", r.Property, knownKeys[o.Key], o.Key, o.Pos)
	}
	exit := 0
	replay := filepath.Join(r.VerifDir, "evidence", "violations", r.Property+".json")
	if len(viol)+len(undec) > 0 {
		exit = 1
		os.MkdirAll(filepath.Dir(replay), 0o755)
		b, _ := json.MarshalIndent(map[string]interface{}{"property": r.Property, "violations": viol, "undecided": undec}, "", " ")
		os.WriteFile(replay, b, 0o644)
		fmt.Printf("VIOLATION property=%s replay=%s\n", r.Property, replay)
		seen := map[string]bool{}
		for _, o := range viol {
			if seen[o.Key] {
				continue
			}
			seen[o.Key] = true
			fmt.Printf("  %s  %s  [%s]  %s -- %s  key=%s\n", o.Pos, o.Func, o.Rule, o.What, o.Detail, o.Key)
		}
		for _, o := range undec {
			if seen[o.Key+o.Config] {
				continue
			}
			seen[o.Key+o.Config] = true
			fmt.Printf("  UNDECIDED %s  %s  [%s]  %s -- %s  key=%s\n", o.Pos, o.Func, o.Rule, o.What, o.Detail, o.Key)
		}
	} else {
		os.Remove(replay)
	}

	// samples: a spread of actual obligations (all violations/known, first of each rule)
	var samples []Obligation
	perRule := map[string]int{}
	for _, o := range r.Obls {
		if o.Status == Violation || o.Status == Undecided {
			samples = append(samples, o)
			continue
		}
		if perRule[o.Rule] < 4 {
			perRule[o.Rule]++
			samples = append(samples, o)
		}
	}
	if len(samples) > 120 {
		samples = samples[:120]
	}
	funcs := make([]string, 0, len(r.Funcs))
	for f := range r.Funcs {
		funcs = append(funcs, f)
	}
	sort.Strings(funcs)
	expl := r.Explanation
	if len(r.Decided) > 0 {
		expl += " DECIDED: " + strings.Join(r.Decided, "; ") + "."
	}
	if len(r.NotDecided) > 0 {
		expl += " NOT DECIDED (left to other techniques): " + strings.Join(r.NotDecided, "; ") + "."
	}
	cov := map[string]interface{}{
		"explanation":         expl,
		"obligations":         obligations,
		"discharged":          discharged,
		"evaluations":         len(r.Obls),
		"distinct_nontrivial": nontrivial,
		"rule":                "one case = one rule instance (rule, construct of the analysed program); distinct = distinct position-free key rule@func:construct; non-trivial = the rule had to analyse control or data flow to decide it (constant-only instances are marked trivial and not counted)",
		"samples":             samples,
		"checker_cmd":         r.CheckerCmd,
		"trusted_base":        r.Trusted,
		"rule_instances":      rules,
		"functions_analysed":  funcs,
		"functions_count":     len(funcs),
		"call_sites":          r.CallSites,
		"packages":            r.Packages,
		"configs":             r.Configs,
		"known_findings":      knownHit,
		"exhaustive":          true,
	}
	for k, v := range r.Extra {
		cov[k] = v
	}
	ev := map[string]interface{}{
		"property_id": r.Property,
		"tier":        r.Tier,
		"seed":        r.Seed,
		"level":       "other",
		"coverage":    cov,
		"assumptions": r.Assumptions,
		"wall_s":      time.Since(r.Start).Seconds(),
		"violations":  len(viol) + len(undec),
	}
	os.MkdirAll(filepath.Join(r.VerifDir, "evidence"), 0o755)
	b, err := json.MarshalIndent(ev, "", " ")
	if err != nil {
		fmt.Printf("VIOLATION property=%s replay=%s\n  cannot encode evidence: %v\n", r.Property, replay, err)
		return 1
	}
	if err := os.WriteFile(filepath.Join(r.VerifDir, "evidence", r.Property+".json"), b, 0o644); err != nil {
		fmt.Printf("VIOLATION property=%s replay=%s\n  cannot write evidence: %v\n", r.Property, replay, err)
		return 1
	}
	fmt.Printf("property=%s tier=%s obligations=%d discharged=%d violations=%d undecided=%d known=%d wall=%.1fs\n",
		r.Property, r.Tier, obligations, discharged, len(viol), len(undec), len(knownHit), time.Since(r.Start).Seconds())
	return exit
}
