// vcheck decides structural necessary conditions of the go-uefi properties by
// static analysis of the repository's current source (types, SSA, call graph).
package main

import (
	"flag"
	"fmt"
	"os"
	"runtime"
	"runtime/debug"
	"sort"
	"strconv"
	"strings"

	"verif/checker/internal/load"
	"verif/checker/internal/report"
	"verif/checker/internal/rules"
)

func main() {
	prop := flag.String("property", "", "property id (C01..C19)")
	tier := flag.String("tier", "quick", "quick|thorough")
	repo := flag.String("repo", "/repo", "repository root to analyse")
	verif := flag.String("verif", "/verif", "verification directory (evidence, known findings)")
	list := flag.Bool("list", false, "list claimed properties")
	verbose := flag.Bool("v", false, "print every obligation")
	explain := flag.String("explain", "", "violations file: re-run and print all obligations")
	flag.Parse()
	if *list {
		var ids []string
		for id := range rules.Registry {
			ids = append(ids, id)
		}
		sort.Strings(ids)
		fmt.Println(strings.Join(ids, " "))
		return
	}
	if t := os.Getenv("VERIF_TIER"); t != "" && !isFlagSet("tier") {
		*tier = t
	}
	if *prop == "ALL" {
		os.Exit(runAll(*tier, *repo, *verif))
	}
	_, ok := rules.Registry[*prop]
	if !ok {
		fmt.Fprintf(os.Stderr, "unknown property %q\n", *prop)
		os.Exit(2)
	}
	seed, _ := strconv.ParseInt(os.Getenv("VERIF_SEED"), 10, 64)
	run := report.NewRun(*prop, *tier, seed, *verif)
	run.Verbose = *verbose || *explain != ""
	run.CheckerCmd = "bin/vcheck " + strings.Join(os.Args[1:], " ")
	run.Trusted = []string{
		"go/types type checker and go/ssa construction (golang.org/x/tools v0.29.0)",
		"VTA call graph seeded with CHA (sound for the loaded program modulo reflect/unsafe/cgo, none of which the library uses for control flow)",
		"documented semantics of the stdlib / x/crypto / afero functions named in the rule tables",
	}
	if m, ok := rules.Metas[*prop]; ok {
		run.Explanation, run.Decided, run.NotDecided, run.Assumptions = m.Explanation, m.Decided, m.NotDecided, m.Assumptions
	}

	configs := []load.Config{{Dir: *repo, GOOS: "linux", GOARCH: "amd64"}}
	depth := 3
	if *tier == "thorough" {
		depth = 6
		configs = nil
		for _, tags := range [][]string{nil, {"verif"}} {
			for _, oa := range [][2]string{{"linux", "amd64"}, {"linux", "386"}, {"linux", "arm64"}, {"darwin", "arm64"}} {
				configs = append(configs, load.Config{Dir: *repo, GOOS: oa[0], GOARCH: oa[1], Tags: tags})
			}
		}
	}
	func() {
		defer func() {
			if e := recover(); e != nil {
				run.Undecf("checker", "-", "panic", "-", "the analyser must not fail", fmt.Sprintf("panic: %v\n%s", e, debug.Stack()))
			}
		}()
		for _, cfg := range configs {
			run.SetConfig(cfg.String())
			p, err := load.Load(cfg)
			if err != nil {
				run.Undecf("load", "-", "load", "-", "the repository must load and type-check", err.Error())
				continue
			}
			var pk []string
			for path := range p.Lib {
				pk = append(pk, path)
			}
			sort.Strings(pk)
			run.Packages = pk
			run.Extra["client_packages_not_judged"] = p.Clients
			ctx := &rules.Ctx{P: p, R: run, Tier: *tier, Depth: depth}
			ctx.InstallSoften()
			rules.RunCheck(*prop, ctx)
			p = nil
			ctx = nil
			runtime.GC()
			debug.FreeOSMemory()
		}
	}()
	os.Exit(run.Finish())
}

func isFlagSet(name string) bool {
	set := false
	flag.Visit(func(f *flag.Flag) {
		if f.Name == name {
			set = true
		}
	})
	return set
}

// runAll loads the default configuration once and runs every registered
// property check on it (development aid for matrix runs; evidence files are
// written per property exactly as in single runs).
func runAll(tier, repo, verif string) int {
	p, err := load.Load(load.Config{Dir: repo, GOOS: "linux", GOARCH: "amd64"})
	if err != nil {
		fmt.Println("load failed:", err)
		return 1
	}
	var ids []string
	for id := range rules.Registry {
		if id != "DBG" {
			ids = append(ids, id)
		}
	}
	sort.Strings(ids)
	rc := 0
	for _, id := range ids {
		run := report.NewRun(id, tier, 0, verif)
		run.CheckerCmd = "bin/vcheck -property ALL"
		if m, ok := rules.Metas[id]; ok {
			run.Explanation, run.Decided, run.NotDecided, run.Assumptions = m.Explanation, m.Decided, m.NotDecided, m.Assumptions
		}
		run.SetConfig("linux/amd64 tags=-")
		func() {
			defer func() {
				if e := recover(); e != nil {
					run.Undecf("checker", "-", "panic", "-", "the analyser must not fail", fmt.Sprintf("panic: %v\n%s", e, debug.Stack()))
				}
			}()
			cx := &rules.Ctx{P: p, R: run, Tier: tier, Depth: 3}
			cx.InstallSoften()
			rules.RunCheck(id, cx)
		}()
		if run.Finish() != 0 {
			rc = 1
		}
	}
	return rc
}
