// place in: pkcs7/c05_13_demo_test.go
package pkcs7

// Demonstration for C05-13: the signature must be over exactly the SET OF
// attributes that is embedded in the SignerInfo. An independent verifier
// (encoding/asn1 + crypto/rsa only, and `openssl smime -verify` for the
// detached case when openssl is installed) checks signatures made for content
// types with short and with long OIDs.

import (
	"bytes"
	"crypto"
	"crypto/rand"
	"crypto/rsa"
	"crypto/sha256"
	"crypto/x509"
	"crypto/x509/pkix"
	encasn1 "encoding/asn1"
	"errors"
	"fmt"
	"math/big"
	"os"
	"os/exec"
	"path/filepath"
	"testing"
	"time"
)

type c13ContentInfo struct {
	ContentType encasn1.ObjectIdentifier
	Content     encasn1.RawValue `asn1:"explicit,optional,tag:0"`
}

type c13IssuerAndSerial struct {
	Issuer encasn1.RawValue
	Serial *big.Int
}

type c13SignerInfo struct {
	Version      int
	IAS          c13IssuerAndSerial
	DigestAlg    pkix.AlgorithmIdentifier
	AuthAttrs    encasn1.RawValue `asn1:"optional,tag:0"`
	DigestEncAlg pkix.AlgorithmIdentifier
	Signature    []byte
	UnauthAttrs  encasn1.RawValue `asn1:"optional,tag:1"`
}

type c13SignedData struct {
	Version      int
	DigestAlgs   []pkix.AlgorithmIdentifier `asn1:"set"`
	ContentInfo  c13ContentInfo
	Certificates encasn1.RawValue `asn1:"optional,tag:0"`
	CRLs         encasn1.RawValue `asn1:"optional,tag:1"`
	SignerInfos  []c13SignerInfo `asn1:"set"`
}

type c13Attribute struct {
	Type   encasn1.ObjectIdentifier
	Values encasn1.RawValue `asn1:"set"`
}

var (
	c13OIDSignedData = encasn1.ObjectIdentifier{1, 2, 840, 113549, 1, 7, 2}
	c13OIDSHA256     = encasn1.ObjectIdentifier{2, 16, 840, 1, 101, 3, 4, 2, 1}
	c13OIDRSA        = encasn1.ObjectIdentifier{1, 2, 840, 113549, 1, 1, 1}
	c13OIDCT         = encasn1.ObjectIdentifier{1, 2, 840, 113549, 1, 9, 3}
	c13OIDMD         = encasn1.ObjectIdentifier{1, 2, 840, 113549, 1, 9, 4}
)

// c13Verify verifies a SignedData the way RFC 2315 9.3 / RFC 5652 5.4
// describe, with nothing from the package under test.
func c13Verify(der []byte, cert *x509.Certificate, oid encasn1.ObjectIdentifier, content []byte) error {
	var ci c13ContentInfo
	rest, err := encasn1.Unmarshal(der, &ci)
	if err != nil {
		return fmt.Errorf("outer ContentInfo: %v", err)
	}
	if len(rest) != 0 {
		return errors.New("trailing bytes after ContentInfo")
	}
	if !ci.ContentType.Equal(c13OIDSignedData) {
		return errors.New("not signedData")
	}
	var sd c13SignedData
	if rest, err = encasn1.Unmarshal(ci.Content.Bytes, &sd); err != nil || len(rest) != 0 {
		return fmt.Errorf("SignedData: %v (trailing %d)", err, len(rest))
	}
	if len(sd.DigestAlgs) != 1 || !sd.DigestAlgs[0].Algorithm.Equal(c13OIDSHA256) {
		return errors.New("digestAlgorithms is not {sha256}")
	}
	if !sd.ContentInfo.ContentType.Equal(oid) {
		return fmt.Errorf("eContentType %v, want %v", sd.ContentInfo.ContentType, oid)
	}
	if len(sd.ContentInfo.Content.Bytes) > 0 {
		var inner encasn1.RawValue
		if rest, err = encasn1.Unmarshal(sd.ContentInfo.Content.Bytes, &inner); err != nil || len(rest) != 0 {
			return fmt.Errorf("eContent: %v", err)
		}
		if !bytes.Equal(inner.Bytes, content) {
			return errors.New("embedded content differs from the supplied content")
		}
	}
	certs, err := x509.ParseCertificates(sd.Certificates.Bytes)
	if err != nil {
		return fmt.Errorf("certificates: %v", err)
	}
	found := false
	for _, c := range certs {
		if bytes.Equal(c.Raw, cert.Raw) {
			found = true
		}
	}
	if !found {
		return errors.New("signer certificate is not embedded")
	}
	if len(sd.SignerInfos) != 1 {
		return errors.New("want one SignerInfo")
	}
	si := sd.SignerInfos[0]
	if !bytes.Equal(si.IAS.Issuer.FullBytes, cert.RawIssuer) || si.IAS.Serial.Cmp(cert.SerialNumber) != 0 {
		return errors.New("issuerAndSerialNumber does not name the certificate")
	}
	if !si.DigestAlg.Algorithm.Equal(c13OIDSHA256) || !si.DigestEncAlg.Algorithm.Equal(c13OIDRSA) {
		return errors.New("unexpected algorithms")
	}
	if len(si.AuthAttrs.FullBytes) == 0 {
		return errors.New("no signed attributes")
	}
	var gotCT encasn1.ObjectIdentifier
	var gotMD []byte
	attrs := si.AuthAttrs.Bytes
	for len(attrs) > 0 {
		var a c13Attribute
		if attrs, err = encasn1.Unmarshal(attrs, &a); err != nil {
			return fmt.Errorf("attribute: %v", err)
		}
		switch {
		case a.Type.Equal(c13OIDCT):
			if _, err := encasn1.Unmarshal(a.Values.Bytes, &gotCT); err != nil {
				return err
			}
		case a.Type.Equal(c13OIDMD):
			if _, err := encasn1.Unmarshal(a.Values.Bytes, &gotMD); err != nil {
				return err
			}
		}
	}
	if !gotCT.Equal(oid) {
		return fmt.Errorf("contentType attribute %v, want %v", gotCT, oid)
	}
	want := sha256.Sum256(content)
	if !bytes.Equal(gotMD, want[:]) {
		return errors.New("messageDigest attribute is not the SHA-256 of the content")
	}
	// The signature is over the attributes as they stand in the message,
	// with the [0] IMPLICIT tag replaced by the SET OF tag.
	set := append([]byte{0x31}, si.AuthAttrs.FullBytes[1:]...)
	h := sha256.Sum256(set)
	pub, ok := cert.PublicKey.(*rsa.PublicKey)
	if !ok {
		return errors.New("not an RSA certificate")
	}
	if err := rsa.VerifyPKCS1v15(pub, crypto.SHA256, h[:], si.Signature); err != nil {
		return fmt.Errorf("signature over the embedded attributes: %v", err)
	}
	return nil
}

// c13OpenSSL runs `openssl smime -verify` on a detached signature.
func c13OpenSSL(t *testing.T, der []byte, content []byte) error {
	if _, err := exec.LookPath("openssl"); err != nil {
		t.Log("openssl not installed, that check is skipped")
		return nil
	}
	dir := t.TempDir()
	p7 := filepath.Join(dir, "sig.der")
	cf := filepath.Join(dir, "content.bin")
	if err := os.WriteFile(p7, der, 0o644); err != nil {
		t.Fatal(err)
	}
	if err := os.WriteFile(cf, content, 0o644); err != nil {
		t.Fatal(err)
	}
	out, err := exec.Command("openssl", "smime", "-verify", "-binary", "-inform", "DER",
		"-in", p7, "-content", cf, "-noverify", "-out", os.DevNull).CombinedOutput()
	if err != nil {
		return fmt.Errorf("openssl smime -verify: %v: %s", err, out)
	}
	return nil
}

func c13Cert(t *testing.T) (*x509.Certificate, *rsa.PrivateKey) {
	t.Helper()
	key, err := rsa.GenerateKey(rand.Reader, 2048)
	if err != nil {
		t.Fatal(err)
	}
	caKey, err := rsa.GenerateKey(rand.Reader, 2048)
	if err != nil {
		t.Fatal(err)
	}
	ca := &x509.Certificate{
		SerialNumber: big.NewInt(1), Subject: pkix.Name{Organization: []string{"Issuer Org"}, CommonName: "Some CA"},
		IsCA: true, BasicConstraintsValid: true, KeyUsage: x509.KeyUsageCertSign,
		NotBefore: time.Now().Add(-48 * time.Hour), NotAfter: time.Now().Add(365 * 24 * time.Hour),
	}
	leaf := &x509.Certificate{
		SerialNumber: big.NewInt(0x1234), Subject: pkix.Name{CommonName: "leaf signer"},
		KeyUsage:  x509.KeyUsageDigitalSignature,
		NotBefore: time.Now().Add(-48 * time.Hour), NotAfter: time.Now().Add(365 * 24 * time.Hour),
	}
	der, err := x509.CreateCertificate(rand.Reader, leaf, ca, &key.PublicKey, caKey)
	if err != nil {
		t.Fatal(err)
	}
	c, err := x509.ParseCertificate(der)
	if err != nil {
		t.Fatal(err)
	}
	return c, key
}

func TestC05_13_SignatureCoversEmbeddedAttributes(t *testing.T) {
	cert, key := c13Cert(t)

	spc := encasn1.ObjectIdentifier{1, 3, 6, 1, 4, 1, 311, 2, 1, 4}
	// 15 octets when encoded: the contentType attribute is then longer than
	// the signingTime attribute.
	private := encasn1.ObjectIdentifier{1, 3, 6, 1, 4, 1, 99999, 1, 2, 3, 4, 5, 6, 7}
	// 36 octets when encoded: longer than the messageDigest attribute too.
	veryLong := encasn1.ObjectIdentifier{1, 3, 6, 1, 4, 1, 99999, 1, 2, 3, 4, 5, 6, 7, 8, 9, 10, 11, 12, 13, 14,
		15, 16, 17, 18, 19, 20, 21, 22, 23, 24, 25, 26, 27, 28}

	cases := []struct {
		name    string
		oid     encasn1.ObjectIdentifier
		content []byte
	}{
		{"data", OIDData, []byte("hello world")},
		{"SpcIndirectDataContent", spc, []byte{0x30, 0x03, 0x02, 0x01, 0x05, 0x30, 0x00}},
		{"private OID, embedded content", private, []byte{0x02, 0x01, 0x05}},
		{"private OID, empty content", private, nil},
		{"very long OID, embedded content", veryLong, bytes.Repeat([]byte{0x04, 0x02, 0xaa, 0xbb}, 100)},
		{"very long OID, empty content", veryLong, nil},
	}
	for _, tc := range cases {
		t.Run(tc.name, func(t *testing.T) {
			der, err := SignPKCS7(key, cert, tc.oid, tc.content)
			if err != nil {
				t.Fatalf("SignPKCS7: %v", err)
			}
			if err := c13Verify(der, cert, tc.oid, tc.content); err != nil {
				t.Errorf("independent verifier rejects the signature: %v", err)
			}
			other := append(append([]byte{}, tc.content...), 0x00)
			if err := c13Verify(der, cert, tc.oid, other); err == nil {
				t.Errorf("independent verifier accepts the signature for different content")
			}
			detached := tc.oid.Equal(OIDData) || len(tc.content) == 0
			if detached {
				if err := c13OpenSSL(t, der, tc.content); err != nil {
					t.Errorf("%v", err)
				}
			}
			// the library itself is satisfied in every case
			p, err := ParsePKCS7(der)
			if err != nil {
				t.Fatalf("ParsePKCS7: %v", err)
			}
			ok, err := p.Verify(cert)
			if err != nil || !ok {
				t.Errorf("own verification: %v %v", ok, err)
			}
		})
	}
}
