#!/bin/sh
# Builds the static checker offline from the module cache (golang.org/x/tools v0.29.0).
cd "$(dirname "$0")" || exit 2
export GOFLAGS=-mod=mod GOPROXY=off GOSUMDB=off GOTOOLCHAIN=local CGO_ENABLED=0
unset GOWORK
mkdir -p bin evidence
cd checker && go build -o ../bin/vcheck ./cmd/vcheck && echo "built bin/vcheck"
