#!/bin/sh
# usage: tools/mutant.sh <patch.diff> <property-id>...   (or "-" as patch for the pristine HEAD)
# Applies the patch to a scratch worktree of /repo's HEAD (outside /repo and /verif), runs the
# given checks against it with a scratch evidence directory, prints their verdict lines, cleans up.
set -u
patch="$1"; shift
V=$(cd "$(dirname "$0")/.." && pwd)
W=$(mktemp -d /tmp/mw.XXXXXX); E=$(mktemp -d /tmp/me.XXXXXX)
git -C /repo worktree add -q --detach "$W/r" HEAD || exit 2
if [ "$patch" != "-" ]; then
  if ! git -C "$W/r" apply "$patch"; then echo "PATCH DOES NOT APPLY: $patch"; git -C /repo worktree remove --force "$W/r"; rm -rf "$W" "$E"; exit 3; fi
fi
cp "$V/KNOWN_FINDINGS.txt" "$E/"
for id in "$@"; do
  "${VCHECK:-$V/bin/vcheck}" -property "$id" -tier "${TIER:-quick}" -repo "$W/r" -verif "$E" 2>&1 | sed "s#$W/r/##g" | grep -v '^KNOWN-FINDING' | cut -c1-${CUT:-420}
done
git -C /repo worktree remove --force "$W/r"; rm -rf "$W" "$E"
