#!/bin/bash
# usage: tools/confirm_seed.sh <src-dir containing patch.diff demo_test.go notes.md> <property-id> <seed-name>
# Confirms a seeded breaking change in a scratch worktree (outside /repo and /verif):
#   patched tree builds and passes the existing suite; the demonstration fails with the patch and passes without it.
# On success copies it to /verif/seeded/<seed-name>/ with meta.json.
set -u
src="$1"; prop="$2"; nm="$3"
V=$(cd "$(dirname "$0")/.." && pwd)
export GOFLAGS=-mod=mod GOPROXY=off GOSUMDB=off GOTOOLCHAIN=local
W=$(mktemp -d /tmp/cs.XXXXXX)
git -C /repo worktree add -q --detach "$W/r" HEAD || exit 2
cleanup() { git -C /repo worktree remove --force "$W/r" 2>/dev/null; rm -rf "$W"; }
trap cleanup EXIT
place=$(head -1 "$src/demo_test.go" | sed -n 's#^// place in: *##p' | tr -d '\r')
[ -z "$place" ] && { echo "$nm: no 'place in' header"; exit 3; }
pkgdir=$(dirname "$place")
SUITE="./authenticode/... ./efi/... ./efivarfs/... ./pkcs7/... ./efivar/... ./tests/tests/..."
cd "$W/r"
git apply "$src/patch.diff" || { echo "$nm: patch does not apply"; exit 4; }
go build ./... >"$W/build.log" 2>&1 || { echo "$nm: patched tree does not build"; exit 5; }
go test -vet=off -count=1 $SUITE >"$W/suite.log" 2>&1; suite=$?
cp "$src/demo_test.go" "$W/r/$place"
go test -vet=off -count=1 "./$pkgdir/" >"$W/demo_patched.log" 2>&1; dp=$?
git apply -R "$src/patch.diff"
go test -vet=off -count=1 "./$pkgdir/" >"$W/demo_clean.log" 2>&1; dc=$?
echo "$nm: suite_with_patch=$suite demo_with_patch=$dp demo_without_patch=$dc"
if [ $suite -eq 0 ] && [ $dp -ne 0 ] && [ $dc -eq 0 ]; then
  mkdir -p "$V/seeded/$nm"
  cp "$src/patch.diff" "$V/seeded/$nm/patch.diff"
  cp "$src/demo_test.go" "$V/seeded/$nm/demo_test.go"
  [ -f "$src/notes.md" ] && cp "$src/notes.md" "$V/seeded/$nm/notes.md"
  python3 - "$V/seeded/$nm/meta.json" "$prop" "$nm" "$place" "$src/notes.md" <<'PY'
import json,sys,re,os
out,prop,nm,place,notes=sys.argv[1:6]
needs=""
if os.path.exists(notes):
    t=open(notes).read()
    m=re.search(r'(?is)(needs|trigger|manifest)[^\n]*\n(.{0,600})',t)
    needs=(m.group(0) if m else t[:600]).strip()
json.dump({"id":nm,"breaks_property":prop,"kind":"breaking change (compiles, passes the existing suite)",
 "demo_placement":place,"needs_to_manifest":needs,
 "confirmed":{"how":"tools/confirm_seed.sh in a scratch worktree of /repo HEAD","suite_with_patch":"pass","demo_with_patch":"fail","demo_without_patch":"pass"},
 "origin":"independent sub-agent given only the property text and its own worktree"},open(out,"w"),indent=1)
PY
  exit 0
fi
tail -5 "$W/suite.log" "$W/demo_patched.log" "$W/demo_clean.log" | cut -c1-200
exit 1
