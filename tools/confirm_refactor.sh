#!/bin/bash
# usage: tools/confirm_refactor.sh <dir containing patch.diff>...
# Confirms that each behaviour-preserving refactoring still applies to /repo's HEAD, builds
# and passes the existing test suite, in a scratch worktree outside /repo and /verif.
set -u
export GOFLAGS=-mod=mod GOPROXY=off GOSUMDB=off GOTOOLCHAIN=local
unset GOWORK
SUITE="./authenticode/... ./efi/... ./efivarfs/... ./pkcs7/... ./efivar/... ./tests/tests/..."
rc=0
for src in "$@"; do
  W=$(mktemp -d /tmp/cr.XXXXXX)
  git -C /repo worktree add -q --detach "$W/r" HEAD || exit 2
  ( cd "$W/r" && git apply "$src/patch.diff" && go build ./... && { go vet ./authenticode/... ./efi/... ./efivarfs/... ./pkcs7/... ./efivar/... >/dev/null 2>&1; go test -vet=off -count=1 $SUITE; } ) >"$W/log" 2>&1
  r=$?
  nm=$(basename "$(dirname "$src")")/$(basename "$src")
  if [ $r -eq 0 ]; then echo "$nm: applies, builds, suite passes"; else echo "$nm: FAILED"; tail -5 "$W/log" | cut -c1-200; rc=1; fi
  git -C /repo worktree remove --force "$W/r"; rm -rf "$W"
done
exit $rc
