#!/usr/bin/env python3
"""Takes in what a sub-agent of a validation round delivered under /tmp/sa/<id>-s/out/{1,2,3} (seeded changes)
or /tmp/sa/<id>-r/out/R-k (rewrites): confirms each (tools/confirm_seed.sh / confirm_refactor.sh), stores the
confirmed ones under seeded/ or refactors/, runs all checks on each with the checker binary frozen at the start of
the round (VCHECK) and records that first run.
usage: tools/intake.py seeded <id> <first-number> | rewrite <id>"""
import json, os, re, subprocess, sys, shutil
V = os.path.dirname(os.path.dirname(os.path.abspath(__file__)))
kind, pid = sys.argv[1], sys.argv[2]
FIRST = os.environ.get("VCHECK", "/tmp/sa/vcheck.first")
def matrix(patch):
    env = dict(os.environ, CUT="3000", VCHECK=FIRST)
    out = subprocess.run([os.path.join(V, "tools", "mutant.sh"), patch, "ALL"], capture_output=True, text=True, env=env).stdout
    res, cur = {}, None
    for l in out.splitlines():
        m = re.match(r"VIOLATION property=(C\d+)", l)
        if m: cur = m.group(1); res[cur] = []; continue
        if l.startswith("property="): cur = None; continue
        if cur and l.startswith("  "):
            r = re.search(r"\[([A-Za-z0-9_.\-=]+)\]", l)
            if r and r.group(1) not in res[cur]: res[cur].append(r.group(1))
    ran = len(set(re.findall(r"^property=(C\d+)", out, re.M)))
    return {"reported_by": res, "checks_finished": ran}
def rebase(src):
    """If patch.diff no longer applies to /repo's HEAD (a fix: commit landed since the sub-agent's worktree was made),
    carry it over with a three-way apply and store the result; returns a note."""
    pf = os.path.join(src, "patch.diff")
    w = subprocess.run(["mktemp", "-d", "/tmp/rb.XXXXXX"], capture_output=True, text=True).stdout.strip()
    subprocess.run(["git", "-C", "/repo", "worktree", "add", "-q", "--detach", w + "/r", "HEAD"], check=True)
    note = ""
    try:
        if subprocess.run(["git", "-C", w + "/r", "apply", "--check", pf], capture_output=True).returncode != 0:
            r = subprocess.run(["git", "-C", w + "/r", "apply", "--3way", pf], capture_output=True, text=True)
            if r.returncode == 0:
                subprocess.run(["git", "-C", w + "/r", "add", "-A"], check=True)
                d = subprocess.run(["git", "-C", w + "/r", "diff", "--cached", "HEAD"], capture_output=True, text=True).stdout
                shutil.copy(pf, pf + ".orig")
                open(pf, "w").write(d)
                note = "rebased onto the repaired tree (three-way apply)"
            else:
                note = "does not apply to HEAD, three-way apply failed: " + r.stderr.strip()[-300:]
    finally:
        subprocess.run(["git", "-C", "/repo", "worktree", "remove", "--force", w + "/r"])
        shutil.rmtree(w, ignore_errors=True)
    return note
if kind == "seeded":
    first = int(sys.argv[3])
    rec_path = os.path.join(V, "validation", "batch%s_seeded_first_run.json" % os.environ.get("ROUND", "6"))
    rec = json.load(open(rec_path)) if os.path.exists(rec_path) else {}
    for k in (1, 2, 3):
        src = f"/tmp/sa/{pid}-s/out/{k}"
        nm = f"{pid}-{first + k - 1}"
        if not os.path.exists(os.path.join(src, "patch.diff")):
            print(nm, "nothing delivered"); continue
        note = rebase(src)
        if note: print(nm, note)
        p = subprocess.run([os.path.join(V, "tools", "confirm_seed.sh"), src, pid, nm], capture_output=True, text=True)
        print(p.stdout.strip()[-600:])
        if p.returncode != 0:
            rec[nm] = {"confirmed": False}; continue
        r = matrix(os.path.join(V, "seeded", nm, "patch.diff"))
        r["confirmed"] = True
        rec[nm] = r
        own = r["reported_by"].get(pid)
        print(f"  first run: own={own} others={ {q: v for q, v in r['reported_by'].items() if q != pid} } finished={r['checks_finished']}")
    json.dump(dict(sorted(rec.items())), open(rec_path, "w"), indent=1)
else:
    rec_path = os.path.join(V, "validation", "round%s_rewrites_first_run.json" % os.environ.get("ROUND", "6"))
    rec = json.load(open(rec_path)) if os.path.exists(rec_path) else {}
    base = f"/tmp/sa/{pid}-r/out"
    for d in sorted(os.listdir(base)) if os.path.exists(base) else []:
        src = os.path.join(base, d)
        if not os.path.exists(os.path.join(src, "patch.diff")): continue
        note = rebase(src)
        if note: print(pid, d, note)
        dst = os.path.join(V, "refactors", pid, d)
        os.makedirs(dst, exist_ok=True)
        for f in ("patch.diff", "notes.md"):
            if os.path.exists(os.path.join(src, f)): shutil.copy(os.path.join(src, f), dst)
        p = subprocess.run([os.path.join(V, "tools", "confirm_refactor.sh"), dst], capture_output=True, text=True)
        print(p.stdout.strip()[-400:])
        if p.returncode != 0:
            shutil.rmtree(dst); rec[f"{pid}/{d}"] = {"confirmed": False}; continue
        r = matrix(os.path.join(dst, "patch.diff")); r["confirmed"] = True
        rec[f"{pid}/{d}"] = r
        print(f"  first run: reported_by={r['reported_by']} finished={r['checks_finished']}")
    json.dump(dict(sorted(rec.items())), open(rec_path, "w"), indent=1)
