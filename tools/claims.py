# Claimed properties (executed by gen_manifest.py).
claim("C14", "call-graph enumeration of process terminators with trigger classification (SSA dominance)",
      "Decides the property's own static clause: every log.Fatal*/os.Exit/panic/must-style call site in library code is enumerated "
      "and classified by the condition that dominates it; sites triggered by input or dependency errors are violations. "
      "Panic-, hang- and memory-freedom for all inputs are not decided.", "DESIGN.md §4 C14")

NA["C16"] = ("acceptance of third-party signatures depends on the bytes other tools emit at run time (attribute order/encoding "
             "chosen by OpenSSL/sbsign); the source holds no representation of them, so no structural condition beyond C04/C13 exists to check statically")
for _i in ["C01","C02","C03","C04","C05","C06","C07","C08","C09","C10","C11","C12","C13","C15","C17","C18","C19"]:
    NA.setdefault(_i, "rule set for this property not built yet in this round (see DESIGN.md Appendix C); no static verdict is claimed")
