# Claimed properties (executed by gen_manifest.py).
claim("C11", "CFG path-count, constant flag-set evaluation, value-flow slices and format-language evaluation over the two write twins and the read path",
      "Decides the shape of the filesystem boundary that an in-memory filesystem cannot observe: exactly one Write per successful path and never two, "
      "open flags O_WRONLY|O_CREATE without O_EXCL and O_APPEND iff the APPEND_WRITE edge was taken, buffer = LE32(attrs) ++ value, path from efivars dir/name/canonical GUID text, "
      "short-write check, required.Equal(stored) gate dominating the decode, 4+rest read shape, argument mapping of WriteVar; identical rules on both twins. Kernel behaviour is not decided.",
      "DESIGN.md §4 C11")
claim("C12", "constant flag-set evaluation and table agreement between the in-memory store's strip list and the efivar definitions (SSA of the package initialiser)",
      "Decides two necessary conditions of register semantics: old content is discarded on non-append rewrites (O_TRUNC/Create/Remove), and the descriptor is stripped exactly for the "
      "authenticated variables from a fresh per-call buffer, with fresh buffers on the read path. Histories are not explored.", "DESIGN.md §4 C12")
claim("C13", "VTA call-graph reachability of terminators with trigger classification; field-based input taint with dominating-guard (missing-check) rules; nil-optional dataflow",
      "Decides, over everything reachable from the exported API of authenticode and pkcs7: no process terminator with a feasible trigger; every allocation / unsigned subtraction / "
      "Truncate-Next-Grow / slice bound fed by input-derived values is dominated by a relating check; optional results are nil-checked before dereference. "
      "General panic-, hang- and time-freedom are not decided.", "DESIGN.md §4 C13")
claim("C14", "call-graph enumeration of process terminators with trigger classification; input taint with dominating-guard rules (T1-T5); nil-optional dataflow",
      "Decides the property's own static clause (every log.Fatal*/os.Exit/panic/must-style site in library code, classified by the dominating condition) and the missing-check rules "
      "for sizes, wraps, last-element and input-derived indexes in the variable decoders. Panic-, hang- and memory-freedom for all inputs are not decided.", "DESIGN.md §4 C14")
claim("C15", "error-discipline dataflow at dependency call sites (failure-region reachability on the CFG), dominance of effects by success edges, terminator classification",
      "Decides, for every call site of a caller-supplied signer / filesystem / image reader reachable from the listed operations: the error is not dropped, every return reachable "
      "from the failure edge carries a non-nil error, no terminator is triggered by it, short writes are checked, and mutations/writes sit behind the success edge of signing. "
      "It covers all fault positions at once but only the error-handling shape, not executed behaviour.", "DESIGN.md §4 C15")

claim("C02", "cut-set analysis on the CFG of the verification chain: every path to an accepting return must cross evidence edges, with facts inherited through callee results (value-flow slices for the role constraints)",
      "Decides that PECOFFBinary.Verify / Authenticode.Verify report success only behind: image digest == digest in the signed content (SHA-256, algorithm OID checked), signer issuer+serial == the caller's certificate, "
      "CheckSignature(SHA256WithRSA) by the caller's certificate over the re-encoded signed attributes, and messageDigest == SHA-256(encapsulated content); per loop iteration, and with the signature parsed from the image's own table. "
      "Correctness of the hashes, RSA, DER parsing and of the digest itself (C01) is not decided.", "DESIGN.md §4 C02")
claim("C04", "cut-set analysis on the CFG of (*PKCS7).Verify and its helpers with inherited callee facts; nil-optional dataflow for absent signed attributes",
      "Decides that the three PKCS#7 verification entry points accept only behind issuer+serial identity with the caller's certificate, a valid RSA-SHA256 CheckSignature by that certificate over the attributes encoder's output, "
      "and the messageDigest/content binding (or a detached blob), all applied to the same signer entry. DER strictness and equality of re-encoded and signed attribute bytes (C16) are not decided.", "DESIGN.md §4 C04")

claim("C07", "reader/writer codec tables extracted from the encoding/binary idioms (type-resolved, flattened to wire positions) and compared; affine size equations; every-iteration loop checks",
      "Decides necessary conditions of the round trip: the list and entry reader/writer pairs agree on fields, order, widths and byte order and equal the EFI_SIGNATURE_LIST/DATA layouts; nothing a sub-decoder consumed is dropped; "
      "the writer-only SignatureHeader is empty for every accepted list; every list/entry is written; ListSize moves by exactly ±Size with one entry; entry sizes stay uniform; decoded data does not alias the input buffer. "
      "Byte-for-byte equality for all streams is not decided.", "DESIGN.md §4 C07")
claim("C08", "input-taint with affine guard entailment for the size arithmetic; cut-sets for the type/size gates and the clean-end exit; EOF-provenance dataflow over error values",
      "Decides: ListSize-28, Size-16 and the remaining-size decrement cannot wrap; allocations are bounded; a list is accepted only for a handled type (SHA-256 only with size 48); the database decoder succeeds only at a clean end; "
      "an error still matching io.EOF leaves the list decoder only when nothing of the list was consumed; declared lengths are read with full-read primitives. Exact agreement with a reference decoder's split is not decided.", "DESIGN.md §4 C08")
claim("C09", "cut-sets for guard-before-mutation, reachability of failing returns from mutations, SSA value identity (checked == stored), affine pairing of size updates",
      "Decides the check-then-act shape of Append/Remove: mutations only behind the not-duplicate / found / known-type / 32-byte / uniform-size edges; no failing return after a mutation; the value checked is the value stored and the list "
      "is selected by the stored length; removal keeps order, continues the search after a miss, drops an emptied list; ListSize changes by ±Size with one entry. Histories against an abstract model are not explored.", "DESIGN.md §4 C09")
claim("C10", "reader/writer codec tables flattened through sub-codecs and compared with each other and with the UEFI layouts; affine length check; double-emission and alias-consumption rules; taint/terminator rules in the readers",
      "Decides: the three reader/writer pairs agree position by position and equal WIN_CERTIFICATE / EFI_TIME+WIN_CERTIFICATE; the body is dwLength-8 bytes and the GUID variant only re-parses consumed bytes (so exactly 16+dwLength are consumed); "
      "the body is emitted once; length arithmetic is guarded; no terminator on input; full-read primitives. Byte-exact round trips for all values are not decided.", "DESIGN.md §4 C10")

claim("C17", "format-language evaluation of the GUID text, codec-table byte-order agreement for every binary.Read/Write of a GUID-bearing type, who-may-call rule for the text-order serialisers, cut-sets for field-wise equality and the terminator check",
      "Decides: canonical 8-4-4-4-12 lower-case text over Data1..Data4; big-endian text/bytes pair; little-endian GUIDs in every encoded structure and no use of the text-order bytes for wire data; field-wise equality; "
      "UTF-16LE transcoder with exactly one terminator, terminator check dominating success, terminator scan returning only bytes it read. Transcoding of surrogates and value-level losslessness are not decided.", "DESIGN.md §4 C17")
claim("C18", "format-language evaluation of the boot entry names, byte-order flow of the boot number, node reader tables compared with the UEFI layouts, value-flow of the text rendering",
      "Decides: names are Boot + exactly four upper-case hex digits of the little-endian uint16 and are looked up unchanged; load-option and device-path node readers equal the UEFI layouts; the description uses the aligned terminator scan; "
      "the hard-drive text renders the right fields in order. Rendering and decoding for all values are not decided.", "DESIGN.md §4 C18")

claim("C19", "interprocedural effect analysis over SSA: abstract locations (receiver-reachable, global, fresh, out-parameter) with a library effect table, context-sensitive through repo callees and closures",
      "Decides that the 30 read-only API methods and everything they call store nothing into receiver-reachable or package-level memory, call no cursor-advancing or storage-writing method on a shared object "
      "(fresh copies and declared output parameters are allowed), and append onto no shared backing array; race freedom of read-only operations follows. Value-level equality of repeated results is argued, not checked.", "DESIGN.md §4 C19")

claim("C05", "value-flow bindings over SSA (hash inputs, signer arguments, embedded bytes), structural extraction of the cryptobyte emitter nesting compared with the RFC 2315 shape, error discipline at the signer",
      "Decides necessary conditions of interoperability: messageDigest = SHA-256(unsliced content), contentType = oid; the signer signs SHA-256 over the attribute encoder's output for those attributes with crypto.SHA256; the embedded attribute bytes are "
      "that same output with the SET header removed by parsing; issuer = cert.RawIssuer, serial via AddASN1BigInt, cert.Raw embedded; the emitter nesting equals ContentInfo/SignedData/SignerInfo; Authenticode content = SpcIndirectDataContent(hash of the reader). "
      "Acceptance by OpenSSL or other implementations, and DER SET-OF ordering, are not decided.", "DESIGN.md §4 C05")
claim("C06", "value-flow bindings and writer codec tables over SignEFIVariable and the descriptor constructors; constant initialisers read from the package init function with a who-may-write check",
      "Decides: timestamp from a UTC time with pad/ns/tz/dst never set; signed buffer order name||GUID||attributes||timestamp||payload (little endian, name unterminated, values unmodified); descriptor constants and initial length; "
      "CertData = SignedData with outer ContentInfo stripped, detached (id-data), dwLength += len of exactly those bytes; one descriptor object whose timestamp is signed and which is emitted before the unchanged payload. "
      "Acceptance by firmware and the clock value are not decided.", "DESIGN.md §4 C06")

claim("C01", "affine evaluation of the hashed ranges per type-switch case compared with offsets computed from the debug/pe struct layouts (go/types); SSA value identity between the sorted and the hashed section table; comparator evaluation over the ordering domain",
      "Decides layout agreement: for PE32 and PE32+ the three hashed header ranges are [0,checksum) (checksum+4, DataDirectory[4]) (entry+8, SizeOfHeaders) with e_lfanew from offset 0x3c; the section table that is hashed is the one sorted ascending "
      "by file offset, empty sections skipped, each part over SizeOfRawData; the tail is the data after the sections minus the certificate table, padded to 8; the digest is Sum(nil) of one io.Copy over the hash content. "
      "The digest value for all images and multi.ReadAt arithmetic are not decided.", "DESIGN.md §4 C01")
claim("C03", "affine equalities and value-flow bindings over AppendSignature / Open / Parse; writer table of the WIN_CERTIFICATE header; dominance of mutation by the success edge of signing",
      "Decides: header constants and dwLength = 8+len(sig) for the same sig; certificate table and directory Size grow by dwLength + pad with both pad values from one PaddingBytes(dwLength,8) call, entry before pad; a new table starts at the padded "
      "end of file and an existing table keeps its address; the re-encoded directory entry is emitted; Open concatenates first part, entry, rest, padding, table contiguously; signing precedes mutation and commits to SHA-256 of the hash content. "
      "That the output verifies, and byte-exact output for all images, are not decided.", "DESIGN.md §4 C03")

claim("C16", "cut-sets on the CFG of the PKCS#7 parser for the optional elements and for attributes of unknown type; agreement between the attribute parser's stores (guarding attribute type, cryptobyte read primitive, field) and the attribute encoder's emitter shape; forward reachability from each read inside the signed attributes to a successful return without a look at the remainder",
      "Decides structural necessary conditions of accepting other tools' signatures: no parser function insists on an element PKCS#7 makes optional ([0] content, certificates, signed attributes; NULL parameters, present or absent); "
      "a bare SignedData is accepted; elements behind the encrypted digest of a SignerInfo (unauthenticated attributes) are tolerated; equality of algorithm parameters with one value is never necessary for acceptance; a signed attribute of unknown type is kept on every path; every field the attribute parser fills is emitted again by Attributes.Marshal under the same attribute type and ASN.1 primitive and from one wire form; "
      "nothing consumed from the signed attributes is dropped (this rule found and led to the repair of parseAttributes); the signature is checked over that encoder's output. "
      "What OpenSSL / sbsign / sbvarsign actually emit, and byte equality of the re-encoding for a given blob, are not decided.", "DESIGN.md §4 C16")

# Additions of the later build rounds (DESIGN.md §9, §10.2, §10.4): appended to the level text.
def more(i, extra):
    t, text, ref = CLAIMS[i]
    CLAIMS[i] = (t, text + " Also decided (added with the seeded-change rounds, DESIGN.md §10): " + extra, ref)

more("C01", "the part search and part-relative offsets of the concatenating reader; only empty sections are skipped; padding from shared memory is never written; Parse keeps nothing in package-level memory and returns no pooled storage.")
more("C02", "all rules of C01 for the digest that is compared; parsed signature objects are frozen after construction; every source of the tested error is the signature check.")
more("C03", "the emitter rules of C05; entry padding judged by value modulo 8; the image verifier's identity and signature facts; distinct signature objects; shared padding never written; no pooled storage in results.")
more("C04", "the signer's serial number is decoded as an ASN.1 INTEGER; parsed signature objects are frozen.")
more("C05", "exactness of the embedded signature bytes; producers keep no package-level state and return no pooled storage.")
more("C06", "the emitter rules of C05; the prepared update is not consumed by encoding it; no pooled storage in the result.")
more("C07", "Unmarshal replaces its receiver; sizes are computed from the stored bytes; an accepting path that never reads HeaderSize is reported whatever the shape; codecs keep no package-level state and return no pooled storage.")
more("C08", "no read-ahead consumers; inside a list an io.EOF from the caller's stream never becomes success; HeaderSize == 0 is required for acceptance.")
more("C09", "failure atomicity; sizes from the stored bytes; input stored unchanged only if pem.Decode found no block.")
more("C10", "exact consumption and no upper bound on declared lengths; encoders only append; fixed-width copies are length-checked; no legal EFI_TIME value is refused; codecs keep no package-level state.")
more("C11", "argument mapping; exact open flags; typed accessors pass definitions with the table's attributes.")
more("C12", "one file per definition; encoders are pure; once the descriptor decoded the payload is what is stored; the strip predicate refuses no legal timestamp.")
more("C13", "fixed-width decodes need a length; no unchecked assertion on parsed values; lock pairing; input-selected hash functions are tested; the hashed stream is never materialised.")
more("C14", "fixed-width decodes need a length; no unchecked assertion on parsed values; lock pairing.")
more("C15", "short reads are noticed; deferred stores count only into result cells; image state is kept only after a complete read.")
more("C17", "BOM policy, surrogate-free hand encoders are not decided; the UTF-16 decoder is drained; conversions keep no package-level state and return no pooled storage.")
more("C18", "every BootOrder entry is decoded (this rule found and led to the repair of efi.GetBootOrder); decoders replace a reused receiver; rendering indexes no table with an unchecked field; partial use of wire fields and code-unit arithmetic.")
more("C19", "scratch buffers kept on the object are never written by anything a read-only operation reaches, io.Copy callbacks included; scratch copies that share elements with the receiver count as receiver-reachable; no pooled storage in results.")

def more4(i, extra):
    t, text, ref = CLAIMS[i]
    CLAIMS[i] = (t, text + " Added with the fourth batch: " + extra, ref)

more4("C01", "a part found by searching from a start offset is the part that holds it; Hash keeps nothing in package-level memory.")
more4("C02", "an optional element read last from a nested DER structure is followed by a look at the rest; the subject of the verdict is read on every accepting path (reported whatever the shape).")
more4("C03", "the image verifier accepts only through the PKCS7 facts.")
more4("C04", "nothing is left behind the optional content of ContentInfo (this rule found and led to the repair of ParseContentInfo).")
more4("C05", "the parsed shape of a structure matches the emitted one, opaque pre-encoded elements included.")
more4("C06", "the value that is signed and the value that is emitted are built from the same variable definition.")
more4("C07", "sizes are recomputed from the same data that is stored.")
more4("C08", "no fixed upper limit stands between the declared list size and what is read.")
more4("C09", "both sides of the membership test are normalised alike; a duplicate is looked for in the whole database with the list's type; errors from the membership helpers are handled; list headers are not shared between entries.")
more4("C10", "boundary lengths (exactly the fixed part) are not refused; GUIDs are converted by the wire-order helper only.")
more4("C11", "the name-to-GUID table is used by name; an attribute-only file is the empty value; the payload is always returned.")
more4("C12", "every variable goes to the file its own definition names.")
more4("C13", "array conversions and divisors from input are guarded, in the function or by every caller; no result other than nil accompanies an error; the hash stream is fed in a streaming fashion.")
more4("C14", "array conversions and divisors from input are guarded, in the function or by every caller; no result other than nil accompanies an error.")
more4("C15", "once the signature is on the image object Sign does not report failure.")
more4("C17", "the whole input is converted.")
more4("C18", "Boot#### numbers cover the full 16-bit range; device-path numbers are rendered from little-endian wire fields of their declared width (this rule found and led to the repair of the GPT signature rendering).")
more4("C19", "readers handed out share no live cursor with the object.")


def more5(i, extra):
    t, text, ref = CLAIMS[i]
    CLAIMS[i] = (t, text + " Added with the fifth batch (DESIGN.md §10.8): " + extra, ref)

more5("C01", "the zero padding is computed from the size of the whole file.")
more5("C03", "a failing reader while the image is hashed makes signing fail.")
more5("C05", "the signed attributes are a DER SET OF for every content type (this rule found and led to the repair of Attributes.Marshal); id-data is signed detached; the embedded attribute bytes are not rearranged after signing.")
more5("C06", "id-data is signed detached whatever the content.")
more5("C07", "every decoded list is kept on every iteration; the entry loop is not capped by a constant; a refused edit changes nothing; Unmarshal gives its receiver what was decoded.")
more5("C08", "a failure is not reported with an error that is nil at that point; an io.EOF handed back by a header helper comes from its first read only.")
more5("C09", "a refusal by a matching list is reported, not worked around with a new list.")
more5("C10", "a decoded descriptor shares no memory with its input; Unmarshal gives its receiver what was decoded, not constants.")
more5("C11", "the variable name reaches the path without a case conversion; no constant cap on the value read.")
more5("C12", "what is read back is as long as what was stored.")
more5("C13", "a failure is not reported with an error variable that is nil at that point; decoding adds nothing to package-level containers.")
more5("C14", "a failure is not reported with an error variable that is nil at that point; decoding adds nothing to package-level containers.")
more5("C15", "the error of a read is looked at before a short count is taken for the end of the input; nothing changes the filesystem before signing succeeded.")
more5("C18", "a GUID kept as bytes is taken apart in its in-structure layout; node fields are decoded in the order their structure declares; the UTF-16 byte-order policy of C17.")
more5("C19", "no output in map iteration order; pooled state is reset on every path that used it.")

def more6(i, extra):
    t, text, ref = CLAIMS[i]
    CLAIMS[i] = (t, text + " Added with the sixth batch (DESIGN.md §10.9): " + extra, ref)

more6("C01", "nothing puts a bounded view between the image reader and the hash (J9.unbounded); a part of the concatenating reader that returns its last bytes together with io.EOF has them counted (J10.eofdata: this rule found and led to the repair of multi.ReadAt).")
more6("C02", "the signed attributes are parsed without dropping anything and re-encoded from one wire form (A.lossless, X3.pair, shared with C16); the signature checked is exactly the signer entry's encrypted digest (A.sig-exact); the digest covers the content with exactly one header taken off (A.content-value); no bounded view of the hashed image (J9.unbounded); J10.eofdata.")
more6("C03", "J10.eofdata (the digest that is signed covers the last part of the image whatever way the reader reports its end).")
more6("C04", "nothing consumed from the signed attributes is dropped (A.lossless: this rule found and led to the repair of parseAttributes); parser and encoder of the attributes agree field by field, one wire form per field (X3.pair); the signature operand is exactly the parsed encrypted digest, stored exactly as read (A.sig-exact); the digest covers the [0] content with exactly one header taken off (A.content-value); a pointer field the parser fills only on some paths is nil-tested before use (N4.partial).")
more6("C05", "the signer identifier is issuerAndSerialNumber unconditionally (L5.sid); a function literal kept for later does not capture the loop variable (X6.distinct); no bounded view of the hashed image (J9.unbounded).")
more6("C06", "the payload that is signed and the payload that is emitted come from the same encoder (I9.samepayload); every list is written (G8.all).")
more6("C07", "no error of the decoding layer is dropped (G4.surface); nothing reads ahead on the decoder's stream, also through a re-bound variable (G12.exact); a removal drops only the list it emptied (K2.paired).")
more6("C08", "no error of the decoding layer is dropped (G4.surface); every accepted list has SignatureSize >= 16, empty lists included (A-d.size-min); an error wrapped with a second %w is still io.EOF-transparent (G4.eof); the stream is not re-bound to a read-ahead reader (G12.exact).")
more6("C09", "membership is exact: a 'found' answer needs owner and data equality (K11.exact); a mutator that can run twice in one operation does not fail half-way (K0.atomic in loops); every entry the list decoder reads is kept (K2.decoded).")
more6("C10", "where the reader keeps a header field the writer emits that field, not a constant (G1.fromvalue).")
more6("C11", "the write path touches the file system only with open-for-write, Write and Close (F1.touch); the value handed to WriteVar is encoded without being consumed (E.pure); the store keeps nothing about variables outside the file system (F16.stateless); after the decoder accepted a value the read path does not refuse it (F15.final).")
more6("C12", "F1.touch, F16.stateless (the in-memory store and the wrapper keep no per-variable state); what is stored after a signed update is the rest of the input behind the descriptor, not a re-encoding (F10.exact).")
more6("C13", "no input-driven recursion (R.recurse); no String/Error method that formats its own receiver (B.selfformat); a pass over the hashed stream inside a loop over table entries leaves the loop (T12.rehash: reports (*PECOFFBinary).Verify on the unchanged tree, recorded as a known finding); N4.partial.")
more6("C14", "R.recurse, B.selfformat over the variable decoders.")
more6("C15", "a forwarder fed from a reader kept in a struct field does not drop its error (C1.dropped, field readers).")
more6("C17", "ParseUtf16Var refuses nothing but a decoder error or a missing terminator (A-u.refuse) and returns only what the x/text decoder produced (A-u.source).")
more6("C18", "A-u.refuse / A-u.source for descriptions; the decoder's verdict on a load option is final (F15.final).")
more6("C19", "a decoded value shares no memory with its input (G9.copy).")

def more7(i, extra):
    t, text, ref = CLAIMS[i]
    CLAIMS[i] = (t, text + " Added with the seventh, partial round (DESIGN.md §10.10): " + extra, ref)

more7("C02", "an element of the signature kept under an input-chosen key does not replace an earlier one (A.keyed-once); unknown attributes are kept (X2.unknown).")
more7("C04", "A.keyed-once; X2.unknown.")
more7("C09", "a database never takes over the other database's slice (K10.share-db); where the normaliser finds no PEM block it hands back exactly its input (K8.exact).")
more7("C11", "F16.stateless over every exported method of the stores; every successful return of the exported writers lies behind the file write (F17.always-write).")
more7("C12", "F16.stateless over every exported method of the stores (typed getters and WriteSignedUpdate included); F17.always-write.")
more7("C13", "a slice bound or index computed from bytes of an input slice is compared with the length it bounds (T13.bytes); a decoding loop does not walk the collection it is growing (T14.quadratic).")
more7("C14", "T13.bytes, T14.quadratic over the variable decoders.")
more7("C16", "with an optional element absent the parser still succeeds (X1.absent); A.keyed-once.")
