# Claimed properties (executed by gen_manifest.py).
claim("C11", "CFG path-count, constant flag-set evaluation, value-flow slices and format-language evaluation over the two write twins and the read path",
      "Decides the shape of the filesystem boundary that an in-memory filesystem cannot observe: exactly one Write per successful path and never two, "
      "open flags O_WRONLY|O_CREATE without O_EXCL and O_APPEND iff the APPEND_WRITE edge was taken, buffer = LE32(attrs) ++ value, path from efivars dir/name/canonical GUID text, "
      "short-write check, required.Equal(stored) gate dominating the decode, 4+rest read shape, argument mapping of WriteVar; identical rules on both twins. Kernel behaviour is not decided.",
      "DESIGN.md §4 C11")
claim("C12", "constant flag-set evaluation and table agreement between the in-memory store's strip list and the efivar definitions (SSA of the package initialiser)",
      "Decides two necessary conditions of register semantics: old content is discarded on non-append rewrites (O_TRUNC/Create/Remove), and the descriptor is stripped exactly for the "
      "authenticated variables from a fresh per-call buffer, with fresh buffers on the read path. Histories are not explored.", "DESIGN.md §4 C12")
claim("C13", "VTA call-graph reachability of terminators with trigger classification; field-based input taint with dominating-guard (missing-check) rules; nil-optional dataflow",
      "Decides, over everything reachable from the exported API of authenticode and pkcs7: no process terminator with a feasible trigger; every allocation / unsigned subtraction / "
      "Truncate-Next-Grow / slice bound fed by input-derived values is dominated by a relating check; optional results are nil-checked before dereference. "
      "General panic-, hang- and time-freedom are not decided.", "DESIGN.md §4 C13")
claim("C14", "call-graph enumeration of process terminators with trigger classification; input taint with dominating-guard rules (T1-T5); nil-optional dataflow",
      "Decides the property's own static clause (every log.Fatal*/os.Exit/panic/must-style site in library code, classified by the dominating condition) and the missing-check rules "
      "for sizes, wraps, last-element and input-derived indexes in the variable decoders. Panic-, hang- and memory-freedom for all inputs are not decided.", "DESIGN.md §4 C14")
claim("C15", "error-discipline dataflow at dependency call sites (failure-region reachability on the CFG), dominance of effects by success edges, terminator classification",
      "Decides, for every call site of a caller-supplied signer / filesystem / image reader reachable from the listed operations: the error is not dropped, every return reachable "
      "from the failure edge carries a non-nil error, no terminator is triggered by it, short writes are checked, and mutations/writes sit behind the success edge of signing. "
      "It covers all fault positions at once but only the error-handling shape, not executed behaviour.", "DESIGN.md §4 C15")

claim("C02", "cut-set analysis on the CFG of the verification chain: every path to an accepting return must cross evidence edges, with facts inherited through callee results (value-flow slices for the role constraints)",
      "Decides that PECOFFBinary.Verify / Authenticode.Verify report success only behind: image digest == digest in the signed content (SHA-256, algorithm OID checked), signer issuer+serial == the caller's certificate, "
      "CheckSignature(SHA256WithRSA) by the caller's certificate over the re-encoded signed attributes, and messageDigest == SHA-256(encapsulated content); per loop iteration, and with the signature parsed from the image's own table. "
      "Correctness of the hashes, RSA, DER parsing and of the digest itself (C01) is not decided.", "DESIGN.md §4 C02")
claim("C04", "cut-set analysis on the CFG of (*PKCS7).Verify and its helpers with inherited callee facts; nil-optional dataflow for absent signed attributes",
      "Decides that the three PKCS#7 verification entry points accept only behind issuer+serial identity with the caller's certificate, a valid RSA-SHA256 CheckSignature by that certificate over the attributes encoder's output, "
      "and the messageDigest/content binding (or a detached blob), all applied to the same signer entry. DER strictness and equality of re-encoded and signed attribute bytes (C16) are not decided.", "DESIGN.md §4 C04")

NA["C16"] = ("acceptance of third-party signatures depends on the bytes other tools emit at run time (attribute order/encoding "
             "chosen by OpenSSL/sbsign); the source holds no representation of them, so no structural condition beyond C04/C13 exists to check statically")
for _i in ["C01","C03","C05","C06","C07","C08","C09","C10","C17","C18","C19"]:
    NA.setdefault(_i, "rule set for this property not built yet in this round (see DESIGN.md Appendix C); no static verdict is claimed")
