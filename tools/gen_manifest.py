#!/usr/bin/env python3
"""Regenerates /verif/MANIFEST.json from the table below and validates it."""
import json, os, sys
HERE = os.path.dirname(os.path.dirname(os.path.abspath(__file__)))

NOTE = ("Trusted base: go/types + go/ssa (x/tools v0.29.0), VTA call graph seeded with CHA, documented semantics of the "
        "stdlib/x-crypto/afero functions in the rule tables. The check decides structural necessary conditions of the "
        "property on every path of the analysed functions; it executes nothing and proves nothing about run-time values.")

CLAIMS = {}   # id -> (technique, level text, design_ref)
NA = {}       # id -> reason

def claim(i, technique, text, ref):
    CLAIMS[i] = (technique, text, ref)

exec(open(os.path.join(HERE, "tools", "claims.py")).read())

props = [json.loads(l)["id"] for l in open(os.path.join(HERE, "properties.jsonl"))]
checks = []
for i in props:
    if i in CLAIMS:
        t, text, ref = CLAIMS[i]
        checks.append({
            "property_id": i,
            "quick_cmd": "./check %s quick" % i,
            "thorough_cmd": "./check %s thorough" % i,
            "evidence_file": "/verif/evidence/%s.json" % i,
            "replay_cmd_template": "./check %s --explain {path}" % i,
            "engine": "vcheck",
            "level_claimed": {"category": "other", "text": text, "design_ref": ref},
            "level_note": NOTE,
            "technique": t,
        })
na = [{"property_id": i, "reason": NA.get(i, "no check built for this property")} for i in props if i not in CLAIMS]
m = {
    "version": 1,
    "setup_cmd": "./setup.sh",
    "hooks": {"guard": "verif", "enable": "no hooks: static analysis reads /repo's sources; thorough tier also analyses with -tags verif so a guarded file cannot hide code",
              "baseline_off_cmd": "cd /repo && go test -mod=mod -vet=off -count=1 ./...", "source_commits": [], "add_only": True},
    "engines": [{"name": "vcheck", "path": "/verif/checker", "serves_properties": sorted(CLAIMS),
                 "kind_free_text": "custom static analyser over go/packages + go/types + go/ssa + VTA call graph; one rule set per property"}],
    "checks": checks,
    "not_applicable": na,
    "notes": "All claims are level 'other': repository-specific static rules (dataflow, cut-sets on the CFG, call-graph reachability, codec/format tables). See DESIGN.md.",
}
json.dump(m, open(os.path.join(HERE, "MANIFEST.json"), "w"), indent=1)
try:
    import jsonschema
    jsonschema.validate(m, json.load(open("/root/.vp/MANIFEST.schema.json")))
    print("MANIFEST.json valid; claimed:", sorted(CLAIMS), "n/a:", [x["property_id"] for x in na])
except ImportError:
    print("jsonschema not available; written without validation")
