#!/usr/bin/env python3
"""Rebuilds the first-run records of a round from the intake logs under /tmp/sa (the intake jobs rewrite one JSON file
each and lose updates when two of them run at once). usage: tools/rebuild_first_run.py"""
import re, json, glob, ast, os
V = os.path.dirname(os.path.dirname(os.path.abspath(__file__)))
def num(f): return int(re.search(r'intake_(\d+)', f).group(1))
rw = {}
for f in sorted(glob.glob('/tmp/sa/intake_*.log'), key=num):
    cur = None
    for l in open(f):
        m = re.match(r'(C\d\d/R-\d+): (applies, builds, suite passes|FAILED)', l)
        if m:
            cur = m.group(1)
            if m.group(2) == 'FAILED':
                rw.pop(cur, None); cur = None
            continue
        m = re.match(r"\s+first run: reported_by=(\{.*\}) finished=(\d+)", l)
        if m and cur:
            rw[cur] = {"confirmed": True, "reported_by": ast.literal_eval(m.group(1)), "checks_finished": int(m.group(2))}
            cur = None
rw = {k: v for k, v in rw.items() if os.path.exists(os.path.join(V, "refactors", k, "patch.diff")) and v["checks_finished"] > 0}
json.dump(dict(sorted(rw.items())), open(os.path.join(V, "validation", "round6_rewrites_first_run.json"), "w"), indent=1)
rep = [k for k, v in rw.items() if v["reported_by"]]
print(len(rw), "rewrites recorded,", len(rep), "reported by some check on the first run")
print("reported:", rep)
