#!/usr/bin/env python3
"""Checker validation for the thorough tier: applies every seeded breaking change
(/verif/seeded/<id>-k) and every behaviour-preserving refactoring
(/verif/refactors/<id>/R-k) of one property to a scratch worktree of /repo's
HEAD (outside /repo and /verif, removed at once), runs the property's quick
check on it and records whether the rule fired / stayed silent. The result is
merged into the evidence file under coverage.checker_validation. It measures
the checker, not /repo: it never changes the check's exit code."""
import json, os, re, subprocess, sys, glob, concurrent.futures as cf

V = os.path.dirname(os.path.dirname(os.path.abspath(__file__)))

def run(patch, prop):
    out = ""
    for attempt in range(4):
        p = subprocess.run([os.path.join(V, "tools", "mutant.sh"), patch, prop], capture_output=True, text=True,
                           env=dict(os.environ, CUT="2000"))
        out = p.stdout + p.stderr
        if "property=" + prop in out or "PATCH DOES NOT APPLY" in out:
            break
    if "PATCH DOES NOT APPLY" in out:
        return {"applies": False}
    rules = sorted(set(re.findall(r"\[([A-Za-z0-9_.\-=]+)\]", "\n".join(l for l in out.splitlines() if l.startswith("  ")))))
    return {"applies": True, "fired": "VIOLATION property=" in out, "rules": rules}

def main():
    prop = sys.argv[1]
    jobs = []
    for d in sorted(glob.glob(os.path.join(V, "seeded", prop + "-*"))):
        jobs.append(("mutant", os.path.basename(d), os.path.join(d, "patch.diff")))
    # mutants seeded for other properties that this property's rules also catch are listed in DESIGN.md, not re-run here
    for d in sorted(glob.glob(os.path.join(V, "refactors", prop, "R-*"))):
        jobs.append(("refactor", prop + "/" + os.path.basename(d), os.path.join(d, "patch.diff")))
    res = {"mutants": [], "refactors": []}
    with cf.ThreadPoolExecutor(max_workers=6) as ex:
        futs = {ex.submit(run, j[2], prop): j for j in jobs}
        for f in cf.as_completed(futs):
            kind, name, _ = futs[f]
            r = f.result(); r["id"] = name
            res["mutants" if kind == "mutant" else "refactors"].append(r)
    for k in res: res[k].sort(key=lambda r: r["id"])
    ok_m = sum(1 for r in res["mutants"] if r.get("fired"))
    ok_r = sum(1 for r in res["refactors"] if r.get("applies") and not r.get("fired"))
    res["summary"] = {"mutants_total": len(res["mutants"]), "mutants_reported": ok_m,
                      "refactors_total": len(res["refactors"]), "refactors_silent": ok_r,
                      "skipped_not_applying": sum(1 for k in ("mutants", "refactors") for r in res[k] if not r.get("applies"))}
    ev = os.path.join(V, "evidence", prop + ".json")
    e = json.load(open(ev))
    e["coverage"]["checker_validation"] = res
    json.dump(e, open(ev, "w"), indent=1)
    s = res["summary"]
    print("checker validation for %s: %d/%d seeded changes reported, %d/%d refactorings silent (%d patches no longer apply)" % (
        prop, ok_m, s["mutants_total"], ok_r, s["refactors_total"], s["skipped_not_applying"]))
    for r in res["mutants"]:
        if r.get("applies") and not r.get("fired"): print("  MISSED seeded change", r["id"])
    for r in res["refactors"]:
        if r.get("fired"): print("  ALARM on refactoring", r["id"], r.get("rules"))

main()
