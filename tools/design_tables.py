#!/usr/bin/env python3
"""Regenerates the validation tables of DESIGN.md (between the BEGIN/END markers) from
validation/matrix_seeded.json, validation/matrix_refactors.json and the seeded/*/notes.md titles."""
import json, os, re, glob
V = os.path.dirname(os.path.dirname(os.path.abspath(__file__)))
seeded = json.load(open(os.path.join(V, "validation", "matrix_seeded.json")))
refs = json.load(open(os.path.join(V, "validation", "matrix_refactors.json")))
def title(d):
    p = os.path.join(V, "seeded", d, "notes.md")
    if not os.path.exists(p): return ""
    t = open(p).read().splitlines()[0].lstrip("# ").strip()
    t = re.sub(r"^C\d\d-\d\s*[—:-]*\s*", "", t)
    return t.replace("|", "/")
out = []
out.append("| seeded change | what it does | reported by its own property's check (rules) | also reported by |")
out.append("|---|---|---|---|")
missed = []
rec_path = os.path.join(V, "validation", "recorded_misses.json")
recorded = json.load(open(rec_path)) if os.path.exists(rec_path) else {}
rec_hit = []
for k in sorted(seeded):
    own = k.split("-")[0]
    rb = seeded[k]["reported_by"]
    o = ", ".join(rb.get(own, [])) or ("not reported (recorded as not caught, §10.6/§10.8/§10.10)" if k in recorded else "**not reported**")
    if own not in rb:
        (rec_hit if k in recorded else missed).append(k)
    others = "; ".join(f"{p}: {', '.join(r)}" for p, r in sorted(rb.items()) if p != own) or "—"
    out.append(f"| {k} | {title(k)} | {o} | {others} |")
out.append("")
out.append(f"{len(seeded)} seeded changes, {len(seeded)-len(missed)-len(rec_hit)} reported by the check of the property they were written against"
           + (f"; {len(rec_hit)} recorded as not caught ({', '.join(rec_hit)}; reasons in validation/recorded_misses.json, §10.6, §10.8 and §10.10)" if rec_hit else "")
           + (f" (missed: {', '.join(missed)})" if missed else "") + ".")
out.append("")
per = {}
expected_notes = []
for k, v in refs.items():
    p = k.split("/")[0]
    per.setdefault(p, [0, 0, []])
    per[p][0] += 1
    rb = dict(v["reported_by"])
    # reports that are right: the rewrite keeps its own property and gives up another (expected.json)
    ex = os.path.join(V, "refactors", k, "expected.json")
    if os.path.exists(ex):
        exp = json.load(open(ex))
        for q in list(rb):
            if q in exp and sorted(rb[q]) == sorted(exp[q]):
                expected_notes.append(f"{k}: {q} {', '.join(rb[q])} — expected ({exp.get('why','')})")
                del rb[q]
    if rb:
        per[p][1] += 1
        per[p][2].append(k + " -> " + "; ".join(f"{q}: {', '.join(r)}" for q, r in sorted(rb.items())))
out.append("| rewrites written against | number | reported by any of the checks |")
out.append("|---|---|---|")
for p in sorted(per):
    out.append(f"| {p} | {per[p][0]} | {per[p][1] or 'none'}{(' (' + ' / '.join(per[p][2]) + ')') if per[p][2] else ''} |")
tot = sum(v[0] for v in per.values()); bad = sum(v[1] for v in per.values())
out.append("")
out.append(f"{tot} behaviour-preserving rewrites, {bad} reported (each rewrite is run against all checks, not only its own).")
for n in expected_notes:
    out.append("")
    out.append("Expected report, not counted above — " + n)
block = "\n".join(out)
p = os.path.join(V, "DESIGN.md")
s = open(p).read()
b, e = "<!-- BEGIN:matrix -->", "<!-- END:matrix -->"
if b in s and e in s:
    s = s[:s.index(b) + len(b)] + "\n" + block + "\n" + s[s.index(e):]
    open(p, "w").write(s)
    print("DESIGN.md updated")
else:
    print(block)
