#!/usr/bin/env python3
"""Runs every patch under the given directories against all checks (one scratch
worktree and one program load per patch) and prints/records which checks report it.
usage: tools/matrix.py <out.json> <dir-with-patch.diff>..."""
import json, os, re, subprocess, sys, concurrent.futures as cf
V = os.path.dirname(os.path.dirname(os.path.abspath(__file__)))
NCHK = len(json.load(open(os.path.join(V, "MANIFEST.json")))["checks"])
def run(d):
    out = ""
    for attempt in range(4):
        p = subprocess.run([os.path.join(V, "tools", "mutant.sh"), os.path.join(d, "patch.diff"), "ALL"], capture_output=True, text=True, env=dict(os.environ, CUT="3000"))
        out = p.stdout
        if out.count("\nproperty=") + out.startswith("property=") >= NCHK or "PATCH DOES NOT APPLY" in out:
            break
    res = {}
    cur = None
    for l in out.splitlines():
        m = re.match(r"VIOLATION property=(C\d+)", l)
        if m: cur = m.group(1); res[cur] = []; continue
        if l.startswith("property="): cur = None; continue
        if cur and l.startswith("  "):
            r = re.search(r"\[([A-Za-z0-9_.\-=]+)\]", l)
            if r and r.group(1) not in res[cur]: res[cur].append(r.group(1))
    ran = len(set(re.findall(r"^property=(C\d+)", out, re.M)))
    r = {"applies": "PATCH DOES NOT APPLY" not in out, "reported_by": res}
    if r["applies"] and ran < NCHK:
        # a check that did not finish (a crash of the analyser) must not pass for silence
        r["incomplete"] = NCHK - ran
    return r
def main():
    out = sys.argv[1]; dirs = sys.argv[2:]
    results = {}
    with cf.ThreadPoolExecutor(max_workers=int(os.environ.get("JOBS", "6"))) as ex:
        futs = {ex.submit(run, d): d for d in dirs}
        for f in cf.as_completed(futs):
            d = futs[f]; results[os.path.basename(d.rstrip("/")) if "R-" not in d else "/".join(d.rstrip("/").split("/")[-2:])] = f.result()
    json.dump(dict(sorted(results.items())), open(out, "w"), indent=1)
    for k, v in sorted(results.items()):
        print(k, "->", {p: r for p, r in v["reported_by"].items()} if v["applies"] else "DOES NOT APPLY", ("INCOMPLETE: %d checks did not finish" % v["incomplete"]) if v.get("incomplete") else "")
main()
