#!/usr/bin/env python3
"""Writes the task descriptions handed to the independent sub-agents of a validation round
(one file per property and kind under /tmp/sa/briefs) and creates their scratch worktrees.
A sub-agent gets the text of one property, its own worktree and the one-line titles of the
changes earlier rounds produced for that property (so that it does not repeat them) - nothing
else from /verif.
usage: tools/make_briefs.py seeded|rewrite <first-number> [ids...]"""
import json, os, re, subprocess, sys
V = os.path.dirname(os.path.dirname(os.path.abspath(__file__)))
kind, first = sys.argv[1], int(sys.argv[2])
only = sys.argv[3:]
props = {json.loads(l)["id"]: json.loads(l) for l in open(os.path.join(V, "properties.jsonl"))}
na = set(json.load(open(os.path.join(V, "MANIFEST.json"))).get("not_applicable_ids", [])) or {"C16"}
os.makedirs("/tmp/sa/briefs", exist_ok=True)
ENV = """Environment (every shell call; nothing persists between calls):
  export GOFLAGS=-mod=mod GOPROXY=off GOSUMDB=off GOTOOLCHAIN=local; unset GOWORK
There is no network. The existing test suite is run with
  go test -vet=off -count=1 ./authenticode/... ./efi/... ./efivarfs/... ./pkcs7/... ./efivar/... ./tests/tests/...
(from the root of your worktree; it takes well under a minute). go.mod / go.sum may be touched by the go tool:
never include them in a patch (git checkout -- go.mod go.sum before you take a diff).
Work ONLY inside your worktree {wt}. Do not read or write anything under /verif or /repo, do not look at other
directories under /tmp, do not commit anything. Produce each patch with `git diff` (plus new files: use
`git add -N <file>` first so that they show up), then restore the tree (`git checkout -- . && git clean -fdq -e out` - never delete your `out` directory)
before you start the next one."""
def titles(pid):
    out = []
    for d in sorted(os.listdir(os.path.join(V, "seeded"))):
        if d.startswith(pid + "-"):
            p = os.path.join(V, "seeded", d, "notes.md")
            if os.path.exists(p):
                t = open(p).read().splitlines()[0].lstrip("# ").strip()
                out.append("- " + re.sub(r"^C\d\d-\d+\s*[—:-]*\s*", "", t))
    return "\n".join(out)
def rtitles(pid):
    out = []
    base = os.path.join(V, "refactors", pid)
    for d in sorted(os.listdir(base), key=lambda s: int(s.split("-")[1])):
        p = os.path.join(base, d, "notes.md")
        if os.path.exists(p):
            t = open(p).read().splitlines()[0].lstrip("# ").strip()
            out.append("- " + t)
    return "\n".join(out)
HINTS = json.load(open(os.path.join(V, "tools", "rewrite_hints.json"))) if os.path.exists(os.path.join(V, "tools", "rewrite_hints.json")) else {}
for pid, p in sorted(props.items()):
    if (only and pid not in only) or (pid == "C16" and not only): continue
    wt = f"/tmp/sa/{pid}-{'s' if kind == 'seeded' else 'r'}"
    if not os.path.exists(wt):
        subprocess.run(["git", "-C", "/repo", "worktree", "add", "-q", "--detach", wt, "HEAD"], check=True)
    ptxt = json.dumps({k: p[k] for k in ("id", "title", "statement", "quantifier", "why_tests_cant", "anchors")}, indent=1)
    nums = [first, first + 1, first + 2]
    if kind == "seeded":
        body = f"""You are testing how well a project's safety net notices subtle regressions. The project is the Go library
Foxboron/go-uefi (UEFI Secure Boot structures: signature lists/databases, authenticated variables, PE/COFF Authenticode
hashing and signing, a PKCS7 subset). You have your own git worktree of it at {wt}.

Here is one semantic property the library is supposed to have (line numbers in the anchors are approximate - the tree has
moved on a little; read the code):

{ptxt}

YOUR TASK: write THREE different changes to the library (non-test .go files) each of which BREAKS this property while the
tree still compiles and the whole existing test suite still passes. For each change also write a demonstration: one Go test
file that FAILS with your change applied and PASSES on the unchanged tree.

What kind of change is wanted. Not vandalism and nothing ordinary use would expose at once: a change a maintainer could
plausibly make and a reviewer could plausibly approve (a clean-up, an optimisation, a new feature, a "bug fix", a hardening
that goes slightly wrong), whose effect needs something specific to manifest: a particular multi-step sequence of operations,
an unusual but legal input, a fault at a particular point (a reader / signer / file system that fails or returns short at the
n-th call), a particular interleaving of goroutines, or - best of all - TWO COOPERATING SITES that each look fine alone (a
helper changed in one file and a caller that now relies on something the helper no longer guarantees; a value normalised in
one place and compared raw in another; an invariant established in a constructor and silently dropped by one mutator; a
writer and a reader changed consistently so that round-trip tests pass but the wire format is wrong). At least ONE of your
three changes must be of this two-site kind, and at least one must touch a function or mechanism that none of the earlier
changes listed below touched. Make the three changes different from each other in mechanism.

Earlier rounds already produced these changes for this property - do NOT repeat them or close variants of them:
{titles(pid)}

{ENV.format(wt=wt)}

Deliverables - for k in 1, 2, 3 create the directory {wt}/out/{'{k}'}/ (the `out` directory is untracked; create it and
leave it alone when you clean the tree: use `git clean -fdq -e out`) containing
  patch.diff    - `git diff` of the change against the unchanged tree (library files only, no tests, no go.mod/go.sum)
  demo_test.go  - the demonstration test. Its FIRST LINE must be a comment of the form
                  // place in: <path relative to the repository root where the file has to be copied, e.g. efi/signature/c09_demo_{'{k}'}_test.go>
                  It must be a normal `package xxx` (or xxx_test) test file for that directory, self-contained (it may use
                  files under the repository's existing testdata directories and the helpers the package already has),
                  deterministic, and finish within 60 seconds.
  notes.md      - first line: `# <one-line title saying what the change does>`; then sections: `## Change` (files,
                  functions, what and the plausible motivation), `## Clause of the property that breaks`, `## Needs to
                  manifest` (the specific sequence / input / fault / interleaving), `## Why the existing tests do not notice`.

Before you finish, VERIFY each change yourself, in this order, in your worktree: (1) apply patch; `go build ./...` and the
full suite command above pass; (2) copy demo_test.go to its place and run `go test -vet=off -count=1 ./<its dir>/` - it must
FAIL; (3) revert the patch (keep the demo), run the same command - it must PASS; (4) remove the demo and restore the tree.
A change that fails any of these is worthless - fix it or replace it. Your final message: for each of the three, one line
with the title and the result of the four verification steps.
"""
    else:
        hint = HINTS.get(pid, "")
        body = f"""You are producing behaviour-preserving rewrites (refactorings) of a Go library, to be used as negative controls for a
static checker: code that is written differently but behaves identically. The project is Foxboron/go-uefi (UEFI Secure Boot
structures: signature lists/databases, authenticated variables, PE/COFF Authenticode hashing and signing, a PKCS7 subset).
You have your own git worktree of it at {wt}.

Here is one semantic property the library has (line numbers in the anchors are approximate; read the code):

{ptxt}

YOUR TASK: write THREE different rewrites of the library code that implements this property (the functions named in the
anchors and their helpers; non-test .go files only). Each rewrite must PRESERVE BEHAVIOUR EXACTLY for every input, every
history, every failing dependency - including which error is returned when, what is left unchanged on failure, what bytes are
produced - and in particular the property above must still hold. The rewrites should be substantial (30-150 changed lines
each), realistic (something a maintainer could do), and different from each other in kind:
  rewrite {nums[0]}: the same checks and computations expressed differently - conditions rewritten (De Morgan, early return vs nested
     if, switch vs if-chain, comparison flipped, arithmetic rearranged), values computed at a different but equivalent point,
     errors carried in differently named or reused variables where that is provably harmless, constants named.
  rewrite {nums[1]}: data and control moved around - helpers extracted or inlined, logic moved between caller and callee or into methods
     of a small new unexported type, a struct passed field by field or the other way round, loops restructured (range vs
     counted, loop fusion/splitting), intermediate buffers introduced or removed, closures vs named functions.
  rewrite {nums[2]}: different library idioms with identical semantics - other standard-library calls that do the same thing
     (io.ReadFull vs binary.Read into a fixed array plus hand decoding, bytes.Buffer vs append, sort.Slice vs slices.SortFunc,
     fmt vs strconv/hex, errors.Is vs ==, read-only package-level lookup tables or maps that are filled once at init and only
     read afterwards, a sync.Pool whose objects are fully reset and never escape, iteration over a map with the keys sorted
     first, a bounded loop whose bound provably never cuts a legal input short), generics, iterators, defer-based cleanup.
{hint}
Earlier rounds already produced these rewrites for this property - do something different:
{rtitles(pid)}

{ENV.format(wt=wt)}

Deliverables - for k in {nums[0]}, {nums[1]}, {nums[2]} create {wt}/out/R-{'{k}'}/ (the `out` directory is untracked; when you clean the tree
use `git clean -fdq -e out`) containing
  patch.diff - `git diff` of the rewrite against the unchanged tree (library files only; no tests; no go.mod/go.sum)
  notes.md   - first line `# R-{'{k}'} — <one-line title>`; then `## What changed`, `## Why behaviour is preserved` (argue every
               changed condition and every error path; mention anything subtle).
Before you finish VERIFY each rewrite: apply the patch, `go build ./...`, `go vet` on the touched packages, the full suite
passes; and convince yourself of equivalence beyond the suite - write a throw-away differential test (old function copied
under another name vs new function, over a few thousand generated inputs including malformed and truncated ones and failing
readers/writers where relevant), run it, and delete it (do not deliver it). If you are not sure a rewrite preserves behaviour
in some corner (error identity, partial effects on failure, aliasing of returned slices, evaluation order), change the
rewrite until you are. Restore the tree afterwards. Your final message: one line per rewrite with its title and what you
ran to check equivalence.
"""
    open(f"/tmp/sa/briefs/{pid}-{'s' if kind == 'seeded' else 'r'}.md", "w").write(body)
    print("wrote", pid, wt)
